#!/usr/bin/env python3
"""C16 defect: a request issued before an edit can be answered from a mixture of two versions: the task
converts the position with the line table of the NEW text (it reads the live document store) and asks the
OLD analysis snapshot.  Here: hover on `late` in `fn early() { late() }` (line 7) followed at once by an edit
that inserts two lines at the top; a correct server answers the hover for the old text (type of `late`) or
with a cancellation error, never with something else.
Usage: python3 findings/c16_mixed_version_answer.py"""
import os, sys, json, shutil, time, random
sys.path.insert(0, os.path.join(os.path.dirname(os.path.abspath(__file__)), "..", "tools"))
import lsp, p_edits, p_race

def main():
    a = p_race.gen_module(random.Random(1), 800, p_race.LATES[0])
    root = p_edits.setup_root({"A": a, "B": "pub fn b() { 1 }\n"})
    uri = "file://" + root + "/src/a.gleam"
    off = a.index("  late()") + 2
    line, col = p_edits.linecol(a, off)
    outcomes = {}
    try:
        for attempt in range(40):
            c = lsp.Lsp(root, {}, verif=False)
            c.initialize()
            c.notify("textDocument/didOpen", {"textDocument": {"uri": uri, "languageId": "gleam", "version": 1, "text": a}})
            p_edits.quiesce(c, quiet=0.2)
            want = p_edits.canon(c.request("textDocument/hover", {"textDocument": {"uri": uri}, "position": {"line": line, "character": col}}))
            i = c.send_request("textDocument/hover", {"textDocument": {"uri": uri}, "position": {"line": line, "character": col}})
            c.notify("textDocument/didChange", {"textDocument": {"uri": uri, "version": 2},
                                                  "contentChanges": [{"range": {"start": {"line": 0, "character": 0}, "end": {"line": 0, "character": 0}}, "text": "\n\n"}]})
            got = p_edits.canon(c.wait(i, timeout=30))
            k = "old-version answer" if got == want else ("cancelled/error" if got == "error" else "MIXED: " + str(got)[:90])
            outcomes[k] = outcomes.get(k, 0) + 1
            c.close()
    finally:
        shutil.rmtree(root, ignore_errors=True)
    for k, v in outcomes.items():
        print(v, k)
    bad = any(k.startswith("MIXED") for k in outcomes)
    print("DEFECT REPRODUCED" if bad else "not reproduced")
    return 1 if bad else 0

if __name__ == "__main__":
    sys.exit(main())
