#!/usr/bin/env python3
"""C15 defect: a workspace/didChangeWatchedFiles event whose URI is not a `file:` URI but whose path part names
an existing file (`untitled:/…/src/a.gleam`, `git:/…/src/a.gleam?ref=HEAD`) ends the server process:
`Url::to_file_path` does no scheme check, the file is read, `set_vfs_file_content` then meets a virtual path
and unwraps `as_path()` (server.rs, `package_roots.insert(PackageRoot { path: vpath.as_path().unwrap() … })`).
Usage: python3 findings/c15_watched_nonfile_uri.py   (uses the glas binary the checks build)"""
import os, sys, shutil, tempfile
sys.path.insert(0, os.path.join(os.path.dirname(os.path.abspath(__file__)), "..", "tools"))
import lsp

def main():
    lsp.build_glas()
    root = tempfile.mkdtemp(prefix="c15w-", dir=os.path.join(os.path.dirname(os.path.abspath(__file__)), "..", "work") if os.path.isdir(os.path.join(os.path.dirname(os.path.abspath(__file__)), "..", "work")) else None)
    os.makedirs(root + "/src")
    open(root + "/gleam.toml", "w").write('name = "p"\n')
    open(root + "/src/a.gleam", "w").write("pub fn a() { 1 }\n")
    bad = 0
    try:
        for uri in ("untitled:" + root + "/src/a.gleam", "git:" + root + "/src/a.gleam?ref=HEAD"):
            c = lsp.Lsp(root)
            c.initialize()
            c.notify("workspace/didChangeWatchedFiles", {"changes": [{"uri": uri, "type": 2}]})
            r = c.request("glas/syntaxTree", {"textDocument": {"uri": "file://" + root + "/src/a.gleam"}}, timeout=10)
            alive = c.alive()
            print(f"event for {uri.split(':')[0]}: URI -> server alive: {alive}" + ("" if alive else f"; stderr: {c.stderr_tail()[-160:].strip()!r}"))
            if not alive:
                bad += 1
            c.close()
    finally:
        shutil.rmtree(root, ignore_errors=True)
    print("DEFECT REPRODUCED" if bad else "not reproduced")
    return 1 if bad else 0

if __name__ == "__main__":
    sys.exit(main())
