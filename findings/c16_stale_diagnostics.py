#!/usr/bin/env python3
"""C16 defect: a diagnostics task cancelled by a change to ANOTHER document publishes an empty list and is
never recomputed, so after quiescence the last diagnostics of the first document are not those of its text.
Usage: python3 findings/c16_stale_diagnostics.py   (builds nothing; uses harness/target/glasbin/debug/glas)"""
import os, sys, json, shutil, tempfile, time
sys.path.insert(0, os.path.join(os.path.dirname(os.path.abspath(__file__)), "..", "tools"))
import lsp, p_edits, p_race, random

def main():
    a = p_race.gen_module(random.Random(1), 1500, p_race.LATES[0])
    b = "pub fn b() { 1 }\n"
    root = p_edits.setup_root({"A": a, "B": b})
    docs = {"A": "file://" + root + "/src/a.gleam", "B": "file://" + root + "/src/b.gleam"}
    bad = 0
    try:
        for attempt in range(5):
            c = lsp.Lsp(root, {}, verif=False)
            c.initialize()
            c.notify("textDocument/didOpen", {"textDocument": {"uri": docs["A"], "languageId": "gleam", "version": 1, "text": a}})
            c.notify("textDocument/didOpen", {"textDocument": {"uri": docs["B"], "languageId": "gleam", "version": 1, "text": b}})
            p_edits.quiesce(c)
            # A gets a syntax error; B is edited right behind it
            c.notify("textDocument/didChange", {"textDocument": {"uri": docs["A"], "version": 2},
                                                  "contentChanges": [{"range": {"start": {"line": 0, "character": 0}, "end": {"line": 0, "character": 0}}, "text": "= = =\n"}]})
            c.notify("textDocument/didChange", {"textDocument": {"uri": docs["B"], "version": 2}, "contentChanges": [{"text": "pub fn b() { 2 }\n"}]})
            p_edits.quiesce(c, quiet=1.0)
            d = p_edits.last_diags(c, docs)
            r = c.request("glas/syntaxTree", {"textDocument": {"uri": docs["A"]}})
            has_err = "ERROR" in r["result"]
            print(f"attempt {attempt}: server's text of A has a syntax error: {has_err}; last diagnostics published for A: {d.get(docs['A'])[:120]}")
            if has_err and d.get(docs["A"]) == "[]":
                bad += 1
            c.close()
    finally:
        shutil.rmtree(root, ignore_errors=True)
    print("DEFECT REPRODUCED" if bad else "not reproduced")
    return 1 if bad else 0

if __name__ == "__main__":
    sys.exit(main())
