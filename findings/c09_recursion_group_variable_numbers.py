#!/usr/bin/env python3
"""C09 defect: in `infer_function_group_query` every function of a recursion group started its own numbering of type
variables at the same value; variables of different functions collided and the Collector (which names by number)
displayed two unrelated type variables under one letter: for
    fn f(x, y) { g(y, x) }      fn g(p, q) { f(q, p) }
hover showed `fn f(a, a) -> b` (Gleam: fn(a, b) -> c).
Usage: python3 findings/c09_recursion_group_variable_numbers.py"""
import os, sys
sys.path.insert(0, os.path.join(os.path.dirname(os.path.abspath(__file__)), "..", "tools"))
import common
from common import hexs, unhexs

def main():
    common.build_harness()
    src = "fn f(x, y) {\n  g(y, x)\n}\n\nfn g(p, q) {\n  f(q, p)\n}\n"
    lines = ["ws-begin", f"file\t/w/p/src/m.gleam\t{hexs(src)}", "file\t/w/p/gleam.toml\t" + hexs('name = "p"\n'), "root\t/w/p\t0,1", "pkg\tp\t1\t1\t-", "ws-end",
             f"hover\t0\t{src.index('fn f(') + 3}"]
    out, rc = common.run_lines(common.HARNESS_BIN, lines)
    shown = unhexs(out[-1].split(" ", 1)[1]).split("\n")[1]
    print("hover on f:", shown)
    bad = "f(a, a)" in shown
    print("DEFECT REPRODUCED" if bad else "not reproduced")
    return 1 if bad else 0

if __name__ == "__main__":
    sys.exit(main())
