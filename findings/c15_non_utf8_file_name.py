#!/usr/bin/env python3
"""C15 defect: didOpen of a package file whose name is not valid UTF-8 (percent-encoded bytes in the URI, e.g.
file:///<root>/src/%FF.gleam) ended the server process: `ide::base::module_name` called
`.to_str().expect("Module name path to str")` inside `Change::apply`, on the main loop.
Usage: python3 findings/c15_non_utf8_file_name.py   (uses the glas binary the checks build)"""
import os, sys, shutil
sys.path.insert(0, os.path.join(os.path.dirname(os.path.abspath(__file__)), "..", "tools"))
import common, lsp

def main():
    lsp.build_glas()
    root = os.path.join(common.ROOT, "work", "c15-nonutf8")
    shutil.rmtree(root, ignore_errors=True)
    os.makedirs(root + "/src")
    open(root + "/gleam.toml", "w").write('name = "p"\n')
    open(root + "/src/a.gleam", "w").write("pub fn a() { 1 }\n")
    bad = 0
    try:
        for uri in ("file://" + root + "/src/%FF.gleam", "file://" + root + "/src/b%C3%28.gleam"):
            c = lsp.Lsp(root)
            c.initialize()
            c.notify("textDocument/didOpen", {"textDocument": {"uri": uri, "languageId": "gleam", "version": 1, "text": "pub fn x() { 1 }\n"}})
            c.request("glas/syntaxTree", {"textDocument": {"uri": "file://" + root + "/src/a.gleam"}}, timeout=10)
            alive = c.alive()
            print(f"didOpen {uri.replace(root, '')} -> server alive: {alive}" + ("" if alive else f"; stderr: {c.stderr_tail()[-160:].strip()!r}"))
            if not alive:
                bad += 1
            c.close()
    finally:
        shutil.rmtree(root, ignore_errors=True)
    print("DEFECT REPRODUCED" if bad else "not reproduced")
    return 1 if bad else 0

if __name__ == "__main__":
    sys.exit(main())
