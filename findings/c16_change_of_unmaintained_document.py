#!/usr/bin/env python3
"""C16 defect (introduced by fix 8a37619, which moved the cancellation in front of the document-store write): a didChange
for a document the server does not maintain cancelled the running diagnostics calculations and returned early without
starting them again; the open documents then kept the diagnostics of an older text.
Usage: python3 findings/c16_change_of_unmaintained_document.py"""
import os, sys, shutil, time
sys.path.insert(0, os.path.join(os.path.dirname(os.path.abspath(__file__)), "..", "tools"))
import common, lsp, p_edits, p_race, random

def main():
    lsp.build_glas()
    a = p_race.gen_module(random.Random(3), 1200, p_race.LATES[0])
    root = p_edits.setup_root({"A": a, "B": "pub fn b() { 1 }\n"})
    uri = "file://" + root + "/src/a.gleam"
    ghost = "file://" + root + "/src/ghost.gleam"
    bad = 0
    try:
        for attempt in range(4):
            c = lsp.Lsp(root, {}, verif=False)
            c.initialize()
            c.notify("textDocument/didOpen", {"textDocument": {"uri": uri, "languageId": "gleam", "version": 1, "text": a}})
            p_edits.quiesce(c)
            # a syntax error in A, and right behind it a change of a document the server does not know
            c.notify("textDocument/didChange", {"textDocument": {"uri": uri, "version": 2},
                                                  "contentChanges": [{"range": {"start": {"line": 0, "character": 0}, "end": {"line": 0, "character": 0}}, "text": "= = =\n"}]})
            c.notify("textDocument/didChange", {"textDocument": {"uri": ghost, "version": 2}, "contentChanges": [{"text": "pub fn g() { 2 }\n"}]})
            p_edits.quiesce(c, quiet=1.0)
            d = p_edits.last_diags(c, {"A": uri}).get(uri)
            print(f"attempt {attempt}: last diagnostics published for A: {str(d)[:100]}")
            if d in (None, "[]"):
                bad += 1
            c.close()
    finally:
        shutil.rmtree(root, ignore_errors=True)
    print("DEFECT REPRODUCED" if bad else "not reproduced")
    return 1 if bad else 0

if __name__ == "__main__":
    sys.exit(main())
