#!/usr/bin/env python3
"""C09 defect: inside a recursion group, a call to a function whose body is inferred LATER met an empty
placeholder instead of the declared parameters, so a call with shuffled labels followed by a positional call
paired arguments with the wrong parameters and left binders unresolved - and the outcome depended on the
definition order:
    pub fn g1() -> Int { g2(lab1: 1.5, lab0: fn(a, b) { 1 })  g2(fn(c, d) { 2 }, 2.5) }
    pub fn g2(lab0 p: fn(Float, Bool) -> Int, lab1 q: Float) -> Int { g1() }
Gleam: c: Float, d: Bool.  Uses the harness (harness/target/debug/glas-harness)."""
import os, sys
sys.path.insert(0, os.path.join(os.path.dirname(os.path.abspath(__file__)), "..", "tools"))
import common
from common import hexs, unhexs

SRC = ('pub fn g1() -> Int {\n  g2(lab1: 1.5, lab0: fn(a, b) { 1 })\n  g2(fn(c, d) { 2 }, 2.5)\n}\n'
       'pub fn g2(lab0 p: fn(Float, Bool) -> Int, lab1 q: Float) -> Int {\n  g1()\n}\n')
TOML = 'name = "p"\n'

def main():
    lines = ["ws-begin", f"file\t/w/p/src/m.gleam\t{hexs(SRC)}", "file\t/w/p/gleam.toml\t" + hexs(TOML),
             "root\t/w/p\t0,1", "pkg\tp\t1\t1\t-", "ws-end",
             f"hover\t0\t{SRC.index('fn(c, d)') + 3}", f"hover\t0\t{SRC.index('fn(c, d)') + 6}"]
    o, rc = common.run_lines(common.HARNESS_BIN, lines)
    got = [unhexs(a.split(" ", 1)[1]).split("\n")[1] if " " in a else a for a in o[-2:]]
    print("c:", got[0], "(Gleam: Float)   d:", got[1], "(Gleam: Bool)")
    bad = got != ["Float", "Bool"]
    print("DEFECT REPRODUCED" if bad else "not reproduced")
    return 1 if bad else 0

if __name__ == "__main__":
    sys.exit(main())
