#!/usr/bin/env python3
"""C15 defect (repaired by /repo commit 457c4c1): any notification the server registers no handler for and whose
method does not start with `$/` — `textDocument/willSave`, `window/workDoneProgress/cancel`,
`workspace/didChangeWorkspaceFolders`, the file-operation notifications, a misspelt method — ended the server:
async-lsp's `Router` leaves the main loop on an unhandled notification unless `unhandled_notification` is set.
Usage: python3 findings/c15_unhandled_notification.py   (uses the glas binary the checks build)"""
import os, sys, shutil, tempfile, time
HERE = os.path.dirname(os.path.abspath(__file__))
sys.path.insert(0, os.path.join(HERE, "..", "tools"))
import lsp

def main():
    lsp.build_glas()
    work = os.path.join(HERE, "..", "work")
    root = tempfile.mkdtemp(prefix="c15u-", dir=work if os.path.isdir(work) else None)
    os.makedirs(root + "/src")
    open(root + "/gleam.toml", "w").write('name = "p"\n')
    text = "pub fn main() { 1 }\n"
    open(root + "/src/a.gleam", "w").write(text)
    uri = "file://" + root + "/src/a.gleam"
    bad = 0
    try:
        for m, params in (("textDocument/willSave", {"textDocument": {"uri": uri}, "reason": 1}),
                          ("window/workDoneProgress/cancel", {"token": "x"}),
                          ("workspace/didChangeWorkspaceFolders", {"event": {"added": [], "removed": []}}),
                          ("workspace/didCreateFiles", {"files": [{"uri": uri}]}),
                          ("glas/noSuchNotification", None)):
            c = lsp.Lsp(root)
            c.initialize()
            c.notify("textDocument/didOpen", {"textDocument": {"uri": uri, "languageId": "gleam", "version": 1, "text": text}})
            c.notify(m, params)
            r = c.request("textDocument/hover", {"textDocument": {"uri": uri}, "position": {"line": 0, "character": 8}}, timeout=10)
            time.sleep(0.2)
            alive = c.alive()
            print(f"{m}: server alive: {alive}; hover afterwards answered: {r is not None}")
            if not alive or r is None:
                bad += 1
            c.close()
    finally:
        shutil.rmtree(root, ignore_errors=True)
    print("DEFECT REPRODUCED" if bad else "not reproduced")
    return 1 if bad else 0

if __name__ == "__main__":
    sys.exit(main())
