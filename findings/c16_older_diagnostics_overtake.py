#!/usr/bin/env python3
"""C16 defect: the result of an OLDER diagnostics calculation can be published after the one of a newer text
(a running blocking task cannot be aborted; nothing ordered the publish events), so after quiescence the
last diagnostics of a document are those of an older version.  The window is a thread being descheduled
between finishing the calculation and handing the result over; the hook binary (feature `verif`,
GLAS_VERIF_SCHED) widens it with seeded delays at the named yield points, nothing else differs.
Runs 48 seeded sessions (bursts of edits racing with requests) and counts the sessions whose last published
diagnostics are not those of the final text.  Usage: python3 findings/c16_older_diagnostics_overtake.py"""
import os, sys, random
sys.path.insert(0, os.path.join(os.path.dirname(os.path.abspath(__file__)), "..", "tools"))
import common, lsp, p_edits

def main():
    lsp.build_glas(verif=True); lsp.build_glas(verif=False)
    h = p_edits.handler_table()
    rng = random.Random(20260924)
    jobs = [(rng.randrange(1 << 30), 20, True, h) for _ in range(48)]
    rs = common.parallel_map(p_edits.one_session, jobs, workers=8)
    bad = [(r["seed"], f[0], f[1][:140]) for r in rs for f in r["fails"] if f[0].startswith("stale-diagnostics")]
    for b in bad[:6]:
        print(b)
    print(f"{len(bad)} of {len(jobs)} sessions end with diagnostics of an older text")
    print("DEFECT REPRODUCED" if bad else "not reproduced")
    return 1 if bad else 0

if __name__ == "__main__":
    sys.exit(main())
