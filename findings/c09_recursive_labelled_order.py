#!/usr/bin/env python3
"""C09 defect: a function that calls itself (or its recursion group) with labelled arguments in another
order was displayed, and handed to its callers, with the parameters in the order of that call:
    pub fn f(la a: Int, lb b: String) -> Int { f(lb: "s", la: 1) }      shown as  fn f(String, Int) -> Int
Uses the harness (harness/target/debug/glas-harness)."""
import os, sys
sys.path.insert(0, os.path.join(os.path.dirname(os.path.abspath(__file__)), "..", "tools"))
import common
from common import hexs, unhexs

SRC = 'pub fn f(la a: Int, lb b: String) -> Int {\n  f(lb: "s", la: 1)\n}\n'
TOML = 'name = "p"\n'

def main():
    lines = ["ws-begin", f"file\t/w/p/src/m.gleam\t{hexs(SRC)}", "file\t/w/p/gleam.toml\t" + hexs(TOML),
             "root\t/w/p\t0,1", "pkg\tp\t1\t1\t-", "ws-end", f"hover\t0\t{SRC.index('fn f') + 3}"]
    o, rc = common.run_lines(common.HARNESS_BIN, lines)
    got = unhexs(o[-1].split(" ", 1)[1]).split("\n")[1]
    print("shown:", got, "  Gleam: fn f(Int, String) -> Int")
    bad = got != "fn f(Int, String) -> Int"
    print("DEFECT REPRODUCED" if bad else "not reproduced")
    return 1 if bad else 0

if __name__ == "__main__":
    sys.exit(main())
