#!/usr/bin/env python3
"""C09 defect: in `a |> f(g)` the explicit arguments of the call were inferred but never unified with
f's parameters, so binders inside them and the result kept unresolved type variables:
    pub fn apply(v: a, f: fn(a) -> b) -> b { f(v) }
    pub fn main() { let r = 1 |> apply(fn(x) { "s" })  r }
Gleam: x: Int, r: String.  Uses the harness (harness/target/debug/glas-harness, `./check --setup` builds it)."""
import os, sys
sys.path.insert(0, os.path.join(os.path.dirname(os.path.abspath(__file__)), "..", "tools"))
import common
from common import hexs, unhexs

SRC = 'pub fn apply(v: a, f: fn(a) -> b) -> b {\n  f(v)\n}\n\npub fn main() {\n  let r = 1 |> apply(fn(x) { "s" })\n  r\n}\n'

TOML = 'name = "p"\n'

def main():
    lines = ["ws-begin", f"file\t/w/p/src/m.gleam\t{hexs(SRC)}", "file\t/w/p/gleam.toml\t" + hexs(TOML),
             "root\t/w/p\t0,1", "pkg\tp\t1\t1\t-", "ws-end",
             f"hover\t0\t{SRC.index('fn(x)') + 3}", f"hover\t0\t{SRC.index('let r') + 4}"]
    o, rc = common.run_lines(common.HARNESS_BIN, lines)
    got = [unhexs(a.split(" ", 1)[1]).replace("```gleam\n", "").replace("\n```", "") if " " in a else a for a in o[-2:]]
    print("x:", got[0], "(Gleam: Int)   r:", got[1], "(Gleam: String)")
    bad = got != ["Int", "String"]
    print("DEFECT REPRODUCED" if bad else "not reproduced")
    return 1 if bad else 0

if __name__ == "__main__":
    sys.exit(main())
