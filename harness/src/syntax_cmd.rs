//! M-syntax commands against the real lexer and parser.
use crate::util::unhex;
use syntax::lexer::GleamLexer;
use syntax::{NodeOrToken, SyntaxNode};

fn show(node: &SyntaxNode, out: &mut String) {
    out.push('(');
    out.push_str(&(node.kind() as u16).to_string());
    for c in node.children_with_tokens() {
        out.push(' ');
        match c {
            NodeOrToken::Node(n) => show(&n, out),
            NodeOrToken::Token(t) => {
                out.push_str(&format!("{}:{}", t.kind() as u16, u32::from(t.text_range().len())));
            }
        }
    }
    out.push(')');
}

pub fn parse_line(src: &str) -> String {
    let p = syntax::parse_module(src);
    let mut out = String::from("ok ");
    show(&p.syntax_node(), &mut out);
    out.push_str(" |");
    for e in p.errors() {
        out.push_str(&format!(
            " {:?}@{}-{}",
            e.kind,
            u32::from(e.range.start()),
            u32::from(e.range.end())
        ));
    }
    out
}

fn shape(node: &SyntaxNode, out: &mut String) {
    out.push('(');
    out.push_str(&format!("{:?}", node.kind()));
    for c in node.children_with_tokens() {
        match c {
            NodeOrToken::Node(n) => {
                out.push(' ');
                shape(&n, out)
            }
            NodeOrToken::Token(t) => {
                if !t.kind().is_trivia() {
                    out.push_str(" '");
                    // one answer per line: line breaks inside a token (a string over several lines) are shown as pictures
                    out.push_str(&t.text().replace('\n', "\u{2424}").replace('\r', "\u{240d}"));
                    out.push('\'');
                }
            }
        }
    }
    out.push(')');
}

/// C01 oracle evaluated on the implementation: leaf tokens reproduce the text, ranges are
/// non-empty, contiguous, start at 0 and end at the text length
fn lossless(src: &str) -> String {
    let p = syntax::parse_module(src);
    let root = p.syntax_node();
    let mut pos: u32 = 0;
    let mut text = String::new();
    // N.B. not `first_token()/next_token()`: rowan's `next_token` stops at an empty node
    for el in root.descendants_with_tokens() {
        let t = match el {
            NodeOrToken::Token(t) => t,
            NodeOrToken::Node(_) => continue,
        };
        let r = t.text_range();
        if u32::from(r.start()) != pos {
            return format!("FAIL gap-or-overlap at {}", pos);
        }
        if r.is_empty() {
            return format!("FAIL empty token at {}", pos);
        }
        pos = r.end().into();
        text.push_str(t.text());
    }
    if pos as usize != src.len() {
        return format!("FAIL tokens end at {} of {}", pos, src.len());
    }
    if text != src {
        return "FAIL text differs".into();
    }
    if u32::from(root.text_range().end()) as usize != src.len() {
        return "FAIL root range".into();
    }
    // every error range inside the text
    for e in p.errors() {
        if u32::from(e.range.end()) as usize > src.len() {
            return "FAIL error range beyond text".into();
        }
    }
    format!("ok errs={}", p.errors().len())
}

pub fn run(args: &[&str]) -> Option<String> {
    match args {
        ["shape", h] => {
            let src = unhex(h)?;
            let p = syntax::parse_module(&src);
            let mut out = String::new();
            shape(&p.syntax_node(), &mut out);
            Some(format!("errs={} {}", p.errors().len(), out))
        }
        ["lossless", h] => Some(lossless(&unhex(h)?)),
        ["defs", h] => {
            // top-level children of the file with their ranges, and the error ranges
            let src = unhex(h)?;
            let p = syntax::parse_module(&src);
            let mut v = Vec::new();
            for c in p.syntax_node().children() {
                let r = c.text_range();
                v.push(format!("{:?}:{}-{}", c.kind(), u32::from(r.start()), u32::from(r.end())));
            }
            let e: Vec<String> = p.errors().iter().map(|e| format!("{}-{}", u32::from(e.range.start()), u32::from(e.range.end()))).collect();
            Some(format!("{} | {}", v.join(";"), e.join(";")))
        }
        ["ancestors", h, off] => {
            let src = unhex(h)?;
            let off: u32 = off.parse().ok()?;
            let p = syntax::parse_module(&src);
            let root = p.syntax_node();
            let tok = match root.token_at_offset(off.into()) {
                rowan::TokenAtOffset::None => return Some("none".into()),
                rowan::TokenAtOffset::Single(t) => t,
                rowan::TokenAtOffset::Between(_, r) => r,
            };
            // `~` marks a node without a `{` token of its own among its direct children
            let ks: Vec<String> = tok
                .parent_ancestors()
                .map(|n| {
                    let own = n.children_with_tokens().any(|c| c.as_token().map(|t| t.text() == "{").unwrap_or(false));
                    format!("{:?}{}", n.kind(), if own { "" } else { "~" })
                })
                .collect();
            Some(format!("{:?} {}", tok.kind(), ks.join("/")))
        }
        ["swallowed", h, lo, hi] => {
            // the first `}` inside [lo, hi) that does not close a node of its own: its parent is an ERROR node or a node
            // without a `{` among its direct children; answer = the first non-ERROR ancestor of that token
            let src = unhex(h)?;
            let (lo, hi): (u32, u32) = (lo.parse().ok()?, hi.parse().ok()?);
            let p = syntax::parse_module(&src);
            let root = p.syntax_node();
            for el in root.descendants_with_tokens() {
                if let Some(tok) = el.as_token() {
                    let r = tok.text_range();
                    if tok.text() != "}" || u32::from(r.start()) < lo || u32::from(r.end()) > hi {
                        continue;
                    }
                    let Some(parent) = tok.parent() else { continue };
                    let own = parent.children_with_tokens().any(|c| c.as_token().map(|t| t.text() == "{").unwrap_or(false));
                    let is_error = format!("{:?}", parent.kind()) == "ERROR";
                    if is_error || !own {
                        let site = tok
                            .parent_ancestors()
                            .map(|n| format!("{:?}", n.kind()))
                            .find(|k| k != "ERROR")
                            .unwrap_or_else(|| "none".into());
                        return Some(format!("{site} {}", u32::from(r.start())));
                    }
                }
            }
            Some("none".into())
        }
        ["lex", h] => {
            let src = unhex(h)?;
            let v: Vec<String> = GleamLexer::new(&src)
                .map(|t| format!("{}:{}", t.kind as u16, u32::from(t.range.len())))
                .collect();
            Some(v.join(" "))
        }
        ["parse", h] => {
            let src = unhex(h)?;
            Some(parse_line(&src))
        }
        ["parsestat", h] => {
            let src = unhex(h)?;
            let p = syntax::parse_module(&src);
            Some(format!("ok errs={}", p.errors().len()))
        }
        _ => None,
    }
}
