pub fn unhex(s: &str) -> Option<String> {
    if s == "-" {
        return Some(String::new());
    }
    if s.len() % 2 != 0 {
        return None;
    }
    let mut bytes = Vec::with_capacity(s.len() / 2);
    let b = s.as_bytes();
    for i in (0..b.len()).step_by(2) {
        let h = (b[i] as char).to_digit(16)?;
        let l = (b[i + 1] as char).to_digit(16)?;
        bytes.push((h * 16 + l) as u8);
    }
    String::from_utf8(bytes).ok()
}

pub fn hex(s: &str) -> String {
    if s.is_empty() {
        return "-".into();
    }
    let mut o = String::with_capacity(s.len() * 2);
    for b in s.bytes() {
        o.push_str(&format!("{:02x}", b));
    }
    o
}

/// run `f`, mapping a panic to `None`
pub fn guarded<T>(f: impl FnOnce() -> T + std::panic::UnwindSafe) -> Option<T> {
    std::panic::catch_unwind(f).ok()
}
