//! glas-harness: calls the real glas code in-process behind a one-line-in, one-line-out protocol
//! (tab-separated fields, texts hex-encoded UTF-8).  Every case runs under `catch_unwind`;
//! a panic is reported as `PANIC <file:line>`.
use std::cell::RefCell;
use std::io::{BufRead, Write};
use std::panic;

mod text;
mod ide_cmd;
mod sweep;
mod project;
mod race;
mod syntax_cmd;
pub mod util;

thread_local! {
    pub static LAST_PANIC: RefCell<String> = RefCell::new(String::new());
}

fn dispatch(args: &[&str]) -> Option<String> {
    match args[0] {
        "lcall" | "rangeall" | "posall" | "endcols" | "edit" | "editlc" | "editfull" | "semtok" | "vfsids" => text::run(args),
        "lex" | "parse" | "parsestat" | "shape" | "lossless" | "defs" | "ancestors" | "swallowed" => syntax_cmd::run(args),
        "sweep" => sweep::run(args),
        "race" => race::run(args),
        "uf" => args.get(1).map(|s| ide::verif_union_find_script(s)),
        "collect" => args.get(1).map(|s| ide::verif_collect_script(s)),
        "modname" | "projparent" | "lowervfs" | "assemble" => project::run(args),
        _ => ide_cmd::run(args),
    }
}

fn main() {
    panic::set_hook(Box::new(|info| {
        let loc = info
            .location()
            .map(|l| format!("{}:{}", l.file(), l.line()))
            .unwrap_or_else(|| "?".into());
        let msg = if let Some(s) = info.payload().downcast_ref::<&str>() {
            s.to_string()
        } else if let Some(s) = info.payload().downcast_ref::<String>() {
            s.clone()
        } else {
            String::new()
        };
        let msg: String = msg.chars().take(80).map(|c| if c == '\n' || c == '\t' { ' ' } else { c }).collect();
        LAST_PANIC.with(|p| *p.borrow_mut() = format!("{loc} {msg}"));
    }));
    let stdin = std::io::stdin();
    let stdout = std::io::stdout();
    let mut out = std::io::BufWriter::new(stdout.lock());
    for line in stdin.lock().lines() {
        let line = match line {
            Ok(l) => l,
            Err(_) => break,
        };
        let args: Vec<&str> = line.split('\t').collect();
        let res = panic::catch_unwind(|| dispatch(&args));
        let s = match res {
            Ok(Some(s)) => s,
            Ok(None) => "bad-op".to_string(),
            Err(_) => format!("PANIC {}", LAST_PANIC.with(|p| p.borrow().clone())),
        };
        let _ = writeln!(out, "{}", s);
        if args[0] == "flush" {
            let _ = out.flush();
        }
    }
    let _ = out.flush();
}
