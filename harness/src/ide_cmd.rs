//! Workspace + query commands against the real `ide::AnalysisHost` (public API only).
use crate::util::{hex, unhex};
use ide::{
    AnalysisHost, Change, Dependency, FileId, FilePos, FileSet, GotoDefinitionResult, PackageGraph, PackageId,
    SourceRoot, VfsPath,
};
use std::cell::RefCell;
use std::path::PathBuf;
use text_size::{TextRange, TextSize};

#[derive(Default)]
struct Ws {
    host: Option<AnalysisHost>,
    files: Vec<(String, String)>,
    roots: Vec<(String, Vec<u32>)>,
    pkgs: Vec<(String, u32, bool, Vec<usize>)>,
}

thread_local! {
    static WS: RefCell<Ws> = RefCell::new(Ws::default());
    static IDENT_SRC: RefCell<std::collections::HashMap<u32, String>> = RefCell::new(Default::default());
}

fn rng(r: TextRange) -> String {
    format!("{}-{}", u32::from(r.start()), u32::from(r.end()))
}

/// a new host holding the current workspace (the one defined by ws-begin … ws-end and `change`)
pub fn fresh_host() -> Option<AnalysisHost> {
    WS.with(|w| {
        let mut w = w.borrow_mut();
        let keep = w.host.take();
        build(&mut w);
        let h = w.host.take();
        w.host = keep;
        h
    })
}

/// The current workspace with one more module in its first root.  Returns the change a server sends for a new file of a
/// known package (file content and source roots; the package graph is NOT set again) and a fresh host holding the grown
/// workspace in which file `file` has the text `text0`.
pub fn grow(extra_path: &str, extra_text: &str, file: u32, text0: &str) -> Option<(Change, AnalysisHost)> {
    WS.with(|w| {
        let mut w = w.borrow_mut();
        let new_id = w.files.len() as u32;
        let mut ch = Change::default();
        ch.change_file(FileId(new_id), extra_text.into());
        let mut roots = Vec::new();
        for (k, (path, files)) in w.roots.iter().enumerate() {
            let mut set = FileSet::default();
            for f in files {
                set.insert(FileId(*f), VfsPath::new(&w.files[*f as usize].0));
            }
            if k == 0 {
                set.insert(FileId(new_id), VfsPath::new(extra_path));
            }
            roots.push(SourceRoot::new(set, PathBuf::from(path)));
        }
        ch.set_roots(roots);
        let (keep_files, keep_roots, keep_host) = (w.files.clone(), w.roots.clone(), w.host.take());
        w.files.push((extra_path.to_string(), extra_text.to_string()));
        if let Some(f0) = w.files.get_mut(file as usize) {
            f0.1 = text0.to_string();
        }
        if let Some(r0) = w.roots.get_mut(0) {
            r0.1.push(new_id);
        }
        build(&mut w);
        let fresh = w.host.take();
        w.files = keep_files;
        w.roots = keep_roots;
        w.host = keep_host;
        fresh.map(|f| (ch, f))
    })
}

fn build(ws: &mut Ws) {
    let mut change = Change::default();
    for (i, (_, text)) in ws.files.iter().enumerate() {
        change.change_file(FileId(i as u32), text.as_str().into());
    }
    let mut roots = Vec::new();
    for (path, files) in &ws.roots {
        let mut set = FileSet::default();
        for f in files {
            set.insert(FileId(*f), VfsPath::new(&ws.files[*f as usize].0));
        }
        roots.push(SourceRoot::new(set, PathBuf::from(path)));
    }
    change.set_roots(roots);
    let mut graph = PackageGraph::default();
    let mut ids: Vec<PackageId> = Vec::new();
    for (name, toml, local, _) in &ws.pkgs {
        ids.push(graph.add_package(name.as_str().into(), FileId(*toml), *local));
    }
    for (i, (_, _, _, deps)) in ws.pkgs.iter().enumerate() {
        for d in deps {
            if let Some(p) = ids.get(*d) {
                graph.add_dep(ids[i], Dependency { package: *p });
            }
        }
    }
    change.set_package_graph(graph);
    let mut host = AnalysisHost::new();
    host.apply_change(change);
    ws.host = Some(host);
}

fn fpos(file: &str, off: &str) -> Option<FilePos> {
    Some(FilePos::new(FileId(file.parse().ok()?), TextSize::from(off.parse::<u32>().ok()?)))
}

/// run `f` with the texts of all files and a snapshot of the current workspace
pub fn with_analysis<T>(f: impl FnOnce(&[String], &ide::Analysis) -> T) -> Option<T> {
    WS.with(|w| {
        let w = w.borrow();
        let host = w.host.as_ref()?;
        let texts: Vec<String> = w.files.iter().map(|(_, t)| t.clone()).collect();
        let a = host.snapshot();
        Some(f(&texts, &a))
    })
}

pub fn run(args: &[&str]) -> Option<String> {
    WS.with(|w| {
        let mut w = w.borrow_mut();
        run_ws(&mut w, args)
    })
}

fn run_ws(ws: &mut Ws, args: &[&str]) -> Option<String> {
    match args {
        ["ws-begin"] => {
            *ws = Ws::default();
            Some("ok".into())
        }
        ["file", path, h] => {
            ws.files.push((path.to_string(), unhex(h)?));
            Some(format!("ok {}", ws.files.len() - 1))
        }
        ["root", path, files] => {
            let fs = if files.is_empty() || *files == "-" {
                vec![]
            } else {
                files.split(',').map(|f| f.parse().ok()).collect::<Option<Vec<u32>>>()?
            };
            ws.roots.push((path.to_string(), fs));
            Some("ok".into())
        }
        ["pkg", name, toml, local, deps] => {
            let ds = if deps.is_empty() || *deps == "-" {
                vec![]
            } else {
                deps.split(',').map(|f| f.parse().ok()).collect::<Option<Vec<usize>>>()?
            };
            ws.pkgs.push((name.to_string(), toml.parse().ok()?, *local == "1", ds));
            Some("ok".into())
        }
        ["ws-end"] => {
            IDENT_SRC.with(|m| {
                let mut m = m.borrow_mut();
                m.clear();
                for (i, (_, t)) in ws.files.iter().enumerate() {
                    m.insert(i as u32, t.clone());
                }
            });
            build(ws);
            Some("ok".into())
        }
        ["change", file, h] => {
            let f: u32 = file.parse().ok()?;
            let text = unhex(h)?;
            let mut change = Change::default();
            change.change_file(FileId(f), text.as_str().into());
            IDENT_SRC.with(|m| m.borrow_mut().insert(f, text.clone()));
            ws.files[f as usize].1 = text;
            ws.host.as_mut()?.apply_change(change);
            Some("ok".into())
        }
        ["hist-reset"] => {
            *ws = Ws::default();
            ws.host = Some(AnalysisHost::new());
            Some("ok".into())
        }
        ["hist-change", g, r, f] => {
            // one `Change` applied to the long-lived host: g = none | name:toml:local:dep+dep;…
            // r = none | path|fid=path,…;…      f = - | fid:hex,…
            let mut change = Change::default();
            if *g != "none" {
                let mut graph = PackageGraph::default();
                let mut ids: Vec<PackageId> = Vec::new();
                let specs: Vec<Vec<&str>> = if g.is_empty() { vec![] } else { g.split(';').map(|p| p.split(':').collect()).collect() };
                for p in &specs {
                    ids.push(graph.add_package(p[0].into(), FileId(p[1].parse().ok()?), p[2] == "1"));
                }
                for (i, p) in specs.iter().enumerate() {
                    if p.len() > 3 && !p[3].is_empty() {
                        for d in p[3].split('+') {
                            if let Some(j) = specs.iter().position(|q| q[0] == d) {
                                graph.add_dep(ids[i], Dependency { package: ids[j] });
                            }
                        }
                    }
                }
                change.set_package_graph(graph);
            }
            if *r != "none" {
                let mut roots = Vec::new();
                if !r.is_empty() {
                    for spec in r.split(';') {
                        let (path, files) = spec.split_once('|')?;
                        let mut set = FileSet::default();
                        if !files.is_empty() {
                            for kv in files.split(',') {
                                let (fid, fp) = kv.split_once('=')?;
                                set.insert(FileId(fid.parse().ok()?), VfsPath::new(fp));
                            }
                        }
                        roots.push(SourceRoot::new(set, PathBuf::from(path)));
                    }
                }
                change.set_roots(roots);
            }
            if *f != "-" {
                for kv in f.split(',') {
                    let (fid, h) = kv.split_once(':')?;
                    change.change_file(FileId(fid.parse().ok()?), unhex(h)?.as_str().into());
                }
            }
            ws.host.as_mut()?.apply_change(change);
            Some("ok".into())
        }
        ["inputs", n] => Some(ws.host.as_ref()?.verif_inputs(n.parse().ok()?)),
        ["rebuild"] => {
            // fresh analysis of the current workspace
            build(ws);
            Some("ok".into())
        }
        _ => {
            let host = ws.host.as_ref()?;
            let a = host.snapshot();
            query(&a, args)
        }
    }
}

pub fn query(a: &ide::Analysis, args: &[&str]) -> Option<String> {
    match args {
        ["goto", f, o] => {
            let r = a.goto_definition(fpos(f, o)?).ok()?;
            Some(match r {
                None => "none".into(),
                Some(GotoDefinitionResult::Path(p)) => format!("path {}", p.display()),
                Some(GotoDefinitionResult::Targets(ts)) => {
                    let v: Vec<String> = ts
                        .iter()
                        .map(|t| format!("{}:{}:{}", t.file_id.0, rng(t.full_range), rng(t.focus_range)))
                        .collect();
                    if v.is_empty() {
                        "targets-empty".into()
                    } else {
                        v.join(";")
                    }
                }
            })
        }
        ["refs", f, o] => {
            let r = a.references(fpos(f, o)?).ok()?;
            Some(match r {
                None => "none".into(),
                Some(v) => {
                    let v: Vec<String> = v.iter().map(|fr| format!("{}:{}", fr.file_id.0, rng(fr.range))).collect();
                    if v.is_empty() {
                        "empty".into()
                    } else {
                        v.join(";")
                    }
                }
            })
        }
        ["hl", f, o] => {
            let r = a.highlight_related(fpos(f, o)?).ok()?;
            let v: Vec<String> = r
                .iter()
                .map(|h| format!("{}:{}", rng(h.range), if h.is_definition { "def" } else { "ref" }))
                .collect();
            Some(if v.is_empty() { "empty".into() } else { v.join(";") })
        }
        ["hover", f, o] => {
            let r = a.hover(fpos(f, o)?).ok()?;
            Some(match r {
                None => "none".into(),
                Some(h) => format!("{} {}", rng(h.range), hex(&h.markup)),
            })
        }
        ["complete", f, o, trig] => {
            let t = if *trig == "-" { None } else { trig.chars().next() };
            let r = a.completions(fpos(f, o)?, t).ok()?;
            Some(match r {
                None => "none".into(),
                Some(items) => {
                    let v: Vec<String> = items
                        .iter()
                        .map(|i| format!("{}|{:?}|{}|{}", i.label, i.kind, rng(i.source_range), hex(&i.replace)))
                        .collect();
                    if v.is_empty() {
                        "empty".into()
                    } else {
                        v.join(";")
                    }
                }
            })
        }
        ["prepare", f, o] => {
            let r = a.prepare_rename(fpos(f, o)?).ok()?;
            Some(match r {
                Ok((r, name)) => format!("ok {} {}", rng(r), name),
                Err(e) => format!("err {}", e),
            })
        }
        ["rename", f, o, name] => {
            let r = a.rename(fpos(f, o)?, &unhex(name)?).ok()?;
            Some(match r {
                Ok(we) => {
                    let mut v: Vec<(u32, u32, u32, String)> = Vec::new();
                    for (file, edits) in &we.content_edits {
                        for e in edits {
                            v.push((file.0, e.delete.start().into(), e.delete.end().into(), e.insert.to_string()));
                        }
                    }
                    v.sort();
                    let s: Vec<String> = v.iter().map(|(f, s, e, i)| format!("{f}:{s}-{e}:{}", hex(i))).collect();
                    format!("ok {}", if s.is_empty() { "-".to_string() } else { s.join(";") })
                }
                Err(e) => format!("err {}", e),
            })
        }
        ["diag", f] => {
            let r = a.diagnostics(FileId(f.parse().ok()?)).ok()?;
            let v: Vec<String> = r
                .iter()
                .map(|d| {
                    let notes: Vec<String> = d.notes.iter().map(|(fr, _)| format!("{}:{}", fr.file_id.0, rng(fr.range))).collect();
                    format!("{}:{:?}:{}", rng(d.range), d.kind, notes.join(","))
                })
                .collect();
            Some(if v.is_empty() { "empty".into() } else { v.join(";") })
        }
        ["sem", f] => {
            let r = a.syntax_highlight(FileId(f.parse().ok()?), None).ok()?;
            let v: Vec<String> = r.iter().map(|h| format!("{}:{:?}", rng(h.range), h.tag)).collect();
            Some(if v.is_empty() { "empty".into() } else { v.join(";") })
        }
        ["semrange", f, s, e] => {
            let range = TextRange::new(TextSize::from(s.parse::<u32>().ok()?), TextSize::from(e.parse::<u32>().ok()?));
            let r = a.syntax_highlight(FileId(f.parse().ok()?), Some(range)).ok()?;
            let v: Vec<String> = r.iter().map(|h| format!("{}:{:?}", rng(h.range), h.tag)).collect();
            Some(if v.is_empty() { "empty".into() } else { v.join(";") })
        }
        ["sig", f, o] => {
            let r = a.signature_help(fpos(f, o)?).ok()?;
            Some(match r {
                None => "none".into(),
                Some(s) => format!("{:?} {}", s.active_parameter, hex(&s.signature)),
            })
        }
        ["idents", f] => {
            // every identifier-like token: range, kind, parent kind, text
            let file = FileId(f.parse().ok()?);
            let text = IDENT_SRC.with(|m| m.borrow().get(&file.0).cloned())?;
            let parse = syntax::parse_module(&text);
            let mut v = Vec::new();
            for el in parse.syntax_node().descendants_with_tokens() {
                if let syntax::NodeOrToken::Token(t) = el {
                    let k = format!("{:?}", t.kind());
                    if k == "IDENT" || k == "U_IDENT" || k == "DISCARD_IDENT" {
                        let pk = t.parent().map(|p| format!("{:?}", p.kind())).unwrap_or_default();
                        let gk = t.parent().and_then(|p| p.parent()).map(|p| format!("{:?}", p.kind())).unwrap_or_default();
                        v.push(format!("{}:{}:{}:{}:{}", rng(t.text_range()), k, pk, gk, t.text()));
                    }
                }
            }
            Some(if v.is_empty() { "empty".into() } else { v.join(";") })
        }
        ["tree", f] => {
            let r = a.syntax_tree(FileId(f.parse().ok()?)).ok()?;
            Some(format!("len={}", r.len()))
        }
        _ => None,
    }
}
