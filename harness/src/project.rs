//! M-project commands: `module_name`, `find_gleam_project_parent`, `lower_vfs`, `assemble_graph`
//! (through `glas::verif_api`); the filesystem tree is created by the caller under a scratch dir.
use glas::verif_api as api;
use std::path::{Path, PathBuf};

pub fn run(args: &[&str]) -> Option<String> {
    match args {
        ["modname", root, path] => {
            let r = PathBuf::from(root);
            Some(match ide::module_name(&r, Path::new(path)) {
                Some(n) => format!("some {}", n),
                None => "none".into(),
            })
        }
        ["projparent", _tomls, path] => Some(match api::find_gleam_project_parent(Path::new(path)) {
            Some(p) => p.display().to_string(),
            None => "none".into(),
        }),
        ["lowervfs", roots, files] => {
            let mut vfs = api::Vfs::new();
            for f in files.split(',') {
                vfs.set_path_content(api::vfs_path(f), String::new());
            }
            let roots: Vec<PathBuf> = roots.split(',').map(PathBuf::from).collect();
            let srs = api::lower_vfs(&mut vfs, &roots);
            let mut groups: Vec<String> = srs
                .iter()
                .map(|sr| {
                    let mut fs: Vec<String> = sr.files().map(|(_, p)| p.display().to_string()).collect();
                    fs.sort();
                    fs.join("+")
                })
                .collect();
            groups.sort();
            Some(groups.join(" "))
        }
        ["assemble", root] => {
            let mut vfs = api::Vfs::new();
            let (id, graph, roots) = api::assemble_graph(&mut vfs, Path::new(root), true);
            let mut pk: Vec<String> = graph
                .iter()
                .map(|p| {
                    let info = &graph[p];
                    let mut deps: Vec<String> = info.dependencies.iter().map(|d| graph[d.package].display_name.to_string()).collect();
                    deps.sort();
                    format!("{}:{}:[{}]", info.display_name, if info.is_local { "local" } else { "external" }, deps.join(","))
                })
                .collect();
            pk.sort();
            let mut rs: Vec<String> = roots.iter().map(|r| r.display().to_string()).collect();
            rs.sort();
            Some(format!("{} {} | {}", if id.is_some() { "ok" } else { "err" }, pk.join(" "), rs.join(",")))
        }
        _ => None,
    }
}
