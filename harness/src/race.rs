//! C12: one writer applying changes while reader threads run queries on snapshots taken at known
//! versions.  Seeded scheduling (yields / short sleeps at snapshot, query and apply boundaries).
//! Output: the globally ordered event log.
//!   S:r:v       snapshot for reader r taken at version v (logged by the writer thread)
//!   Q:r:i       reader r starts query i
//!   A:r:i:ok | A:r:i:cancel | A:r:i:panic | A:r:i:wrong=<version whose answer it is, or ?>
//!   D:r         reader r drops its snapshot (logged before the drop)
//!   B:v         apply_change towards version v begins
//!   E:v:micros  apply_change returned
//!   F:v:ok|wrong|cancel   after quiescence: fresh snapshot answers compared with version v's
//!   T:micros    uncancelled duration of the query batch on a cold database
use crate::ide_cmd;
use crate::util::unhex;
use ide::{Change, FileId};
use std::sync::{Arc, Mutex};
use std::time::{Duration, Instant};

struct Rng(u64);
impl Rng {
    fn next(&mut self) -> u64 {
        self.0 ^= self.0 << 13;
        self.0 ^= self.0 >> 7;
        self.0 ^= self.0 << 17;
        self.0
    }
    fn below(&mut self, n: u64) -> u64 {
        self.next() % n
    }
    fn pause(&mut self, scale: u64) {
        match self.below(4) {
            0 => {}
            1 => std::thread::yield_now(),
            _ => std::thread::sleep(Duration::from_micros(self.below(scale.max(1)))),
        }
    }
}

/// the order of list-valued answers (references, highlights, completions) depends on hash order,
/// which is not what this property is about
fn canon(s: String) -> String {
    let mut v: Vec<&str> = s.split(';').collect();
    v.sort();
    v.join(";")
}

fn answers(a: &ide::Analysis, queries: &[Vec<String>]) -> Vec<Option<String>> {
    queries
        .iter()
        .map(|q| {
            let args: Vec<&str> = q.iter().map(|s| s.as_str()).collect();
            ide_cmd::query(a, &args).map(canon)
        })
        .collect()
}

/// race <seed> <max_readers> <file> <queries> <pause_scale_us> <hex v1> <hex v2> ...
pub fn run(args: &[&str]) -> Option<String> {
    let seed: u64 = args.get(1)?.parse().ok()?;
    let max_readers: usize = args.get(2)?.parse().ok()?;
    let file: u32 = args.get(3)?.parse().ok()?;
    let queries: Vec<Vec<String>> = args.get(4)?.split(';').map(|q| q.split(',').map(|s| s.to_string()).collect()).collect();
    let scale: u64 = args.get(5)?.parse().ok()?;
    let variants: Vec<String> = args[6..].iter().map(|h| unhex(h)).collect::<Option<Vec<_>>>()?;
    let nver = variants.len() + 1;

    // sequential reference: same history, no concurrency
    let mut expected: Vec<Vec<Option<String>>> = Vec::new();
    let mut cold = 0u128;
    let mut ref_host = ide_cmd::fresh_host()?;
    {
        let t0 = Instant::now();
        expected.push(answers(&ref_host.snapshot(), &queries));
        cold = cold.max(t0.elapsed().as_micros());
        for v in &variants {
            let mut ch = Change::default();
            ch.change_file(FileId(file), v.as_str().into());
            ref_host.apply_change(ch);
            expected.push(answers(&ref_host.snapshot(), &queries));
        }
    }
    // the final rounds (one per pool thread) alternate between the last text with and without a trailing comment
    let last_text = variants.last().cloned().unwrap_or_default();
    let tail_texts = [format!("{last_text}\n// tail\n"), last_text.clone()];
    let mut tail_expected: Vec<Vec<Option<String>>> = Vec::new();
    for t in &tail_texts {
        let mut ch = Change::default();
        ch.change_file(FileId(file), t.as_str().into());
        ref_host.apply_change(ch);
        tail_expected.push(answers(&ref_host.snapshot(), &queries));
    }
    let tail_expected = Arc::new(tail_expected);

    let log: Arc<Mutex<Vec<String>>> = Arc::new(Mutex::new(Vec::new()));
    let expected = Arc::new(expected);
    let queries = Arc::new(queries);
    let mut host = ide_cmd::fresh_host()?;
    let mut rng = Rng(seed.wrapping_mul(0x9E3779B97F4A7C15) | 1);
    // a pool of long-lived reader threads, as the server's blocking pool: what a cancelled query leaves
    // behind on its thread (thread-locals, poisoned state) is met by the next snapshot served there
    enum Job {
        Read { r: usize, v: usize, snap: ide::Analysis, trng: u64 },
        Final { v: usize, snap: ide::Analysis, done: std::sync::mpsc::Sender<String> },
    }
    let alive = Arc::new(std::sync::atomic::AtomicUsize::new(0));
    let mut handles: Vec<std::thread::JoinHandle<()>> = Vec::new();
    let mut txs: Vec<std::sync::mpsc::Sender<Job>> = Vec::new();
    let busy: Arc<Vec<std::sync::atomic::AtomicBool>> = Arc::new((0..max_readers).map(|_| std::sync::atomic::AtomicBool::new(false)).collect());
    for w in 0..max_readers {
        let (tx, rx) = std::sync::mpsc::channel::<Job>();
        txs.push(tx);
        let (log2, exp2, q2, alive2) = (log.clone(), expected.clone(), queries.clone(), alive.clone());
        let tail2 = tail_expected.clone();
        let busy2 = busy.clone();
        handles.push(std::thread::spawn(move || loop {
            let job = rx.recv();
            match job {
                Err(_) => break,
                Ok(Job::Final { v, snap, done }) => {
                    let res = std::panic::catch_unwind(std::panic::AssertUnwindSafe(|| answers(&snap, &q2)));
                    let f = match res {
                        Err(_) => "panic",
                        Ok(fin) => {
                            if fin.iter().any(|a| a.is_none()) { "cancel" } else if fin == tail2[v] { "ok" } else { "wrong" }
                        }
                    };
                    drop(snap);
                    let _ = done.send(f.to_string());
                }
                Ok(Job::Read { r, v, snap, trng }) => {
                    let mut trng = Rng(trng | 1);
                    // readers start at a seeded query so different readers are busy in different places
                    let start = trng.below(q2.len() as u64) as usize;
                    for k in 0..q2.len() {
                        let i = (start + k) % q2.len();
                        trng.pause(scale);
                        log2.lock().unwrap().push(format!("Q:{r}:{i}"));
                        let args: Vec<&str> = q2[i].iter().map(|s| s.as_str()).collect();
                        let res = std::panic::catch_unwind(std::panic::AssertUnwindSafe(|| ide_cmd::query(&snap, &args).map(canon)));
                        let ev = match res {
                            Err(_) => "panic".to_string(),
                            Ok(None) => "cancel".to_string(),
                            Ok(Some(ans)) => {
                                if exp2[v][i].as_deref() == Some(ans.as_str()) {
                                    "ok".to_string()
                                } else {
                                    match (0..exp2.len()).find(|w| exp2[*w][i].as_deref() == Some(ans.as_str())) {
                                        Some(w) => format!("wrong={w}"),
                                        None => "wrong=?".to_string(),
                                    }
                                }
                            }
                        };
                        let stop = ev == "cancel" || ev == "panic";
                        log2.lock().unwrap().push(format!("A:{r}:{i}:{ev}"));
                        if stop {
                            break;
                        }
                    }
                    log2.lock().unwrap().push(format!("D:{r}"));
                    drop(snap);
                    busy2[w].store(false, std::sync::atomic::Ordering::SeqCst);
                    alive2.fetch_sub(1, std::sync::atomic::Ordering::SeqCst);
                }
            }
        }));
    }
    let mut version = 0usize;
    let mut next_reader = 0usize;
    // schedule: between consecutive applies, hand a seeded number of snapshots to the pool
    while version < nver {
        let spawn_n = 1 + rng.below(max_readers as u64) as usize;
        for _ in 0..spawn_n {
            while alive.load(std::sync::atomic::Ordering::SeqCst) >= max_readers {
                std::thread::yield_now();
            }
            let r = next_reader;
            next_reader += 1;
            let snap = host.snapshot();
            log.lock().unwrap().push(format!("S:{r}:{version}"));
            alive.fetch_add(1, std::sync::atomic::Ordering::SeqCst);
            // an idle pool thread (there is one: alive < max_readers)
            let w = loop {
                let k = rng.below(max_readers as u64) as usize;
                if let Some(w) = (0..max_readers).map(|d| (k + d) % max_readers).find(|w| !busy[*w].load(std::sync::atomic::Ordering::SeqCst)) {
                    break w;
                }
                std::thread::yield_now();
            };
            busy[w].store(true, std::sync::atomic::Ordering::SeqCst);
            let _ = txs[w].send(Job::Read { r, v: version, snap, trng: rng.next() });
            rng.pause(scale);
        }
        if version + 1 < nver {
            rng.pause(scale * 4);
            let mut ch = Change::default();
            ch.change_file(FileId(file), variants[version].as_str().into());
            log.lock().unwrap().push(format!("B:{}", version + 1));
            let t0 = Instant::now();
            host.apply_change(ch);
            let us = t0.elapsed().as_micros();
            log.lock().unwrap().push(format!("E:{}:{}", version + 1, us));
        }
        version += 1;
    }
    while alive.load(std::sync::atomic::Ordering::SeqCst) > 0 {
        std::thread::yield_now();
    }
    // after quiescence: one further revision per pool thread, in which THAT thread is the first to analyse the
    // workspace (whatever an earlier cancelled query left on it is met here), and it must see that revision
    let last = nver - 1;
    let mut finals: Vec<String> = Vec::new();
    for w in 0..max_readers {
        let k = w % 2;
        let mut ch = Change::default();
        ch.change_file(FileId(file), tail_texts[k].as_str().into());
        host.apply_change(ch);
        let (dtx, drx) = std::sync::mpsc::channel();
        let _ = txs[w].send(Job::Final { v: k, snap: host.snapshot(), done: dtx });
        finals.push(drx.recv_timeout(Duration::from_secs(120)).unwrap_or_else(|_| "timeout".into()));
    }
    let final_k = (max_readers + 1) % 2; // = (max_readers - 1) % 2: the text of the last round
    drop(txs);
    let mut panicked = false;
    for h in handles {
        panicked |= h.join().is_err();
    }
    let fin = answers(&host.snapshot(), &queries);
    finals.push(if fin.iter().any(|a| a.is_none()) { "cancel".into() } else if fin == tail_expected[final_k] { "ok".into() } else { "wrong".into() });
    let f = finals.iter().find(|x| *x != "ok").cloned().unwrap_or_else(|| "ok".to_string());
    // a module is added to the package the way a server does it for a new file of a known package (file content and source
    // roots; the package graph is not set again): a snapshot taken afterwards sees the grown workspace - the uses of `early`
    // and `uses` in the new module included - like a host that is given the grown workspace in one go
    let mut grown = "ok".to_string();
    if let Some((ch, fresh)) = ide_cmd::grow(
        "/w/p/src/zz_added.gleam",
        "import m0\n\npub fn extra() {\n  let v = m0.early()\n  m0.uses()\n  v\n}\n",
        file,
        &tail_texts[final_k],
    ) {
        host.apply_change(ch);
        let got = answers(&host.snapshot(), &queries);
        let want = answers(&fresh.snapshot(), &queries);
        if got.iter().any(|a| a.is_none()) {
            grown = "cancel".into();
        } else if got != want {
            grown = "wrong".into();
        }
    }
    let mut out = log.lock().unwrap().clone();
    out.push(format!("F:{last}:{f}"));
    out.push(format!("G:{grown}"));
    out.push(format!("T:{cold}"));
    if panicked {
        out.push("P".into());
    }
    Some(out.join(";"))
}
