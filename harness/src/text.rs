//! M-text commands against the real `LineMap` / `Vfs` / `convert` (through `glas::verif_api`).
use crate::util::{guarded, hex, unhex};
use glas::verif_api as api;
use ide::{HlRange, HlTag};
use std::panic::AssertUnwindSafe;
use text_size::{TextRange, TextSize};

fn tag(i: u32) -> HlTag {
    // index = position in SEMANTIC_TOKEN_TYPES (Module, Function, Constructor)
    match i {
        0 => HlTag::Module,
        1 => HlTag::Function,
        _ => HlTag::Constructor,
    }
}

pub fn run(args: &[&str]) -> Option<String> {
    match args {
        ["lcall", h] => {
            let (s, m) = api::normalize(unhex(h)?);
            let mut out = hex(&s);
            for p in 0..(s.len() as u32 + 2) {
                out.push(' ');
                match guarded(AssertUnwindSafe(|| m.line_col_for_pos(TextSize::from(p)))) {
                    Some((l, c)) => out.push_str(&format!("{l}:{c}")),
                    None => out.push('!'),
                }
            }
            Some(out)
        }
        ["rangeall", h] => {
            // convert::to_range for every ordered pair of character boundaries
            let (s, m) = api::normalize(unhex(h)?);
            let bs: Vec<u32> = (0..=s.len()).filter(|i| s.is_char_boundary(*i)).map(|i| i as u32).collect();
            let mut v = Vec::new();
            for (i, a) in bs.iter().enumerate() {
                for b in &bs[i..] {
                    v.push(match guarded(AssertUnwindSafe(|| api::to_range(&m, *a, *b))) {
                        Some((l1, c1, l2, c2)) => format!("{l1}:{c1}-{l2}:{c2}"),
                        None => "!".into(),
                    });
                }
            }
            Some(v.join(" "))
        }
        ["posall", h, ml, mc] => {
            let (_, m) = api::normalize(unhex(h)?);
            let (ml, mc): (u32, u32) = (ml.parse().ok()?, mc.parse().ok()?);
            let mut v = Vec::new();
            for l in 0..=ml {
                for c in 0..=mc {
                    v.push(match guarded(AssertUnwindSafe(|| api::from_pos(&m, l, c))) {
                        Some(Some(p)) => p.to_string(),
                        Some(None) => "e".into(),
                        None => "!".into(),
                    });
                }
            }
            Some(v.join(" "))
        }
        ["endcols", h, ml] => {
            let (_, m) = api::normalize(unhex(h)?);
            let ml: u32 = ml.parse().ok()?;
            let mut v = vec![m.last_line().to_string()];
            for l in 0..=ml {
                v.push(match guarded(AssertUnwindSafe(|| m.end_col_for_line(l))) {
                    Some(p) => p.to_string(),
                    None => "!".into(),
                });
            }
            Some(v.join(" "))
        }
        ["vfsids", script] => {
            // a history of `s<p>` (set_path_content of path number p, content `c<k>` for the k-th operation) and `r<p>`
            // (remove) on one Vfs: the id each operation returns, then the table path -> (id, content) of the loaded files
            let mut vfs = api::Vfs::new();
            let mut out = Vec::new();
            for (k, op) in script.split(',').filter(|s| !s.is_empty()).enumerate() {
                let (kind, p) = op.split_at(1);
                let p: u32 = p.parse().ok()?;
                let path = format!("/w/f{p}.gleam");
                match kind {
                    "s" => out.push(vfs.set_path_content(api::vfs_path(&path), format!("c{k}")).0.to_string()),
                    "r" => out.push(if api::remove_path(&mut vfs, &path) { "ok".into() } else { "no".into() }),
                    _ => return None,
                }
            }
            let mut table = Vec::new();
            for p in 0..16u32 {
                let path = format!("/w/f{p}.gleam");
                if let Some(id) = api::file_id_for_path(&vfs, &path) {
                    table.push(format!("{p}:{id}:{}", vfs.content_for_file(ide::FileId(id))));
                }
            }
            Some(format!("{} # {}", out.join(","), table.join(",")))
        }
        ["edit", h, a, b, c, d, ins] => {
            let text = unhex(h)?;
            let ins = unhex(ins)?;
            let (a, b, c, d): (u32, u32, u32, u32) =
                (a.parse().ok()?, b.parse().ok()?, c.parse().ok()?, d.parse().ok()?);
            let r = guarded(AssertUnwindSafe(|| {
                let mut vfs = api::Vfs::new();
                let file = vfs.set_path_content(api::vfs_path("/doc.gleam"), text);
                // the closure of `Server::on_did_change`
                let del = match api::from_range(&vfs, file, a, b, c, d) {
                    Some((s, e)) => TextRange::new(TextSize::from(s), TextSize::from(e)),
                    None => return None,
                };
                vfs.change_file_content(file, Some(del), &ins).ok()?;
                Some(vfs.content_for_file(file).to_string())
            }));
            Some(match r {
                Some(Some(t)) => format!("ok {}", hex(&t)),
                Some(None) => "err".into(),
                None => "PANIC".into(),
            })
        }
        ["editlc", h, a, b, c, d, ins] => {
            // as `edit`, then the positions the server's KEPT line table gives for every offset of the new text
            let text = unhex(h)?;
            let ins = unhex(ins)?;
            let (a, b, c, d): (u32, u32, u32, u32) =
                (a.parse().ok()?, b.parse().ok()?, c.parse().ok()?, d.parse().ok()?);
            let r = guarded(AssertUnwindSafe(|| {
                let mut vfs = api::Vfs::new();
                let file = vfs.set_path_content(api::vfs_path("/doc.gleam"), text);
                let del = match api::from_range(&vfs, file, a, b, c, d) {
                    Some((s, e)) => TextRange::new(TextSize::from(s), TextSize::from(e)),
                    None => return None,
                };
                vfs.change_file_content(file, Some(del), &ins).ok()?;
                let t = vfs.content_for_file(file).to_string();
                let m = vfs.line_map_for_file(file);
                let mut out = hex(&t);
                for p in 0..(t.len() as u32 + 2) {
                    out.push(' ');
                    match guarded(AssertUnwindSafe(|| m.line_col_for_pos(TextSize::from(p)))) {
                        Some((l, c)) => out.push_str(&format!("{l}:{c}")),
                        None => out.push('!'),
                    }
                }
                Some(out)
            }));
            Some(match r {
                Some(Some(t)) => format!("ok {t}"),
                Some(None) => "err".into(),
                None => "PANIC".into(),
            })
        }
        ["editfull", h, ins] => {
            let text = unhex(h)?;
            let ins = unhex(ins)?;
            let r = guarded(AssertUnwindSafe(|| {
                let mut vfs = api::Vfs::new();
                let file = vfs.set_path_content(api::vfs_path("/doc.gleam"), text);
                vfs.change_file_content(file, None, &ins).ok()?;
                Some(vfs.content_for_file(file).to_string())
            }));
            Some(match r {
                Some(Some(t)) => format!("ok {}", hex(&t)),
                Some(None) => "err".into(),
                None => "PANIC".into(),
            })
        }
        ["semtok", h, hls] => {
            let (_, m) = api::normalize(unhex(h)?);
            let mut v = Vec::new();
            if *hls != "-" {
                for part in hls.split(',') {
                    let f: Vec<&str> = part.split(':').collect();
                    if f.len() != 3 {
                        return None;
                    }
                    let (s, e, t): (u32, u32, u32) =
                        (f[0].parse().ok()?, f[1].parse().ok()?, f[2].parse().ok()?);
                    if s > e {
                        return None;
                    }
                    v.push(HlRange {
                        range: TextRange::new(TextSize::from(s), TextSize::from(e)),
                        tag: tag(t),
                    });
                }
            }
            Some(
                match guarded(AssertUnwindSafe(|| api::to_semantic_tokens(&m, &v))) {
                    None => "PANIC".into(),
                    Some(ts) if ts.is_empty() => "-".into(),
                    Some(ts) => {
                        // the type index is decoded with the server's own legend (its order is the server's
                        // choice) into the request's numbering: namespace 0, function 1, type 2
                        let legend = api::semantic_token_type_names();
                        let canon = |i: u32| -> String {
                            match legend.get(i as usize).map(|s| s.as_str()) {
                                Some("namespace") => "0".into(),
                                Some("function") => "1".into(),
                                Some("type") => "2".into(),
                                Some(other) => format!("?{other}"),
                                None => format!("?{i}"),
                            }
                        };
                        ts.iter()
                            .map(|t| format!("{}:{}:{}:{}", t.0, t.1, t.2, canon(t.3)))
                            .collect::<Vec<_>>()
                            .join(",")
                    }
                },
            )
        }
        _ => None,
    }
}
