//! `sweep <file>`: every query at every token boundary of a file, each under catch_unwind.
//! Reports panics (C10) and validates every reported range (C20) against the files' own trees.
use crate::ide_cmd::with_analysis;
use ide::{FileId, FilePos, GotoDefinitionResult};
use std::collections::{BTreeMap, HashSet};
use std::panic::{catch_unwind, AssertUnwindSafe};
use text_size::{TextRange, TextSize};

struct FileInfo {
    text: String,
    node_ranges: std::collections::HashMap<(u32, u32), String>,
    root: syntax::SyntaxNode,
    token_ranges: HashSet<(u32, u32)>,
}

fn info(text: &str) -> FileInfo {
    let p = syntax::parse_module(text);
    let mut node_ranges = std::collections::HashMap::new();
    let mut token_ranges = HashSet::new();
    for el in p.syntax_node().descendants_with_tokens() {
        let r = el.text_range();
        match el {
            syntax::NodeOrToken::Node(n) => {
                node_ranges.entry((r.start().into(), r.end().into())).or_insert(format!("{:?}", n.kind()));
            }
            syntax::NodeOrToken::Token(_) => {
                token_ranges.insert((r.start().into(), r.end().into()));
            }
        }
    }
    FileInfo { text: text.to_string(), node_ranges, token_ranges, root: p.syntax_node() }
}

pub struct Checker {
    files: Vec<Option<FileInfo>>,
    pub bad: BTreeMap<String, usize>,
    pub first_bad: Vec<String>,
    pub n_ranges: usize,
}

impl Checker {
    /// `name_like`: the range must cover exactly one token
    pub fn check(&mut self, what: &str, file: u32, r: TextRange, name_like: bool) {
        self.n_ranges += 1;
        let (s, e): (u32, u32) = (r.start().into(), r.end().into());
        let fi = match self.files.get(file as usize).and_then(|f| f.as_ref()) {
            Some(f) => f,
            None => return self.fail(what, "no-such-file", file, s, e),
        };
        let len = fi.text.len() as u32;
        if e > len || s > e {
            return self.fail(what, "out-of-bounds", file, s, e);
        }
        if !fi.text.is_char_boundary(s as usize) || !fi.text.is_char_boundary(e as usize) {
            return self.fail(what, "not-char-boundary", file, s, e);
        }
        if name_like {
            // documented empty range: a module as a navigation target is the position 0 of its file
            if what == "definition-focus" && s == 0 && e == 0 {
                return;
            }
            if !fi.token_ranges.contains(&(s, e)) {
                let k = match fi.node_ranges.get(&(s, e)) {
                    Some(kind) => format!("node-{kind}"),
                    None => {
                        let cover = fi.root.covering_element(TextRange::new(s.into(), e.into()));
                        format!("part-of-{:?}", cover.kind())
                    }
                };
                return self.fail(what, &k, file, s, e);
            }
        } else if s != e && !fi.node_ranges.contains_key(&(s, e)) && !fi.token_ranges.contains(&(s, e)) {
            return self.fail(what, "not-a-node", file, s, e);
        }
    }
    pub fn fail(&mut self, what: &str, kind: &str, file: u32, s: u32, e: u32) {
        let key = format!("{what}/{kind}");
        *self.bad.entry(key.clone()).or_insert(0) += 1;
        if self.first_bad.len() < 6 && !self.first_bad.iter().any(|x| x.starts_with(&key)) {
            self.first_bad.push(format!("{key}@{file}:{s}-{e}"));
        }
    }
}

pub fn sweep(texts: &[String], file: u32, a: &ide::Analysis) -> String {
    let mut ck = Checker {
        files: texts.iter().map(|t| if t.is_empty() && false { None } else { Some(info(t)) }).collect(),
        bad: BTreeMap::new(),
        first_bad: Vec::new(),
        n_ranges: 0,
    };
    let text = &texts[file as usize];
    let mut offsets: Vec<u32> = vec![0, text.len() as u32];
    if let Some(fi) = ck.files[file as usize].as_ref() {
        for (s, e) in &fi.token_ranges {
            offsets.push(*s);
            offsets.push(*e);
        }
    }
    offsets.sort();
    offsets.dedup();
    let mut panics: BTreeMap<String, (usize, String)> = BTreeMap::new();
    let mut n_queries = 0usize;
    let fid = FileId(file);
    macro_rules! guarded {
        ($name:expr, $off:expr, $body:expr) => {{
            n_queries += 1;
            match catch_unwind(AssertUnwindSafe(|| $body)) {
                Ok(v) => Some(v),
                Err(_) => {
                    let loc = crate::LAST_PANIC.with(|p| p.borrow().clone());
                    let e = panics.entry(format!("{} {}", $name, loc)).or_insert((0, format!("{}", $off)));
                    e.0 += 1;
                    None
                }
            }
        }};
    }
    // whole-file queries
    if let Some(Ok(ds)) = guarded!("diagnostics", 0, a.diagnostics(fid)) {
        for d in ds {
            ck.check("diagnostic", file, d.range, false);
            for (fr, _) in &d.notes {
                ck.check("diagnostic-note", fr.file_id.0, fr.range, false);
            }
        }
    }
    if let Some(Ok(hs)) = guarded!("semantic", 0, a.syntax_highlight(fid, None)) {
        for h in hs {
            ck.check("semantic-highlight", file, h.range, true);
        }
    }
    // range-limited highlights: range edges on token boundaries and strictly inside tokens
    {
        let mut cuts: Vec<u32> = offsets.clone();
        if let Some(fi) = ck.files[file as usize].as_ref() {
            for (s, e) in &fi.token_ranges {
                if e - s >= 2 {
                    let mut m = s + 1;
                    while m < *e && !text.is_char_boundary(m as usize) {
                        m += 1;
                    }
                    if m < *e {
                        cuts.push(m);
                    }
                }
            }
        }
        cuts.sort();
        cuts.dedup();
        let n = cuts.len();
        let len = text.len() as u32;
        let mut ranges: Vec<(u32, u32)> = Vec::new();
        for i in 0..n {
            for k in 1..=3 {
                if i + k < n {
                    ranges.push((cuts[i], cuts[i + k]));
                }
            }
            if i % 4 == 0 {
                ranges.push((0, cuts[i]));
                ranges.push((cuts[i], len));
            }
        }
        for (s, e) in ranges {
            let r = TextRange::new(TextSize::from(s), TextSize::from(e));
            if let Some(Ok(hs)) = guarded!("semantic-range", s, a.syntax_highlight(fid, Some(r))) {
                for h in hs {
                    ck.check("semantic-highlight-range", file, h.range, true);
                }
            }
        }
    }
    let _ = guarded!("syntax_tree", 0, a.syntax_tree(fid));
    for &o in &offsets {
        let pos = FilePos::new(fid, TextSize::from(o));
        if let Some(Ok(Some(h))) = guarded!("hover", o, a.hover(pos)) {
            ck.check("hover", file, h.range, false);
        }
        if let Some(Ok(Some(GotoDefinitionResult::Targets(ts)))) = guarded!("goto", o, a.goto_definition(pos)) {
            for t in ts {
                ck.check("definition-full", t.file_id.0, t.full_range, false);
                ck.check("definition-focus", t.file_id.0, t.focus_range, true);
                if !t.full_range.contains_range(t.focus_range) {
                    ck.fail("definition-focus", "outside-full", t.file_id.0, t.focus_range.start().into(), t.focus_range.end().into());
                }
            }
        }
        if let Some(Ok(Some(rs))) = guarded!("references", o, a.references(pos)) {
            for r in rs {
                ck.check("reference", r.file_id.0, r.range, true);
            }
        }
        if let Some(Ok(hs)) = guarded!("highlight", o, a.highlight_related(pos)) {
            for h in hs {
                ck.check("highlight", file, h.range, true);
            }
        }
        for trig in [None, Some('.'), Some('@')] {
            if let Some(Ok(Some(items))) = guarded!("completion", o, a.completions(pos, trig)) {
                for it in items {
                    ck.check("completion-range", file, it.source_range, false);
                }
            }
        }
        let _ = guarded!("signature_help", o, a.signature_help(pos));
        if let Some(Ok(Ok((r, _)))) = guarded!("prepare_rename", o, a.prepare_rename(pos)) {
            ck.check("prepare-rename", file, r, true);
        }
        for name in ["zq9", "Zq9"] {
            if let Some(Ok(Ok(we))) = guarded!("rename", o, a.rename(pos, name)) {
                for (f, edits) in &we.content_edits {
                    for e in edits {
                        ck.check("rename-edit", f.0, e.delete, true);
                    }
                }
            }
        }
    }
    let mut out = format!("queries={} offsets={} ranges={} panics={}", n_queries, offsets.len(), ck.n_ranges, panics.values().map(|v| v.0).sum::<usize>());
    for (k, (n, off)) in panics.iter().take(8) {
        out.push_str(&format!(" | PANIC[{}x first@{}] {}", n, off, k));
    }
    for (k, n) in ck.bad.iter() {
        out.push_str(&format!(" | BAD[{}x] {}", n, k));
    }
    for b in &ck.first_bad {
        out.push_str(&format!(" | FIRST {}", b));
    }
    out
}

pub fn run(args: &[&str]) -> Option<String> {
    match args {
        ["sweep", f] => {
            let file: u32 = f.parse().ok()?;
            with_analysis(|texts, a| sweep(texts, file, a))
        }
        _ => None,
    }
}
