#!/bin/bash
# usage: lane.sh <n> <patch.diff|none> <prop>...  : run quick checks of a /verif copy against a patched /repo copy
n=$1; patch=$2; shift 2
L=/root/lanes/$n
mkdir -p $L
rsync -a --delete --exclude work --exclude replays /verif/ $L/verif/ 
if [ ! -d $L/repo ]; then git clone -q /repo $L/repo; fi
cd $L/repo && git fetch -q origin && git checkout -q --detach origin/main 2>/dev/null || git checkout -q --detach FETCH_HEAD; git checkout -q -- . ; git clean -fdq
[ "$patch" != none ] && { git apply $patch || { echo "patch does not apply"; exit 2; }; }
cd $L/verif
sed -i "s|/repo/crates|$L/repo/crates|g" harness/Cargo.toml
export VERIF_REPO=$L/repo CARGO_NET_OFFLINE=true
for p in "$@"; do
  timeout 2400 ./check $p --tier quick > $L/out-$p.log 2>&1
  echo "lane $n $(basename $(dirname $patch)) $p rc=$? $(grep -E 'VIOLATION' $L/out-$p.log | head -2 | cut -c1-250) | $(grep -E "^\[$p\]" $L/out-$p.log | cut -c1-200)"
done
