"""C12: snapshots are isolated from later changes; changes cancel, never block.
Model: lean/Glas/Model/Conc.lean (Sys/step/drain/beginApply; driver `conc-run`), flags regenerated
from crates/ide/src/ide/mod.rs by xlate (Gen/Choreo.lean); theorems lean/Glas/Props/C12.lean.
Tie: the harness command `race` runs one writer and several reader threads against the real
AnalysisHost under seeded scheduling and returns the globally ordered event log; the log is turned
into a schedule of model actions, the model is run on it and must reach the observed outcome
(which readers answered, which were cancelled, final revision).
Oracle (implementation only): every answer equals the sequential reference for the snapshot's own
version, no panic, apply_change returns promptly, snapshots taken afterwards see the new workspace."""
import json, os, random
import common
from common import hexs, Broken

PROOF_MODULES = {"C12": ["Glas.Props.C12", "Glas.Audit.C12"]}


def gen_module(rng, nfun, late_ty, tail=0):
    """a monomorphic module: a stable prefix of functions whose types depend on `late`, defined at
    the end and edited between versions"""
    out = ["import gleam/int\n" if False else ""]
    out.append("pub type Shape {\n  Circle(r: Int)\n  Rect(w: Int, h: Int)\n}\n\n")
    out.append("pub fn early() {\n  late()\n}\n\n")
    out.append("pub fn early2(x: Int) {\n  let y = late()\n  #(x, y)\n}\n\n")
    # unusual but valid shapes in the file the readers work on: deep nesting of calls, blocks, lists and tuples
    out.append("pub fn ident(x) {\n  x\n}\n\n")
    out.append("pub fn deep_calls(a: Int) {\n  " + "ident(" * 64 + "a" + ")" * 64 + "\n}\n\n")
    out.append("pub fn deep_blocks(a: Int) {\n  " + "{ " * 56 + "a + 1" + " }" * 56 + "\n}\n\n")
    out.append("pub fn deep_data(a: Int) {\n  #(" + "[" * 30 + "#(" * 25 + "a" + ")" * 25 + "]" * 30 + ", late())\n}\n\n")
    for i in range(nfun):
        k = rng.randrange(4)
        if k == 0:
            out.append(f"pub fn f{i}(a: Int, b: Int) -> Int {{\n  let c = a + b * {i}\n  case c {{\n    0 -> a\n    1 -> b\n    _ -> c - {i}\n  }}\n}}\n\n")
        elif k == 1:
            prev = f"f{rng.randrange(i)}(n, {i})" if i > 0 and rng.random() < 0.8 else "n"
            out.append(f"pub fn f{i}(n: Int) {{\n  let xs = [n, {i}, n + 1]\n  let s = Rect(n, {i})\n  case s {{\n    Circle(r) -> [r, ..xs]\n    Rect(w, h) -> [w, h, {prev if 'f' not in prev or True else 'n'}]\n  }}\n}}\n\n")
        elif k == 2:
            out.append(f"pub fn f{i}(s: Shape) -> Int {{\n  case s {{\n    Circle(r) -> r * {i}\n    Rect(w, h) -> w * h + {i}\n  }}\n}}\n\n")
        else:
            out.append(f"pub fn f{i}(a: Int) {{\n  let g = fn(x) {{ x + a + {i} }}\n  let t = #(a, \"s{i}\", g(a))\n  t.2\n}}\n\n")
    out.append(f"pub fn uses() {{\n  let a = early()\n  let b = early2(1)\n  #(a, b)\n}}\n\n")
    out.append(late_ty)
    # a long run of tokens that need no analysis at the end of the file: a whole-file query spends its last
    # milliseconds there, past its last step of the database - a change that arrives then cannot cancel it any more
    out.append("// trailing commentary\n" * tail)
    return "".join(out)


LATES = [
    "pub fn late() {\n  1\n}\n",
    "pub fn late() {\n  \"s\"\n}\n",
    "pub fn late() {\n  [1, 2]\n}\n",
    "pub fn late() {\n  #(1, \"s\")\n}\n",
    "pub fn late() {\n  Circle(2)\n}\n",
    "pub fn late() {\n  1.5\n}\n",
    "pub fn late() {\n  fn(x: Int) { x }\n}\n",
    "pub fn late( {\n  1\n",                       # damaged
    "pub fn late() {\n  early()\n}\n",            # recursion through the prefix
    "pub fn late() {\n  Nil\n}\n\npub fn later() {\n  early()\n}\n",
]


def make_case(rng, nfun, nver):
    seedm = rng.randrange(1 << 30)
    lates = rng.sample(LATES, min(nver, len(LATES)))
    while len(lates) < nver:
        lates.append(rng.choice(LATES))
    tail = rng.choice([0, 30000, 30000]) if nfun < 1000 else 0
    texts = [gen_module(random.Random(seedm), nfun, l, tail) for l in lates]
    # all versions share the prefix up to the definition of `late`
    m1 = "import m0.{early2}\n\npub fn user() {\n  let v = m0.early()\n  let w = m0.uses()\n  #(v, w)\n}\n\npub fn user2() {\n  early2(2)\n}\n"
    files = [("/w/p/src/m0.gleam", texts[0]), ("/w/p/src/m1.gleam", m1), ("/w/p/gleam.toml", 'name = "p"\n')]
    # queries at positions inside the shared prefix and in the unchanged second file
    t0 = texts[0]
    pre = t0.index("pub fn uses()")
    qs = ["diag,0", "diag,1", "sem,0", "sem,1", f"semrange,0,0,{pre}", f"semrange,0,{pre // 3},{pre // 2}", f"semrange,1,0,{len(m1)}",
          f"sig,0,{t0.index('  late()') + 7}", f"prepare,0,{t0.index('pub fn early()') + 7}", "tree,0", "tree,1"]
    def off(text, needle, k=0):
        return text.index(needle) + k
    qs += [f"hover,0,{off(t0, 'pub fn early()', 7)}", f"hover,0,{off(t0, 'pub fn early2(', 7)}",
           f"hover,0,{off(t0, 'let y = late()', 4)}", f"refs,0,{off(t0, 'pub fn early()', 7)}",
           f"goto,0,{off(t0, '  late()', 2)}", f"hl,0,{off(t0, 'pub fn early()', 7)}",
           f"hover,1,{off(m1, 'let v =', 4)}", f"hover,1,{off(m1, 'let w =', 4)}", f"hover,1,{off(m1, 'pub fn user', 7)}",
           f"goto,1,{off(m1, 'm0.early()', 3)}", f"complete,1,{off(m1, 'm0.early()', 3)},-",
           f"hover,1,{off(m1, 'pub fn user2', 7)}", f"goto,1,{off(m1, '  early2(2)', 2)}"]
    for _ in range(6):
        i = rng.randrange(nfun)
        qs.append(f"hover,0,{off(t0, f'pub fn f{i}(', 7)}")
    rng.shuffle(qs)
    assert all(int(q.split(',')[2]) < pre for q in qs if q.startswith(("hover,0", "refs,0", "goto,0", "hl,0")))
    return files, texts, qs


def ws_lines(files):
    ls = ["ws-begin"]
    for p, t in files:
        ls.append(f"file\t{p}\t{hexs(t)}")
    ls.append("root\t/w/p\t" + ",".join(str(i) for i in range(len(files))))
    ls.append(f"pkg\tp\t{len(files) - 1}\t1\t-")
    ls.append("ws-end")
    return ls


def parse_log(line):
    ev = []
    for e in line.split(";"):
        ev.append(e.split(":"))
    return ev


def analyse(ev, nq):
    """(observed outcome per reader, schedule of model actions, oracle failures)"""
    readers = []                 # reader ids in snapshot order
    snapv = {}
    pos_acts = []                # (position, act)
    qpos = {}
    outcome = {}                 # r -> 'ok-count', 'c', 'x', 'w'
    okc = {}
    fails = []
    windows = []                 # [Bidx, Eidx, first cancel idx]
    cur = None
    lat = []
    final = None
    cold = 0
    for i, e in enumerate(ev):
        k = e[0]
        if k == "S":
            r, v = int(e[1]), int(e[2])
            readers.append(r); snapv[r] = v; okc[r] = 0
            pos_acts.append((2 * i, f"s{nq - 1}", r))
        elif k == "Q":
            qpos[(int(e[1]), int(e[2]))] = i
        elif k == "A":
            r, q, what = int(e[1]), int(e[2]), e[3]
            if what == "ok":
                okc[r] += 1
                pos_acts.append((2 * qpos[(r, q)], "q", r))
            elif what == "cancel":
                outcome[r] = "c"
                pos_acts.append((2 * i, "q", r))
                if cur is not None and cur[2] is None:
                    cur[2] = i
                if cur is None:
                    fails.append(("cancel-without-pending-change", f"reader {r} (snapshot of version {snapv[r]}) was cancelled although no change was being applied", i))
            elif what == "panic":
                outcome[r] = "x"
                fails.append(("panic", f"reader {r} query {q} panicked", i))
            else:
                outcome[r] = "w"
                fails.append(("isolation", f"reader {r} on a snapshot of version {snapv[r]} answered query {q} with {what} (the answer of another version or of none)", i))
        elif k == "B":
            cur = [i, None, None]
        elif k == "E":
            cur[1] = i
            windows.append(cur)
            lat.append(int(e[2]))
            b = cur[2] if cur[2] is not None else i
            pos_acts.append((2 * b - 1, "b", None))
            pos_acts.append((2 * i, "w", None))
            cur = None
        elif k == "F":
            final = (int(e[1]), e[2])
            if e[2] != "ok":
                fails.append(("stale-after-apply", f"a snapshot taken after all changes answered {e[2]} instead of the answers of version {e[1]}", i))
        elif k == "G":
            if e[1] != "ok":
                fails.append(("stale-after-apply", f"after a module was added to the package (content and source roots, the package graph not set again) a new snapshot answered {e[1]} instead of the answers of the grown workspace", i))
        elif k == "T":
            cold = int(e[1])
        elif k == "P":
            fails.append(("panic", "a reader thread died", i))
    idx = {r: j for j, r in enumerate(readers)}
    pos_acts.sort(key=lambda x: x[0])
    acts = []
    for _, a, r in pos_acts:
        acts.append(a if a != "q" else f"q{idx[r]}")
    obs = []
    for r in readers:
        if r in outcome:
            obs.append(outcome[r])
        elif okc[r] == nq:
            obs.append(f"d{snapv[r]}")
        else:
            obs.append(f"r{nq - 1 - okc[r]}")
    observed = f"rev={final[0] if final else '?'} cancel=0 readers={','.join(obs)}"
    return observed, acts, fails, lat, cold


def run_c12(res, tier, seed):
    rng = random.Random(seed)
    ncases = 6 if tier == "quick" else 40
    runs_per = 8 if tier == "quick" else 40
    reqs, meta = [], []
    for c in range(ncases):
        big = (c == 0) if tier == "quick" else (c % 8 == 0)
        nfun = 3000 if big else (rng.choice([30, 80, 160]) if tier == "quick" else rng.choice([30, 80, 160, 400]))
        nver = 3 if big else rng.randrange(3, 7)
        files, texts, qs = make_case(random.Random(rng.randrange(1 << 30)), nfun, nver)
        lines = ws_lines(files)
        for k in range(5 if big else runs_per):
            s = rng.randrange(1, 1 << 30)
            nr = rng.choice([1, 2, 4, 8])
            scale = rng.choice([0, 50, 500, 3000])
            if big:
                # on the big module a query runs for a second or more: the change arrives at once, after a few
                # milliseconds, and after tenths of a second (a query that has been running for long is cancelled too)
                scale = [0, 3000, 60000, 150000, 400000][k]
            lines.append(f"race\t{s}\t{nr}\t0\t{';'.join(qs)}\t{scale}\t" + "\t".join(hexs(t) for t in texts[1:]))
            meta.append((c, len(lines) - 1, len(qs), nfun, nver, nr, scale))
        reqs.append(lines)
    outs = common.parallel_map(lambda ls: common.run_lines(common.HARNESS_BIN, ls, timeout=3000), reqs, workers=min(4, len(reqs)))
    model_reqs, observed_all, info = [], [], []
    hist = {"readers": 0, "cancelled": 0, "answered": 0, "applies": 0, "cancel_windows": 0}
    max_lat, max_cold = 0, 0
    for c, lines in enumerate(reqs):
        o, rc = outs[c]
        if len(o) != len(lines):
            res.add_violation("C12/abort/process-died", f"the process died during a race run (rc={rc}); request {lines[len(o)][:80] if len(o) < len(lines) else ''}",
                              {"requests": lines[:len(o) + 1]})
            continue
        for (cc, li, nq, nfun, nver, nr, scale) in meta:
            if cc != c:
                continue
            line = o[li]
            res.cov["evaluations"] += 1
            if line.startswith("PANIC") or line == "bad-op":
                res.add_violation("C12/panic/writer", f"the writer thread panicked or the run failed: {line[:120]}", {"requests": lines[:7] + [lines[li]]})
                continue
            ev = parse_log(line)
            observed, acts, fails, lat, cold = analyse(ev, nq)
            hist["readers"] += sum(1 for e in ev if e[0] == "S")
            hist["cancelled"] += sum(1 for e in ev if e[0] == "A" and e[3] == "cancel")
            hist["answered"] += sum(1 for e in ev if e[0] == "A" and e[3] == "ok")
            hist["applies"] += len(lat)
            max_lat = max([max_lat] + lat); max_cold = max(max_cold, cold)
            replay = {"requests": lines[:7] + [lines[li]], "log": line[:3000]}
            for key, desc, at in fails:
                res.add_violation("C12/" + key, desc + f" (event {at} of the log)", replay)
            # promptness: a change must not wait for a long query to run to completion
            # (a reader notices the cancellation at its next query step; one step - parsing or lowering the big module - can
            # take a good part of the batch on a loaded machine, so the bound is three quarters of the cold batch)
            bound = max(400_000, (cold * 3) // 4)
            for l in lat:
                if l > bound and cold >= 800_000:
                    res.add_violation("C12/apply-blocked", f"apply_change took {l} us while readers were busy (cold query batch: {cold} us)", replay)
            if any(e[0] == "A" and e[3] == "cancel" for e in ev):
                res.cov["distinct_nontrivial"] += 1
            model_reqs.append("conc-run\t" + ";".join(acts))
            observed_all.append(observed)
            info.append(replay)
    mo, rc = common.run_lines(common.DRIVER_BIN, model_reqs)
    if len(mo) != len(model_reqs):
        raise Broken("Lean driver died", "on conc-run requests")
    for rq, want, got, rp in zip(model_reqs, observed_all, mo, info):
        if want != got:
            res.disagreements.append((rq[:400], want, got))
    res.extra["schedule_histogram"] = hist
    res.extra["max_apply_latency_us"] = max_lat
    res.extra["max_cold_batch_us"] = max_cold
    res.cov["rule"] = ("seeded schedules of one writer and 1-8 reader threads on the real AnalysisHost; each log replayed on the Lean model; "
                       "nontrivial = runs in which at least one reader was cancelled")
    res.cov["samples"] = [o[:200] for o in observed_all[:6]]


def run_c12_lsp(res, tier, seed):
    """the same contract at the server's surface: a request that is in flight when a change arrives is answered with the answer
    of the workspace before the change, with the answer of the workspace after it (the request was taken up late), or with an
    error that reports the cancellation - never with a definite `null`/empty result that neither workspace gives.
    Request and `didChange` are sent in ONE write, on a module large enough for the query to be running when the change comes."""
    import lsp, shutil, json as _json
    lsp.build_glas()
    rng = random.Random(seed * 41 + 12)
    base = os.path.join(common.ROOT, "work", f"c12-{os.getpid()}")
    shutil.rmtree(base, ignore_errors=True)
    try:
        root = base + "/p"
        os.makedirs(root + "/src")
        open(root + "/gleam.toml", "w").write('name = "p"\n')
        n = 1200
        text = ("pub type Shape {\n  Circle(radius: Int)\n  Square(side: Int)\n}\n\npub fn area(shape s: Shape, scale k: Int) {\n  case s {\n    Circle(r) -> r * k\n    Square(x) -> x * k\n  }\n}\n\n"
                + "".join(f"pub fn f{i}(v) {{\n  area(shape: Circle(v), scale: {i})\n}}\n\n" for i in range(n))
                + "pub fn last(v) {\n  area(Circle(v), \n}\n")
        open(root + "/src/m.gleam", "w").write(text)
        uri = f"file://{root}/src/m.gleam"
        c = lsp.Lsp(root)
        try:
            if c.initialize() is None:
                return
            c.notify("textDocument/didOpen", {"textDocument": {"uri": uri, "languageId": "gleam", "version": 1, "text": text}})
            lines = text.split("\n")
            last_line = next(i for i, l in enumerate(lines) if l.startswith("  area(Circle(v), "))
            doc = {"uri": uri}
            asks = [("textDocument/references", {"textDocument": doc, "position": {"line": 5, "character": 8}, "context": {"includeDeclaration": True}}),
                    ("textDocument/completion", {"textDocument": doc, "position": {"line": last_line, "character": 2}}),
                    ("textDocument/signatureHelp", {"textDocument": doc, "position": {"line": last_line, "character": 19}}),
                    ("textDocument/hover", {"textDocument": doc, "position": {"line": 5, "character": 8}}),
                    ("textDocument/definition", {"textDocument": doc, "position": {"line": last_line, "character": 3}}),
                    ("textDocument/documentHighlight", {"textDocument": doc, "position": {"line": 5, "character": 8}}),
                    ("textDocument/prepareRename", {"textDocument": doc, "position": {"line": 5, "character": 8}})]
            ver = 1
            nlines = len(lines)
            for method, params in asks:
                quiet = c.request(method, params, timeout=60)
                if quiet is None or "error" in quiet:
                    continue
                for rnd in range(3 if tier == "quick" else 12):
                    ver += 1
                    # the change: a comment line appended at the very end (no position of the questions moves, no answer changes)
                    chg = {"jsonrpc": "2.0", "method": "textDocument/didChange", "params": {"textDocument": {"uri": uri, "version": ver},
                           "contentChanges": [{"range": {"start": {"line": nlines - 1, "character": 0}, "end": {"line": nlines - 1, "character": 0}}, "text": f"// {ver}\n"}]}}
                    nlines += 1
                    with c.lock:
                        i = c.next_id
                        c.next_id += 1
                    req = {"jsonrpc": "2.0", "id": i, "method": method, "params": params}
                    blob = b""
                    for obj in (req, chg):
                        data = _json.dumps(obj).encode("utf-8")
                        blob += b"Content-Length: %d\r\n\r\n" % len(data) + data
                    try:
                        c.p.stdin.write(blob); c.p.stdin.flush()
                    except (BrokenPipeError, OSError):
                        break
                    ans = c.wait(i, timeout=60)
                    res.cov["evaluations"] += 1
                    if ans is None:
                        continue        # liveness is C15's / C16's subject
                    if "error" in ans:
                        continue
                    after = c.request(method, params, timeout=60)
                    ok = ans.get("result") == quiet.get("result") or (after is not None and ans.get("result") == after.get("result"))
                    if not ok:
                        short = _json.dumps(ans.get("result"))[:160]
                        res.add_violation("C12/lsp-answer-of-no-workspace",
                                          f"{method.split('/')[1]} sent together with a didChange is answered {short}: neither the answer before the change "
                                          f"({_json.dumps(quiet.get('result'))[:120]}) nor the one after it, and not an error that reports the cancellation",
                                          {"method": method, "params": params, "answer": ans.get("result") if len(short) < 150 else short, "round": rnd, "module_functions": n})
                        break
                    if after is not None and "error" not in after:
                        quiet = after
        finally:
            c.close()
    finally:
        shutil.rmtree(base, ignore_errors=True)


def run(prop, res, tier, seed):
    res.assumptions += ["salsa's snapshot / cancellation contract is modelled, not verified: a snapshot reads the revision it was taken at; "
                        "a pending write makes older snapshots unwind at their next query step; the write waits for all snapshots to be dropped",
                        "thread interleavings are sampled by seeded scheduling, not enumerated; the theorems hold for all interleavings of the model"]
    try:
        res.extra.update(common.prove(prop, PROOF_MODULES[prop]))
    except Broken as b:
        res.add_broken(b.what, b.detail)
    run_c12(res, tier, seed)
    run_c12_lsp(res, tier, seed)
    if res.disagreements:
        rq, a, b = res.disagreements[0]
        res.add_broken("correspondence model-vs-implementation (M-conc vs the event log of AnalysisHost under concurrency)",
                       f"{len(res.disagreements)} disagreeing runs; first: {rq} observed={a!r} model={b!r}")


def replay(prop, path):
    d = json.load(open(path))
    rq = d.get("replay", {}).get("requests")
    if not rq:
        print(open(path).read()[:3000]); return 0
    o, rc = common.run_lines(common.HARNESS_BIN, rq)
    print(o[-1][:3000] if o else rc)
    return 0
