"""Reference grammar of the supported Gleam surface syntax.
Builds random programs as trees  ('N', KIND, [children]) / ('T', text)  whose node structure is the
one Gleam's grammar prescribes (precedence, associativity, postfix chains, statement and item
boundaries, labels/patterns/types in their slots), renders them with arbitrary legal whitespace
and comments, and prints the expected shape in the format of the harness command `shape`."""
import random

KEYWORDS = {"as", "assert", "case", "const", "external", "fn", "if", "import", "let", "opaque", "panic", "pub", "todo",
            "type", "use"}


def N(kind, *children):
    out = []
    for c in children:
        if c is None:
            continue
        if isinstance(c, list):
            out.extend(x for x in c if x is not None)
        else:
            out.append(c)
    return ("N", kind, out)


def T(text):
    return ("T", text)


def shape(n):
    if n[0] == "T":
        return "'" + n[1].replace("\n", "\u2424").replace("\r", "\u240d") + "'"
    return "(" + n[1] + "".join(" " + shape(c) for c in n[2]) + ")"


def tokens(n, out=None):
    if out is None:
        out = []
    if n[0] == "T":
        out.append(n[1])
    else:
        for c in n[2]:
            tokens(c, out)
    return out


# binary operators by precedence level (loosest first), all left-associative
LEVELS = [["||"], ["&&"], ["==", "!="], ["<", "<=", "<.", "<=.", ">", ">=", ">.", ">=."], ["<>"], ["|>"],
          ["+", "-", "+.", "-."], ["*", "/", "*.", "/.", "%"]]
OP_LEVEL = {op: i for i, ops in enumerate(LEVELS) for op in ops}


class Gen:
    def __init__(self, rng, names=None, max_depth=4):
        self.r = rng
        self.lower = names or ["a", "b", "x", "y", "foo", "bar_1", "wibble"]
        self.upper = ["A", "B", "Foo", "Bar", "Wobble", "Ok", "Error", "Int", "List"]
        self.max_depth = max_depth
        # `x as y` (an `as` directly after a variable pattern) is a separate stream: the parser
        # rejects it today (known finding C04/as-after-variable)
        self.as_on_var = False

    # ---- leaves
    def ident(self):
        return T(self.r.choice(self.lower))

    def uident(self):
        return T(self.r.choice(self.upper))

    def discard(self):
        return T(self.r.choice(["_", "_x", "_foo1"]))

    def literal_tok(self):
        return T(self.r.choice(["1", "42", "0x10", "1_000", "1.5", "2.0e3", '"s"', '"a b"', '"q\\"q"', '"é💣"', '""',
                                # strings that end in an escaped backslash, hold several escapes, or an escaped quote after a backslash pair
                                '"\\\\"', '"C:\\\\tmp\\\\"', '"\\\\\\\\"', '"a\\\\\\"b"', '"\\n\\\\"',
                                # a string over several lines
                                '"first line\n  second line"']))

    def name(self):
        return N("NAME", self.ident())

    def name_ref(self, upper=False):
        return N("NAME_REF", self.uident() if upper else self.ident())

    # ---- types
    def type_expr(self, d=0):
        r = self.r
        k = r.randrange(8 if d < 3 else 3)
        if k == 0:
            return N("TYPE_NAME_REF", N("TYPE_NAME", self.ident()))
        if k in (1, 2):
            return N("TYPE_NAME_REF", N("TYPE_NAME", self.uident()))
        if k == 3:
            return N("HOLE", self.discard())
        if k == 4:
            base = N("TYPE_NAME_REF", N("TYPE_NAME", self.uident()))
            return N("TYPE_APPLICATION", base, self.type_arg_list(d))
        if k == 5:
            base = N("TYPE_NAME_REF", N("NAME", self.ident()), T("."), N("TYPE_NAME", self.uident()))
            if r.random() < 0.5:
                return N("TYPE_APPLICATION", base, self.type_arg_list(d))
            return base
        if k == 6:
            n = r.randrange(0, 3)
            ch = [T("fn")]
            inner = [T("(")]
            for i in range(n):
                inner.append(self.type_expr(d + 1))
                if i + 1 < n or r.random() < 0.2:
                    inner.append(T(","))
            ch.append(N("PARAM_TYPE_LIST", inner))
            ch += [T(")"), T("->"), self.type_expr(d + 1)]
            return N("FN_TYPE", ch)
        n = r.randrange(0, 3)
        ch = [T("#"), T("(")]
        for i in range(n):
            ch.append(self.type_expr(d + 1))
            if i + 1 < n or r.random() < 0.2:
                ch.append(T(","))
        ch.append(T(")"))
        return N("TUPLE_TYPE", ch)

    def type_arg_list(self, d):
        n = self.r.randrange(1, 3)
        ch = [T("(")]
        for i in range(n):
            last = i + 1 == n
            comma = T(",") if (not last or self.r.random() < 0.2) else None
            ch.append(N("TYPE_ARG", self.type_expr(d + 1), comma))
        ch.append(T(")"))
        return N("TYPE_ARG_LIST", ch)

    # ---- patterns
    def pattern(self, d=0, allow_as=True):
        r = self.r
        k = r.randrange(10 if d < 3 else 4)
        if k in (0, 1):
            p = N("PATTERN_VARIABLE", self.name())
        elif k == 2:
            p = N("HOLE", self.discard())
        elif k == 3:
            p = N("LITERAL", self.literal_tok())
        elif k == 4:
            p = N("VARIANT_REF", self.name_ref(True), self.pattern_args(d) if r.random() < 0.7 else None)
        elif k == 5:
            p = N("VARIANT_REF", N("MODULE_NAME_REF", self.name_ref()), T("."), self.name_ref(True),
                  self.pattern_args(d) if r.random() < 0.6 else None)
        elif k == 6:
            n = r.randrange(0, 3)
            ch = [T("#"), T("(")]
            for i in range(n):
                ch.append(self.pattern(d + 1))
                if i + 1 < n or r.random() < 0.2:
                    ch.append(T(","))
            ch.append(T(")"))
            p = N("PATTERN_TUPLE", ch)
        elif k == 7:
            n = r.randrange(0, 3)
            ch = [T("[")]
            for i in range(n):
                ch.append(self.pattern(d + 1))
                if i + 1 < n:
                    ch.append(T(","))
            if r.random() < 0.4:
                if n:
                    ch.append(T(","))
                ch.append(N("PATTERN_SPREAD", T(".."), self.name() if r.random() < 0.6 else None))
            ch.append(T("]"))
            p = N("PATTERN_LIST", ch)
        elif k == 8:
            if d == 0:
                p = N("LITERAL", T(r.choice(["1", "2.5"])))
            else:
                p = N("UNARY_OP", T("-"), N("LITERAL", T(r.choice(["1", "2.5"]))))
        else:
            # string prefix: the rest of the string is bound to a name or discarded
            rest = N("PATTERN_VARIABLE", self.name()) if r.random() < 0.5 else N("HOLE", self.discard())
            p = N("PATTERN_CONCAT", N("LITERAL", T(r.choice(['"s"', '"a b"', '"https://"', '"é💣"', '""']))), T("<>"), N("PATTERN_VARIABLE", rest))
        if allow_as and r.random() < 0.12 and (self.as_on_var or p[1] not in ("PATTERN_VARIABLE", "UNARY_OP", "PATTERN_CONCAT")):
            p = N("AS_PATTERN", p, T("as"), N("PATTERN_VARIABLE", self.name()))
        return p

    def pattern_args(self, d):
        r = self.r
        n = r.randrange(0, 3)
        ch = [T("(")]
        for i in range(n):
            last = i + 1 == n
            spread = last and r.random() < 0.2
            comma = T(",") if (not last or r.random() < 0.2) else None
            if spread:
                ch.append(N("VARIANT_REF_FIELD", N("PATTERN_SPREAD", T("..")), comma))
            elif r.random() < 0.3:
                ch.append(N("VARIANT_REF_FIELD", N("LABEL", self.ident()), T(":"), self.pattern(d + 1), comma))
            else:
                ch.append(N("VARIANT_REF_FIELD", self.pattern(d + 1), comma))
        ch.append(T(")"))
        return N("VARIANT_REF_FIELD_LIST", ch)

    # ---- expressions.  prec(e): binding level of the outermost operator (for parenthesisation)
    def atom(self, d):
        r = self.r
        k = r.randrange(12 if d < self.max_depth else 4)
        if k in (0, 1):
            return N("VARIABLE", self.name_ref())
        if k == 2:
            return N("LITERAL", self.literal_tok())
        if k == 3:
            return N("VARIANT_CONSTRUCTOR", self.name_ref(True))
        if k == 4:
            n = r.randrange(0, 3)
            ch = [T("#"), T("(")]
            for i in range(n):
                ch.append(self.expr(d + 1))
                if i + 1 < n or r.random() < 0.2:
                    ch.append(T(","))
            ch.append(T(")"))
            return N("TUPLE", ch)
        if k == 5:
            n = r.randrange(0, 3)
            ch = [T("[")]
            for i in range(n):
                ch.append(self.expr(d + 1))
                if i + 1 < n:
                    ch.append(T(","))
            if r.random() < 0.3:
                if n:
                    ch.append(T(","))
                ch.append(N("EXPR_SPREAD", T(".."), self.expr(d + 1)))
            ch.append(T("]"))
            return N("LIST", ch)
        if k == 6:
            return self.block(d + 1)
        if k == 7:
            return self.case(d + 1)
        if k == 8:
            return self.lambda_(d + 1)
        if k == 9:
            return N("MISSING", T(r.choice(["panic", "todo"])))
        if k == 10:
            return N("HOLE", self.discard())
        return N("VARIABLE", self.name_ref())

    def postfix(self, d):
        r = self.r
        e = self.atom(d)
        while r.random() < 0.3 and d < self.max_depth:
            k = r.randrange(3)
            if k == 0:
                e = N("EXPR_CALL", e, self.arg_list(d))
            elif k == 1:
                e = N("FIELD_ACCESS", e, T("."), self.name_ref(r.random() < 0.2))
            else:
                e = N("TUPLE_INDEX", e, T("."), N("LITERAL", T(r.choice(["0", "1", "2", "12"]))))
        return e

    def arg_list(self, d):
        r = self.r
        n = r.randrange(0, 3)
        ch = [T("(")]
        for i in range(n):
            if r.random() < 0.3:
                ch.append(N("ARG", N("LABEL", self.ident()), T(":"), self.expr(d + 1)))
            else:
                ch.append(N("ARG", self.expr(d + 1)))
            if i + 1 < n or r.random() < 0.2:
                ch.append(T(","))
        ch.append(T(")"))
        return N("ARG_LIST", ch)

    def unary(self, d, lead=True):
        r = self.r
        if r.random() < 0.12:
            op = r.choice(["-", "!"]) if lead else "!"
            return N("UNARY_OP", T(op), self.unary(d + 1))
        return self.postfix(d)

    def expr(self, d=0, min_level=0, lead=True):
        """expression whose outermost binary operator (if any) binds at level >= min_level.
        Left operands may be of the same level (left associativity), right operands strictly
        tighter; anything looser must be wrapped in a `{ }` block, which `atom` can produce.
        `lead=False`: must not start with a prefix minus (it would continue a preceding
        expression as a binary minus)."""
        r = self.r
        if d < self.max_depth and min_level < len(LEVELS) and r.random() < 0.3:
            lv = r.randrange(min_level, len(LEVELS))
            op = r.choice(LEVELS[lv])
            lhs = self.expr(d + 1, lv, lead)
            rhs = self.expr(d + 1, lv + 1, True)
            return N("PIPE" if op == "|>" else "BINARY_OP", lhs, T(op), rhs)
        return self.unary(d, lead)

    def block(self, d):
        n = self.r.randrange(1, 3)
        return N("BLOCK", T("{"), [self.stmt(d) for _ in range(n - 1)], N("STMT_EXPR", self.expr(d, 0, n == 1)), T("}"))

    def stmt(self, d):
        r = self.r
        k = r.randrange(5)
        if k in (0, 1):
            return N("STMT_LET", T("let"), T("assert") if r.random() < 0.2 else None, self.pattern(d),
                     [T(":"), self.type_expr()] if r.random() < 0.3 else None, T("="), self.expr(d))
        if k == 2:
            n = r.randrange(0, 3)
            ch = [T("use")]
            for i in range(n):
                ch.append(N("USE_ASSIGNMENT", self.pattern(d), [T(":"), self.type_expr()] if r.random() < 0.2 else None))
                if i + 1 < n:
                    ch.append(T(","))
            ch += [T("<-"), self.expr(d)]
            return N("STMT_USE", ch)
        if k == 3 and r.random() < 0.3:
            # `as <message>` extends as far as an expression can, so it only ends a statement
            return N("STMT_EXPR", N("MISSING", T(r.choice(["panic", "todo"])), T("as"), self.expr(d + 1)))
        return N("STMT_EXPR", self.expr(d, 0, False))

    def case(self, d):
        r = self.r
        ns = r.randrange(1, 3)
        ch = [T("case")]
        for i in range(ns):
            ch.append(self.expr(d + 1, 0))
            if i + 1 < ns:
                ch.append(T(","))
        ch.append(T("{"))
        for _ in range(r.randrange(1, 3)):
            cl = []
            for i in range(ns):
                alts = [self.pattern(d + 1)]
                for _ in range(r.randrange(0, 2)):
                    alts += [T("|"), self.pattern(d + 1)]
                cl.append(N("ALTERNATIVE_PATTERN", alts))
                if i + 1 < ns:
                    cl.append(T(","))
            if r.random() < 0.25:
                g = self.expr(d + 1)
                if r.random() < 0.5:
                    # a guard that ends in arithmetic on a literal, directly in front of the arrow: `n if n < limit - 1 ->`
                    lit = N("LITERAL", T(r.choice(["1", "2", "0.5", "10"])))
                    arith = N("BINARY_OP", N("VARIABLE", self.name_ref()), T(r.choice(["-", "+", "-.", "*"])), lit)
                    g = arith if r.random() < 0.3 else N("BINARY_OP", N("VARIABLE", self.name_ref()), T(r.choice(["<", "==", ">=", "!="])), arith)
                cl.append(N("PATTERN_GUARD", T("if"), g))
            cl += [T("->"), self.expr(d + 1)]
            ch.append(N("CLAUSE", cl))
        ch.append(T("}"))
        return N("CASE", ch)

    def lambda_(self, d):
        r = self.r
        return N("LAMBDA", T("fn"), self.param_list(True), [T("->"), self.type_expr()] if r.random() < 0.3 else None,
                 self.block(d))

    def param_list(self, anon):
        r = self.r
        n = r.randrange(0, 4)
        ch = [T("(")]
        for i in range(n):
            last = i + 1 == n
            comma = T(",") if (not last or r.random() < 0.2) else None
            label = N("LABEL", self.ident()) if (not anon and r.random() < 0.3) else None
            if r.random() < 0.2:
                pat = N("HOLE", self.discard())
            else:
                pat = N("PATTERN_VARIABLE", self.name())
            ann = [T(":"), self.type_expr()] if r.random() < 0.4 else None
            ch.append(N("PARAM", label, pat, ann, comma))
        ch.append(T(")"))
        return N("PARAM_LIST", ch)

    # ---- items
    def attrs(self):
        r = self.r
        out = []
        if r.random() < 0.15:
            out.append(N("EXTERNAL_ATTR", T("@"), T("external"), T("("), T(r.choice(["erlang", "javascript"])), T(","),
                         T('"mod"'), T(","), T('"f"'), T(")")))
        if r.random() < 0.1:
            out.append(N("TARGET_ATTR", T("@"), T("target"), T("("), T(r.choice(["erlang", "javascript"])), T(")")))
        return out

    def function(self):
        r = self.r
        return N("FUNCTION", self.attrs(), T("pub") if r.random() < 0.4 else None, T("fn"), self.name(),
                 self.param_list(False), [T("->"), self.type_expr()] if r.random() < 0.4 else None, self.block(1))

    def constant(self):
        r = self.r
        val = self.const_expr(0)
        return N("MODULE_CONSTANT", T("pub") if r.random() < 0.4 else None, T("const"), self.name(),
                 [T(":"), self.type_expr()] if r.random() < 0.3 else None, T("="), val)

    def const_expr(self, d):
        r = self.r
        k = r.randrange(4 if d < 2 else 2)
        if k == 0:
            return N("LITERAL", self.literal_tok())
        if k == 1:
            return N("VARIANT_CONSTRUCTOR", self.name_ref(True))
        if k == 2:
            n = r.randrange(0, 3)
            ch = [T("#"), T("(")]
            for i in range(n):
                ch.append(self.const_expr(d + 1))
                if i + 1 < n:
                    ch.append(T(","))
            ch.append(T(")"))
            return N("TUPLE", ch)
        n = r.randrange(0, 3)
        ch = [T("[")]
        for i in range(n):
            ch.append(self.const_expr(d + 1))
            if i + 1 < n:
                ch.append(T(","))
        ch.append(T("]"))
        return N("LIST", ch)

    def generics(self):
        n = self.r.randrange(1, 3)
        ch = [T("(")]
        for i in range(n):
            ch.append(N("TYPE_NAME_REF", N("TYPE_NAME", self.ident())))
            if i + 1 < n or self.r.random() < 0.2:
                ch.append(T(","))
        ch.append(T(")"))
        return N("GENERIC_PARAM_LIST", ch)

    def custom_type(self):
        r = self.r
        head = [T("pub") if r.random() < 0.4 else None, T("opaque") if r.random() < 0.2 else None, T("type"),
                N("TYPE_NAME", self.uident()), self.generics() if r.random() < 0.4 else None]
        vs = []
        for _ in range(r.randrange(1, 4)):
            fl = None
            if r.random() < 0.7:
                n = r.randrange(1, 3)
                ch = [T("(")]
                for i in range(n):
                    lab = [N("NAME", self.ident()), T(":")] if r.random() < 0.5 else None
                    ch.append(N("VARIANT_FIELD", lab, self.type_expr(1)))
                    if i + 1 < n or r.random() < 0.2:
                        ch.append(T(","))
                ch.append(T(")"))
                fl = N("VARIANT_FIELD_LIST", ch)
            vs.append(N("VARIANT", N("NAME", self.uident()), fl))
        return N("ADT", head, T("{"), vs, T("}"))

    def alias(self):
        r = self.r
        return N("TYPE_ALIAS", T("pub") if r.random() < 0.4 else None, T("type"), N("TYPE_NAME", self.uident()),
                 self.generics() if r.random() < 0.3 else None, T("="), self.type_expr(0))

    def import_(self):
        r = self.r
        n = r.randrange(1, 4)
        path = []
        for i in range(n):
            path.append(N("PATH", self.ident()))
            if i + 1 < n:
                path.append(T("/"))
        ch = [T("import"), N("MODULE_PATH", path)]
        if r.random() < 0.5:
            ch += [T("."), T("{")]
            k = r.randrange(0, 4)
            for i in range(k):
                last = i + 1 == k
                comma = T(",") if (not last or r.random() < 0.2) else None
                q = r.randrange(3)
                if q == 0:
                    ch.append(N("UNQUALIFIED_IMPORT", N("NAME", self.ident()),
                                [T("as"), N("NAME", self.ident())] if r.random() < 0.3 else None, comma))
                elif q == 1:
                    ch.append(N("UNQUALIFIED_IMPORT", N("NAME", self.uident()),
                                [T("as"), N("NAME", self.uident())] if r.random() < 0.3 else None, comma))
                else:
                    ch.append(N("UNQUALIFIED_IMPORT", T("type"), N("TYPE_NAME", self.uident()),
                                [T("as"), N("TYPE_NAME", self.uident())] if r.random() < 0.3 else None, comma))
            ch.append(T("}"))
        if r.random() < 0.3:
            ch += [T("as"), N("NAME", self.ident())]
        return N("IMPORT", ch)

    def item(self):
        k = self.r.randrange(10)
        if k < 4:
            return self.function()
        if k < 5:
            return self.constant()
        if k < 7:
            return self.custom_type()
        if k < 8:
            return self.alias()
        return self.import_()

    def module(self, n_items=None):
        n = n_items if n_items is not None else self.r.randrange(1, 6)
        return N("SOURCE_FILE", [self.item() for _ in range(n)])


TRIVIA = [" ", " ", " ", "\n", "\n  ", "  ", "\t", " // c\n", "\n// line comment\n", " /// doc\n", "\n//// module doc\n"]


def needs_space(a, b):
    """would tokens a and b merge or re-lex differently if written adjacently?"""
    if not a or not b:
        return False
    x, y = a[-1], b[0]
    if (x.isalnum() or x == "_") and (y.isalnum() or y == "_"):
        return True
    if (x.isalnum() or x == "_") and y == '"':
        return False
    pair = x + y
    glue = {"<", ">", "=", "|", "&", "-", "+", "*", "/", ".", "!", "%", ":"}
    if x in glue and y in glue:
        return True
    if x.isdigit() and y == ".":
        return True
    if x == "." and y.isdigit():
        return True
    if x == "#" or y == "#":
        return False
    return False


def needs_space_at(toks, i):
    """like needs_space(toks[i-1], toks[i]), but a tuple index may be written the usual way: `pair.0`, `pair.0.name`,
    `pair.0 .1` (the blank is needed only where digits would meet a dot on both sides and re-lex as a float)"""
    a, b = toks[i - 1], toks[i]
    if a == "." and b.isdigit():
        return i >= 2 and toks[i - 2][-1:].isdigit()
    if a.isdigit() and b == "." and i >= 2 and toks[i - 2] == ".":
        return i + 1 < len(toks) and toks[i + 1][:1].isdigit()
    return needs_space(a, b)


def render(n, rng=None, dense=False, tight=0.25):
    """text of the program; with rng: random legal trivia between tokens, which with probability `tight` is the
    minimal legal one (nothing where two tokens may touch); dense: minimal spacing everywhere"""
    toks = tokens(n)
    out = []
    for i, t in enumerate(toks):
        if i > 0:
            if dense:
                out.append(" " if needs_space_at(toks, i) else "")
            elif rng is None:
                out.append(" ")
            else:
                s = rng.choice(TRIVIA)
                if rng.random() < tight and not needs_space_at(toks, i):
                    s = ""
                out.append(s)
        out.append(t)
    if rng is not None and rng.random() < 0.5:
        out.append(rng.choice(["\n", " ", "\n// end", ""]))
    return "".join(out)
