"""C10 / C20: every query at every token boundary of every file of generated, damaged and rewired
workspaces (harness command `sweep`).  C10: no query may panic.  C20: every reported range must be
a node/token range of the file it names (a token for name-like results), inside the text, on
character boundaries."""
import json, os, random, re
import common, gen_scope, gen_gleam, p_ide, p_syntax
from common import hexs, Broken


class Ws:
    def __init__(self, files, label):
        self.files = files
        self.label = label


def damaged_workspaces(rng, n):
    out = []
    alpha = p_syntax.CORE + p_syntax.EXTRA
    # fixed first: the two recorded ways the process dies on well-formed input (known findings, replayed on every run)
    out.append(Ws([("/w/p/src/a.gleam", "pub type A = List(A)\n\npub fn f(x: A) {\n  x\n}\n"), ("/w/p/gleam.toml", 'name = "p"\n')], "recursive-alias"))
    out.append(Ws([("/w/p/src/a.gleam", "import b.{g}\npub fn f() {\n  g()\n}\n"), ("/w/p/src/b.gleam", "import a.{f}\npub fn g() {\n  f()\n}\n"),
                   ("/w/p/gleam.toml", 'name = "p"\n')], "import-rewired"))
    out.append(Ws([("/w/p/src/a.gleam", "import b\npub fn f() {\n  b.g()\n}\n"), ("/w/p/src/b.gleam", "import a\npub fn g() {\n  a.f()\n}\n"),
                   ("/w/p/gleam.toml", 'name = "p"\n')], "import-rewired"))
    for i in range(n):
        k = i % 10
        if k == 8:
            if i % 20 == 18:
                out.append(Ws(half_typed_workspace(rng), "half-typed"))
                out.append(Ws(labelled_workspace(rng), "labels-across-modules"))
                continue
            out.append(Ws(ill_typed_workspace(rng), "ill-typed"))
            continue
        if k == 9:
            # unusual characters: in front of the whole file (byte order mark ...), between items, inside a line
            base = gen_scope.generate(rng.randrange(1 << 30))
            files = [list(f) for f in base.files]
            for j, (p, t) in enumerate(files):
                if p.endswith(".gleam") and rng.random() < 0.8:
                    x = rng.choice(p_syntax.EXOTIC) if rng.random() < 0.5 else "\ufeff"
                    where = rng.randrange(3)
                    if where == 0:
                        t = x + t
                    elif where == 1:
                        q = rng.randrange(len(t) + 1)
                        t = t[:q] + x + t[q:]
                    else:
                        t = x + t + x
                    files[j][1] = t
            out.append(Ws([tuple(f) for f in files], "unusual-characters"))
            continue
        base = gen_scope.generate(rng.randrange(1 << 30))
        files = [list(f) for f in base.files]
        gl = [j for j, (p, t) in enumerate(files) if p.endswith(".gleam")]
        j = rng.choice(gl)
        t = files[j][1]
        if k == 0:
            if i % 20 == 10:
                # a second module with byte-for-byte the text of another one (a copied file, a vendored duplicate, a
                # template instantiated twice), next to it and in a sub-directory
                twin = files[j][0][:-6]
                files.insert(len(gl), [twin + "_twin.gleam", t])
                if rng.random() < 0.5:
                    files.insert(len(gl), [os.path.dirname(twin) + "/copies/" + os.path.basename(twin) + ".gleam", t])
                out.append(Ws([tuple(f) for f in files], "twin-files"))
                continue
            out.append(Ws([tuple(f) for f in files], "well-formed"))
            continue
        if k == 1:
            for _ in range(rng.randrange(1, 4)):
                t = p_syntax.mutate(rng, t, alpha)
            label = "token-damage"
        elif k == 2:
            t = t[:rng.randrange(len(t) + 1)]
            label = "truncated"
        elif k == 3:
            lines = t.split("\n")
            a = rng.randrange(len(lines))
            b = rng.randrange(a, min(len(lines), a + 8))
            t = "\n".join(lines[:b] + lines[a:b] + lines[b:])
            label = "duplicated-items"
        elif k == 4:
            # import rewiring: cycles and self-imports
            names = [os.path.basename(p)[:-6] for p, _ in files if p.endswith(".gleam")]
            me = os.path.basename(files[j][0])[:-6]
            tgt = rng.choice(names)
            t = f"import {tgt}.{{{rng.choice(['f', 'g', 'a', 'x', 'T', 'A'])}}}\nimport {rng.choice(names)}\n" + t
            other = rng.choice(gl)
            files[other][1] = f"import {me}.{{{rng.choice(['f', 'g', 'a', 'x'])}}}\n" + files[other][1]
            label = "import-rewired" + ("-self" if tgt == me else "")
        elif k == 5:
            t = rng.choice(["", "\n", "// é💣\n", "é", "\"", "fn", "💣💣💣", "fn f() { \"é💣\" }\n// ℝ"])
            label = "degenerate-file"
        elif k == 6:
            g = gen_gleam.Gen(rng)
            t = gen_gleam.render(g.module(), rng)
            label = "untyped-syntax-soup"
        else:
            # clauses with more patterns than subjects / fewer; unknown names; odd arities
            t = t.replace(" -> ", ", zz -> ", 1) if rng.random() < 0.5 else t.replace("case ", "case q, ", 1)
            label = "arity-damage"
        files[j][1] = t
        out.append(Ws([tuple(f) for f in files], label))
    return out


# well-formed but ill-typed (or oddly typed) functions: the inference engine meets sizes, arities, labels and shapes that
# do not fit.  {k} = a small or huge index / arity, {n} = a fresh suffix
ILL_TYPED = [
    "pub fn tup{n}() {{\n  let t = #(1, \"a\")\n  t.{k}\n}}",
    "pub fn tup_lit{n}() {{\n  #(1, 2, 3).{k}\n}}",
    "pub fn tup_par{n}(p: #(Int, Int)) {{\n  p.{k} + p.0\n}}",
    "pub fn tup_nest{n}(p: #(Int, #(Float, String))) {{\n  p.1.{k}\n}}",
    "pub fn tup_unknown{n}(p) {{\n  let a = p.{k}\n  let b = p.0\n  #(a, b).{k}\n}}",
    "pub fn tup_not{n}() {{\n  let x = 1\n  x.{k}\n}}",
    "pub fn tup_pat{n}() {{\n  let #(a, b, c) = #(1, 2)\n  a + c\n}}",
    "pub fn tup_pat2{n}(v: #(Int, Int, Int)) {{\n  case v {{\n    #(a, b) -> a\n    #(a, _, _, d) -> d\n  }}\n}}",
    "pub type Rec{n} {{\n  Rec{n}(name: String, size: Int)\n  Other{n}(size: Int)\n}}\npub fn fld{n}(r: Rec{n}) {{\n  r.name\n  r.size\n  r.missing\n  r.size.more\n}}",
    "pub fn fld_not{n}() {{\n  let x = [1]\n  x.first\n  1.5.value\n}}",
    "pub fn callee{n}(a: Int, label b: String) {{\n  a\n}}\npub fn calls{n}() {{\n  callee{n}()\n  callee{n}(1)\n  callee{n}(1, \"s\", 3)\n  callee{n}(label: \"s\", 1)\n  callee{n}(1, nolabel: \"s\")\n  callee{n}(1, label: \"s\", label: \"t\")\n  callee{n}(b: 1, a: 2)\n}}",
    "pub fn notfn{n}() {{\n  let x = 1\n  x(2)\n  \"s\"(x)\n  #(1, 2)(3)\n  [x](0)\n}}",
    "pub fn mix{n}() {{\n  1 + \"a\"\n  [1, \"a\", 2.5]\n  1.5 <> 2\n  !1\n  -\"s\"\n}}",
    "pub fn cas{n}(x) {{\n  case x {{\n    1 -> \"a\"\n    \"b\" -> 2\n    [a, ..] -> a\n    #(a) -> a\n  }}\n}}",
    "pub type Opt{n}(a) {{\n  Som{n}(a)\n  Non{n}\n}}\npub fn ctor{n}(o: Opt{n}(Int)) {{\n  case o {{\n    Som{n}(a, b) -> a\n    Som{n} -> 1\n    Non{n}(x) -> x\n    Unknown{n}(y) -> y\n    Som{n}(label: z) -> z\n  }}\n}}",
    "pub fn pipe{n}(x) {{\n  1 |> 2\n  x |> pipe{n}(1, _, _)\n  x |> pipe{n}\n  x |> pipe{n}()\n  x |> fn(a, b) {{ a }}\n}}",
    "pub fn usecb{n}(f) {{\n  use a, b <- f(1)\n  use <- a\n  use c <- usecb{n}\n  c\n}}",
    "pub fn rec_a{n}(x) {{\n  rec_a{n}(x, x)\n}}\npub fn rec_b{n}() {{\n  rec_b{n}()()\n}}\npub fn rec_c{n}(x) {{\n  rec_c{n}\n}}\npub fn rec_d{n}(x) {{\n  [rec_d{n}(x)]\n}}",
    "pub fn gen_a{n}(x: a) -> b {{\n  x\n}}\npub fn gen_b{n}(x: List(a), y: a) -> a {{\n  gen_b{n}(y, x)\n}}",
    "pub type Al{n}(a) = List(a)\npub fn al{n}(x: Al{n}, y: Al{n}(Int, Int), z: Al{n}(Al{n}(Int))) {{\n  x\n}}\npub fn al2{n}(x: Nope{n}, y: Som{n}) -> List {{\n  x\n}}",
    "pub fn lam{n}() {{\n  let f = fn(a, b) {{ a }}\n  f(1)\n  f(1, 2, 3)\n  let g = fn(a: Int) -> String {{ a }}\n  g(\"s\").{k}\n}}",
    "pub fn lst{n}(x) {{\n  let [a, b] = 1\n  let [c, ..d] = #(1, 2)\n  let e = [..x, 1]\n  [1, ..2]\n}}",
    "pub fn big{n}() {{\n  let t = #(1, 2)\n  t.99999999999999999999\n  999999999999999999999999999999\n  0xFFFFFFFFFFFFFFFFFFFFFFFF\n  1.0e999999\n}}",
    "pub const k{n} = #(1, 2)\npub const j{n}: String = 1\npub fn cst{n}() {{\n  k{n}.{k}\n  j{n}.{k}\n  k{n}(1)\n}}",
    # recursion that closes through a reference which is not a call: a function passed on, a `use` callback, a let alias, a pipe
    "pub fn sum_by{n}(xs, f) {{\n  f(xs)\n}}\npub fn size{n}(t) {{\n  sum_by{n}(t, child{n})\n}}\npub fn child{n}(c) {{\n  size{n}(c)\n}}",
    "pub fn step_a{n}() {{\n  use <- step_b{n}\n  1\n}}\npub fn step_b{n}(f) {{\n  step_a{n}()\n  f()\n}}",
    "pub fn al_a{n}() {{\n  let g = al_b{n}\n  g()\n}}\npub fn al_b{n}() {{\n  al_a{n}()\n}}",
    "pub fn pi_a{n}(x) {{\n  x |> pi_b{n}\n}}\npub fn pi_b{n}(y) {{\n  [pi_a{n}, pi_b{n}]\n  y\n}}",
    "pub fn dm_a{n}(k) {{\n  dm_b{n} k)\n}}\npub fn dm_b{n}(k) {{\n  dm_a{n}(k)\n}}",
    "pub fn shadow{n}(shadow{n}) {{\n  let shadow{n} = shadow{n}(shadow{n})\n  shadow{n}.{k}\n}}",
    "pub fn str{n}(s) {{\n  case s {{\n    \"a\" <> rest -> rest.{k}\n    \"b\" <> _ -> 1\n    _ -> s <> 1\n  }}\n}}",
]


# declarations as they look while they are being typed: cut right behind a key token, followed by the end of the file or by
# the next item; the names they (half) declare are used elsewhere in the file and in another module
HALF_TYPED = [
    "pub type Alias{n} =", "type Alias{n}(a) =", "pub type Alias{n} = ", "pub type Alias{n}", "pub type Rec{n} {{", "pub type Rec{n} {{\n  Mk{n}(", "pub type Rec{n} {{\n  Mk{n}(size:",
    "pub const k{n} =", "pub const k{n}: Int =", "const k{n}:", "pub fn f{n}(", "pub fn f{n}(a: ", "pub fn f{n}() ->", "pub fn f{n}() {{", "pub fn f{n}(a) {{\n  let b =",
    "pub fn f{n}(a) {{\n  case a {{", "pub fn f{n}(a) {{\n  case a {{\n    1 ->", "pub fn f{n}(a) {{\n  use b <-", "pub fn f{n}(a) {{\n  a |>", "pub fn f{n}(a) {{\n  a.",
    "pub fn f{n}(a) {{\n  fn(", "import", "import m0.{{", "import m0 as", "pub opaque type", "@external(", "pub fn f{n}(a) {{\n  #(a,", "pub fn f{n}(a) {{\n  [a, ..",
]


def half_typed_workspace(rng):
    n_mod = 2
    files = []
    uses = ("pub fn user{n}(x: Alias{n}, y: Rec{n}) -> Alias{n} {{\n  let z: Alias{n} = k{n}\n  f{n}(Mk{n}(1))\n  f{n}\n}}")
    for m in range(n_mod):
        parts = []
        if m == 1:
            parts.append("import m0\nimport m0.{type Alias0, type Rec1, k0, f1, Mk1}")
            parts.append("pub fn cross(a: m0.Alias0, b: Alias0) -> m0.Rec1 {\n  m0.k0\n  m0.f1(1)\n  f1\n  Mk1\n  k0\n}")
        for i in range(rng.randrange(2, 5)):
            parts.append(uses.format(n=i))
            parts.append(rng.choice(HALF_TYPED).format(n=i))
        if rng.random() < 0.5:
            parts.append(uses.format(n=rng.randrange(3)))
        files.append((f"/w/p/src/m{m}.gleam", "\n\n".join(parts) + rng.choice(["", "\n", " "])))
    files.append(("/w/p/gleam.toml", 'name = "p"\n'))
    return files


def labelled_workspace(rng):
    """everything that carries a label, declared in one module and used from another (and from itself): labelled parameters
    and arguments in any order, record fields in constructors, patterns, updates and accesses, labels spelled like locals,
    shorthand labels - a cursor on a LABEL is a cursor like any other"""
    l1, l2 = rng.sample(["width", "height", "depth", "name", "of"], 2)
    shapes = (f"pub type Rect {{\n  Rect({l1}: Int, {l2}: Int)\n  Square({l1}: Int)\n}}\n\n"
              f"pub fn area({l1} w: Int, {l2} h: Int) {{\n  w * h\n}}\n\n"
              f"pub fn grow(r: Rect, by {l1}: Int) {{\n  Rect(..r, {l1}: r.{l1} + {l1})\n}}\n\n"
              f"pub fn own() {{\n  area({l2}: 1, {l1}: 2) + area(1, {l2}: 2)\n}}\n")
    app = (rng.choice(["import shapes\n", "import shapes.{area, Rect, Square}\nimport shapes\n", "import shapes as sh\nimport shapes\n"])
           + f"\npub fn main() {{\n  let {l1} = 3\n  let a = shapes.area({l1}: 2, {l2}: {l1})\n  let b = shapes.area({l2}: 1, {l1}: a)\n"
           f"  let r = shapes.Rect({l1}: a, {l2}: b)\n  let s = shapes.grow(r, by: 2)\n  let shapes.Rect({l1}: p, ..) = s\n"
           f"  case r {{\n    shapes.Rect({l2}: q, {l1}: _) -> q\n    shapes.Square({l1}: q) -> q\n  }}\n  shapes.Rect(..r, {l2}: p).{l2}\n}}\n"
           + rng.choice(["", f"\npub fn half() {{\n  shapes.area({l1}: )\n}}\n", f"\npub fn half() {{\n  shapes.area({l1}\n}}\n", f"\npub fn unknown() {{\n  shapes.area(nope: 1, {l1}: 2)\n}}\n"]))
    return [("/w/p/src/shapes.gleam", shapes), ("/w/p/src/app.gleam", app), ("/w/p/gleam.toml", 'name = "p"\n')]


def ill_typed_workspace(rng):
    n_mod = rng.randrange(1, 3)
    files = []
    for m in range(n_mod):
        parts = []
        if m == 1:
            parts.append("import m0\nimport m0.{" + rng.choice(["tup0", "calls1", "Rec2", "type Rec2", "cas3", "missing"]) + "}")
        for i in range(rng.randrange(3, 8)):
            tpl = rng.choice(ILL_TYPED)
            parts.append(tpl.format(n=i, k=rng.choice([0, 1, 2, 2, 3, 3, 4, 7, 99])))
        if m == 1:
            parts.append("pub fn cross() {\n  m0.tup0().2\n  m0.calls1(1)\n  tup0.3\n}")
        files.append((f"/w/p/src/m{m}.gleam", "\n\n".join(parts) + "\n"))
    files.append(("/w/p/gleam.toml", 'name = "p"\n'))
    return files


def import_cycle(files):
    """do the modules of the workspace import each other in a circle (a self-import included)?"""
    g = {}
    for p, t in files:
        if p.endswith(".gleam"):
            name = p.split("/src/")[-1][:-6]
            g[name] = set(re.findall(r"(?m)^\s*import\s+([a-z0-9_/]+)", t))
    def reach(a, seen):
        for b in g.get(a, ()):
            if b not in seen:
                seen.add(b)
                reach(b, seen)
        return seen
    return any(a in reach(a, set()) for a in g)


def alias_cycle(files):
    """does some file declare a (mutually) recursive type alias?"""
    for p, t in files:
        if not p.endswith(".gleam"):
            continue
        body = {}
        t = re.sub(r"//[^\n]*", " ", t)
        t = re.sub(r"\s+", " ", t)
        for m in re.finditer(r"\btype\s+([A-Z][0-9a-zA-Z]*)\s*(?:\([^)]*\))?\s*=([^\n{}]*(?:\n\s*[^\n{}=]*)?)", t):
            body[m.group(1)] = set(re.findall(r"\b[A-Z][0-9a-zA-Z]*\b", m.group(2)))
        def reach(a, seen):
            for b in body.get(a, ()):
                if b in seen:
                    continue
                seen.add(b)
                reach(b, seen)
            return seen
        for a in body:
            if a in reach(a, set()):
                return True
    return False


def run_isolated(batches):
    """like p_ide.run_workspaces, but a workspace that kills the harness (abort, stack overflow) is
    identified by re-running the failing chunk one workspace per process; its answers are ['ABORT rc=…']"""
    try:
        return p_ide.run_workspaces(batches)
    except Broken:
        pass
    out = []
    def one(b):
        try:
            return p_ide.run_workspaces([b])[0]
        except Broken as e:
            return ["ABORT " + str(e.detail)[:80]] * len(b[1])
    return common.parallel_map(one, batches)


def parse_sweep(line):
    head, *parts = line.split(" | ")
    stats = dict(kv.split("=") for kv in head.split(" ") if "=" in kv)
    panics, bad, first = [], [], []
    for p in parts:
        m = re.match(r"PANIC\[(\d+)x first@(\d+)\] (\S+) (.*)", p)
        if m:
            panics.append((m.group(3), m.group(4), int(m.group(1)), int(m.group(2))))
            continue
        m = re.match(r"BAD\[(\d+)x\] (.*)", p)
        if m:
            bad.append((m.group(2), int(m.group(1))))
            continue
        if p.startswith("FIRST "):
            first.append(p[6:])
    return stats, panics, bad, first


def run_sweeps(res, tier, seed, want):
    rng = random.Random(seed)
    n = 160 if tier == "quick" else 3000
    wss = damaged_workspaces(rng, n)
    batches = [(ws, [f"sweep\t{i}" for i, (p, t) in enumerate(ws.files) if p.endswith(".gleam")]) for ws in wss]
    answers = run_isolated(batches)
    labels = {}
    nq = 0
    for ws, (w, qs), ans in zip(wss, batches, answers):
        labels[ws.label] = labels.get(ws.label, 0) + 1
        if ans and ans[0].startswith("ABORT"):
            if want == "C10":
                key = "C10/abort/recursive-type-alias" if alias_cycle(ws.files) else "C10/abort/" + ws.label
                res.add_violation(key, f"the process aborts (stack overflow or abort) while answering queries on a {ws.label} workspace",
                                  {"files": [{"path": p, "text": t} for p, t in ws.files], "query": qs[0], "impl": ans[0], "label": ws.label})
            continue
        for q, a in zip(qs, ans):
            if a.startswith("PANIC"):
                if want == "C10":
                    res.add_violation("C10/sweep-itself-panicked", a[:200], {"files": [{"path": p, "text": t} for p, t in ws.files], "query": q, "impl": a[:400]})
                continue
            stats, panics, bad, first = parse_sweep(a)
            nq += int(stats.get("queries", 0))
            if want == "C10":
                for (query, loc, cnt, off) in panics:
                    if "cycle" in loc and "salsa" in loc:
                        # which query closes the cycle, and whether the modules import each other in a circle: a cycle of
                        # inference queries inside an acyclic import graph is another defect than the recorded ones
                        m = re.search(r"cycle detected:\s+(\w+)", loc)
                        first = m.group(1) if m else "unknown"
                        if first.startswith("module_scope"):
                            key = "C10/panic/salsa-cycle-on-cyclic-imports"
                        elif import_cycle(ws.files):
                            key = "C10/panic/salsa-cycle-on-cyclic-imports/" + first
                        else:
                            key = "C10/panic/salsa-cycle/" + first
                    else:
                        key = "C10/panic/" + re.sub("^" + re.escape(common.REPO) + "/", "", loc.split(" ")[0]) + "/" + query
                    res.add_violation(key, f"{query} panics at {loc} ({cnt} offsets, first at offset {off}) on a {ws.label} workspace",
                                      {"files": [{"path": p, "text": t} for p, t in ws.files], "query": q, "first_offset": off, "impl": a[:600], "label": ws.label})
            else:
                for (k, cnt) in bad:
                    fb = next((f for f in first if f.startswith(k)), "")
                    res.add_violation("C20/" + k, f"{cnt} reported ranges are not what the property demands: {k} (first: {fb}) on a {ws.label} workspace",
                                      {"files": [{"path": p, "text": t} for p, t in ws.files], "query": q, "first": fb, "impl": a[:600], "label": ws.label})
    res.cov["evaluations"] += nq
    res.cov["distinct_nontrivial"] = sum(v for k, v in labels.items() if k != "well-formed")
    res.cov["workspace_distribution"] = labels
    res.cov["rule"] = (f"{n} workspaces of 1-3 modules: well-formed, token/character damage, truncation, duplicated items, rewired imports "
                       "(cycles, self-imports), degenerate files (empty, non-ASCII, lone quote), syntax soup from the reference grammar, arity "
                       "damage in case clauses, files with unusual characters (byte order mark, separators, NUL ...) in front / inside, well-formed but ill-typed programs (tuple indices at and past the arity, missing fields, wrong call arities and labels, "
                       "calls of non-functions, mismatched patterns, huge literals); in every file, at every token boundary: hover, go-to-definition, references, highlight, completion "
                       "(plain, `.`, `@`), signature help, prepare-rename, rename (both name classes); per file: diagnostics, semantic "
                       "highlighting, syntax tree. non-trivial = damaged workspace")
    res.cov["samples"] += [{"workspace": wss[i].label, "answer": answers[i][0][:300]} for i in (0, 1, min(9, len(wss) - 1))]


def gen_collect_script(rng):
    """a table of type nodes (children may point anywhere: cycles, self-loops, shared children), some classes merged, and a
    list of collect requests in random order (with repetitions)"""
    n = rng.randrange(1, 14)
    nodes = []
    for i in range(n):
        k = rng.random()
        v = lambda: rng.randrange(n)
        if k < 0.22:
            nodes.append(f"nk{rng.randrange(0, 6)}")
        elif k < 0.34:
            nodes.append("n" + rng.choice("zbifsy"))
        elif k < 0.46:
            nodes.append(f"nl:{v()}")
        elif k < 0.56:
            nodes.append(f"nr:{v()},{v()}")
        elif k < 0.72:
            nodes.append("nt:" + ",".join(str(v()) for _ in range(rng.randrange(0, 5))))
        elif k < 0.9:
            nodes.append("nF:" + ",".join(str(v()) for _ in range(rng.randrange(1, 5))))
        else:
            nodes.append(f"na{rng.randrange(0, 4)}:" + ",".join(str(v()) for _ in range(rng.randrange(0, 4))))
    ops = []
    for _ in range(rng.randrange(0, n)):
        ops.append(f"u{rng.randrange(n)},{rng.randrange(n)}")
    for _ in range(rng.randrange(1, 2 * n + 2)):
        ops.append(f"c{rng.randrange(n)}")
    if rng.random() < 0.05:
        ops.append(rng.choice([f"c{n}", f"u0,{n}", "nq", "nl:", "c", f"nl:{n + 3}"]))     # malformed: both sides say bad-op
    return ";".join(nodes + ops)


def run_collect(res, tier, seed):
    """M-collect vs `Collector::collect` (hook ide::verif_collect_script): random tables incl. cyclic ones, requests in random order"""
    rng = random.Random(seed * 29 + 3)
    n = 3000 if tier == "quick" else 60000
    reqs = ["collect\t" + gen_collect_script(rng) for _ in range(n)]
    # the finding's own shape first: a cycle asked for from two ends
    reqs = ["collect\tnl:1;nt:0,2;nk7;c0;c1;c2", "collect\tnl:1;nt:0,2;nk7;c1;c0;c2", "collect\tnl:0;c0"] + reqs
    io, mo = common.run_both_chunked(reqs)
    res.cov["evaluations"] += len(reqs)
    cyc = 0
    for rq, a, b in zip(reqs, io, mo):
        if a != b:
            res.disagreements.append((rq, a, b))
        if a.startswith("PANIC") or a.startswith("OOF"):
            res.add_violation("C10/panic/collector", f"Collector::collect does not answer on a table: {a[:200]}", {"request": rq, "impl": a, "model": b})
        if "?" in a:
            cyc += 1
    res.cov["collect"] = f"{len(reqs)} tables, {cyc} with a cyclic type cut by the placeholder"


PROOF_MODULES = {"C10": ["Glas.Props.C10", "Glas.Props.C10Collect"], "C20": ["Glas.Props.C20"]}


def run(prop, res, tier, seed):
    res.assumptions += [
        "queries run in-process under catch_unwind through the public Analysis API; stack overflow and non-termination would kill or hang the harness and are reported as such",
    ]
    try:
        res.extra.update(common.prove(prop, PROOF_MODULES[prop]))
    except Broken as b:
        res.add_broken(b.what, b.detail)
    run_sweeps(res, tier, seed, prop)
    if prop == "C10":
        run_collect(res, tier, seed)
        if res.disagreements:
            rq, a, b = res.disagreements[0]
            res.add_broken("correspondence model-vs-implementation (M-collect vs Collector::collect through ide::verif_collect_script)",
                           f"{len(res.disagreements)} disagreeing cases; first: {rq} impl={a!r} model={b!r}")
    if prop == "C20":
        # the ranges as the server SENDS them (after the conversion to line / column in the negotiated position encoding):
        # sliced in the editor's copy they must be the identifier
        import p_text
        p_text.run_c14_e2e(res, tier, seed, prop="C20")


def replay(prop, path):
    r = json.load(open(path))
    rp = r.get("replay", {})
    if "files" not in rp:
        print(json.dumps(r, indent=1)[:3000])
        return 0
    common.build_harness()
    ws = Ws([(f["path"], f["text"]) for f in rp["files"]], "replay")
    out = p_ide.run_workspaces([(ws, [rp["query"]])])
    print("query:", rp["query"])
    print("impl :", out[0][0][:3000])
    return 0
