"""C10 / C20: every query at every token boundary of every file of generated, damaged and rewired
workspaces (harness command `sweep`).  C10: no query may panic.  C20: every reported range must be
a node/token range of the file it names (a token for name-like results), inside the text, on
character boundaries."""
import json, os, random, re
import common, gen_scope, gen_gleam, p_ide, p_syntax
from common import hexs, Broken


class Ws:
    def __init__(self, files, label):
        self.files = files
        self.label = label


def damaged_workspaces(rng, n):
    out = []
    alpha = p_syntax.CORE + p_syntax.EXTRA
    for i in range(n):
        k = i % 8
        base = gen_scope.generate(rng.randrange(1 << 30))
        files = [list(f) for f in base.files]
        gl = [j for j, (p, t) in enumerate(files) if p.endswith(".gleam")]
        j = rng.choice(gl)
        t = files[j][1]
        if k == 0:
            out.append(Ws([tuple(f) for f in files], "well-formed"))
            continue
        if k == 1:
            for _ in range(rng.randrange(1, 4)):
                t = p_syntax.mutate(rng, t, alpha)
            label = "token-damage"
        elif k == 2:
            t = t[:rng.randrange(len(t) + 1)]
            label = "truncated"
        elif k == 3:
            lines = t.split("\n")
            a = rng.randrange(len(lines))
            b = rng.randrange(a, min(len(lines), a + 8))
            t = "\n".join(lines[:b] + lines[a:b] + lines[b:])
            label = "duplicated-items"
        elif k == 4:
            # import rewiring: cycles and self-imports
            names = [os.path.basename(p)[:-6] for p, _ in files if p.endswith(".gleam")]
            me = os.path.basename(files[j][0])[:-6]
            tgt = rng.choice(names)
            t = f"import {tgt}.{{{rng.choice(['f', 'g', 'a', 'x', 'T', 'A'])}}}\nimport {rng.choice(names)}\n" + t
            other = rng.choice(gl)
            files[other][1] = f"import {me}.{{{rng.choice(['f', 'g', 'a', 'x'])}}}\n" + files[other][1]
            label = "import-rewired" + ("-self" if tgt == me else "")
        elif k == 5:
            t = rng.choice(["", "\n", "// é💣\n", "é", "\"", "fn", "💣💣💣", "fn f() { \"é💣\" }\n// ℝ"])
            label = "degenerate-file"
        elif k == 6:
            g = gen_gleam.Gen(rng)
            t = gen_gleam.render(g.module(), rng)
            label = "untyped-syntax-soup"
        else:
            # clauses with more patterns than subjects / fewer; unknown names; odd arities
            t = t.replace(" -> ", ", zz -> ", 1) if rng.random() < 0.5 else t.replace("case ", "case q, ", 1)
            label = "arity-damage"
        files[j][1] = t
        out.append(Ws([tuple(f) for f in files], label))
    return out


def alias_cycle(files):
    """does some file declare a (mutually) recursive type alias?"""
    for p, t in files:
        if not p.endswith(".gleam"):
            continue
        body = {}
        t = re.sub(r"//[^\n]*", " ", t)
        t = re.sub(r"\s+", " ", t)
        for m in re.finditer(r"\btype\s+([A-Z][0-9a-zA-Z]*)\s*(?:\([^)]*\))?\s*=([^\n{}]*(?:\n\s*[^\n{}=]*)?)", t):
            body[m.group(1)] = set(re.findall(r"\b[A-Z][0-9a-zA-Z]*\b", m.group(2)))
        def reach(a, seen):
            for b in body.get(a, ()):
                if b in seen:
                    continue
                seen.add(b)
                reach(b, seen)
            return seen
        for a in body:
            if a in reach(a, set()):
                return True
    return False


def run_isolated(batches):
    """like p_ide.run_workspaces, but a workspace that kills the harness (abort, stack overflow) is
    identified by re-running the failing chunk one workspace per process; its answers are ['ABORT rc=…']"""
    try:
        return p_ide.run_workspaces(batches)
    except Broken:
        pass
    out = []
    def one(b):
        try:
            return p_ide.run_workspaces([b])[0]
        except Broken as e:
            return ["ABORT " + str(e.detail)[:80]] * len(b[1])
    return common.parallel_map(one, batches)


def parse_sweep(line):
    head, *parts = line.split(" | ")
    stats = dict(kv.split("=") for kv in head.split(" ") if "=" in kv)
    panics, bad, first = [], [], []
    for p in parts:
        m = re.match(r"PANIC\[(\d+)x first@(\d+)\] (\S+) (.*)", p)
        if m:
            panics.append((m.group(3), m.group(4), int(m.group(1)), int(m.group(2))))
            continue
        m = re.match(r"BAD\[(\d+)x\] (.*)", p)
        if m:
            bad.append((m.group(2), int(m.group(1))))
            continue
        if p.startswith("FIRST "):
            first.append(p[6:])
    return stats, panics, bad, first


def run_sweeps(res, tier, seed, want):
    rng = random.Random(seed)
    n = 160 if tier == "quick" else 3000
    wss = damaged_workspaces(rng, n)
    batches = [(ws, [f"sweep\t{i}" for i, (p, t) in enumerate(ws.files) if p.endswith(".gleam")]) for ws in wss]
    answers = run_isolated(batches)
    labels = {}
    nq = 0
    for ws, (w, qs), ans in zip(wss, batches, answers):
        labels[ws.label] = labels.get(ws.label, 0) + 1
        if ans and ans[0].startswith("ABORT"):
            if want == "C10":
                key = "C10/abort/recursive-type-alias" if alias_cycle(ws.files) else "C10/abort/" + ws.label
                res.add_violation(key, f"the process aborts (stack overflow or abort) while answering queries on a {ws.label} workspace",
                                  {"files": [{"path": p, "text": t} for p, t in ws.files], "query": qs[0], "impl": ans[0], "label": ws.label})
            continue
        for q, a in zip(qs, ans):
            if a.startswith("PANIC"):
                if want == "C10":
                    res.add_violation("C10/sweep-itself-panicked", a[:200], {"files": [{"path": p, "text": t} for p, t in ws.files], "query": q, "impl": a[:400]})
                continue
            stats, panics, bad, first = parse_sweep(a)
            nq += int(stats.get("queries", 0))
            if want == "C10":
                for (query, loc, cnt, off) in panics:
                    if "cycle" in loc and "salsa" in loc:
                        key = "C10/panic/salsa-cycle-on-cyclic-imports"
                    else:
                        key = "C10/panic/" + re.sub(r"^/repo/", "", loc.split(" ")[0]) + "/" + query
                    res.add_violation(key, f"{query} panics at {loc} ({cnt} offsets, first at offset {off}) on a {ws.label} workspace",
                                      {"files": [{"path": p, "text": t} for p, t in ws.files], "query": q, "first_offset": off, "impl": a[:600], "label": ws.label})
            else:
                for (k, cnt) in bad:
                    fb = next((f for f in first if f.startswith(k)), "")
                    res.add_violation("C20/" + k, f"{cnt} reported ranges are not what the property demands: {k} (first: {fb}) on a {ws.label} workspace",
                                      {"files": [{"path": p, "text": t} for p, t in ws.files], "query": q, "first": fb, "impl": a[:600], "label": ws.label})
    res.cov["evaluations"] += nq
    res.cov["distinct_nontrivial"] = sum(v for k, v in labels.items() if k != "well-formed")
    res.cov["workspace_distribution"] = labels
    res.cov["rule"] = (f"{n} workspaces of 1-3 modules: well-formed, token/character damage, truncation, duplicated items, rewired imports "
                       "(cycles, self-imports), degenerate files (empty, non-ASCII, lone quote), syntax soup from the reference grammar, arity "
                       "damage in case clauses; in every file, at every token boundary: hover, go-to-definition, references, highlight, completion "
                       "(plain, `.`, `@`), signature help, prepare-rename, rename (both name classes); per file: diagnostics, semantic "
                       "highlighting, syntax tree. non-trivial = damaged workspace")
    res.cov["samples"] += [{"workspace": wss[i].label, "answer": answers[i][0][:300]} for i in (0, 1, min(9, len(wss) - 1))]


PROOF_MODULES = {"C10": ["Glas.Props.C10"], "C20": ["Glas.Props.C20"]}


def run(prop, res, tier, seed):
    res.assumptions += [
        "queries run in-process under catch_unwind through the public Analysis API; stack overflow and non-termination would kill or hang the harness and are reported as such",
    ]
    try:
        res.extra.update(common.prove(prop, PROOF_MODULES[prop]))
    except Broken as b:
        res.add_broken(b.what, b.detail)
    run_sweeps(res, tier, seed, prop)


def replay(prop, path):
    r = json.load(open(path))
    rp = r.get("replay", {})
    if "files" not in rp:
        print(json.dumps(r, indent=1)[:3000])
        return 0
    common.build_harness()
    ws = Ws([(f["path"], f["text"]) for f in rp["files"]], "replay")
    out = p_ide.run_workspaces([(ws, [rp["query"]])])
    print("query:", rp["query"])
    print("impl :", out[0][0][:3000])
    return 0
