#!/bin/bash
# usage: benign_all.sh <nlanes> : distribute benign patches over lanes 1..n
n=$1
props_for() {
  case "$1" in
    Gsyntax*|Hkind*) echo "C01 C02 C03 C04 C10";;
    Fsyntax*) echo "C01 C02 C03 C04 C10 C20 C05 C19";;
    Gdef*) echo "C05 C06 C07 C08 C18 C09 C11";;
    Hren*) echo "C06 C07 C08 C05";;
    Gty*) echo "C09 C10 C11";;
    Gide*|Hhost*) echo "C10 C20 C19 C18 C11";;
    Fide*) echo "C05 C06 C07 C08 C09 C10 C11 C18 C19 C20";;
    Gglas*|Hserver*|Fglas*) echo "C13 C14 C15 C17 C19 C20";;
  esac
}
i=0
for f in /verif/benign/*.diff; do
  b=$(basename $f .diff)
  lane=$(( i % n + 1 ))
  echo "$f $(props_for $b)" >> /root/lanes/queue-$lane.txt
  i=$((i+1))
done
for lane in $(seq 1 $n); do
  ( while read f props; do /root/lanes/lane.sh $lane $f $props; done < /root/lanes/queue-$lane.txt > /root/lanes/benign-$lane.txt 2>&1 ) &
done
wait
