"""C06 / C07 / C08: find-references, highlight, rename through `ide::Analysis`.
Theorems: lean/Glas/Props/{C06,C07,C08}.lean.  The model of the search layer (Lean driver command
`refs`) is instantiated with the implementation's own classification (its go-to-definition answers)
and must predict its references; the oracles evaluate the properties on the implementation."""
import json, os, random, re
import common, gen_scope, p_ide
from common import hexs, unhexs, Broken
from p_ide import run_workspaces, parse_target

CASTABLE = {"NAME", "NAME_REF", "TYPE_NAME", "LABEL"}


class Tok:
    __slots__ = ("file", "start", "stop", "kind", "parent", "grand", "text", "goto", "prepare", "idx")

    def __init__(self, file, s):
        rng, kind, parent, grand, text = s.split(":", 4)
        a, b = rng.split("-")
        self.file, self.start, self.stop = file, int(a), int(b)
        self.kind, self.parent, self.grand, self.text = kind, parent, grand, text
        self.goto = None
        self.prepare = None


def parse_idents(file, line):
    if line in ("empty", "") or line.startswith("PANIC"):
        return []
    return [Tok(file, s) for s in line.split(";")]


def parse_refs(line):
    if line in ("none", "empty") or line.startswith("PANIC"):
        return None if line == "none" else []
    out = []
    for r in line.split(";"):
        f, rg = r.split(":")
        a, b = rg.split("-")
        out.append((int(f), int(a), int(b)))
    return out


def n_gleam(ws):
    return [i for i, (p, t) in enumerate(ws.files) if p.endswith(".gleam")]


def graph_files(ws):
    """the modules of the packages of the package graph: the .gleam files of every source root that holds a package's gleam.toml"""
    roots = getattr(ws, "roots", None)
    if not roots:
        return n_gleam(ws)
    tomls = {toml for (_, toml, _, _) in ws.pkgs}
    return sorted(i for (_, idxs) in roots if tomls & set(idxs) for i in idxs if ws.files[i][0].endswith(".gleam"))


def stage1(wss):
    """idents, then goto + prepare at every identifier token"""
    ans = run_workspaces([(ws, [f"idents\t{i}" for i in n_gleam(ws)]) for ws in wss])
    all_toks = []
    for ws, a in zip(wss, ans):
        toks = []
        for i, line in zip(n_gleam(ws), a):
            toks += parse_idents(i, line)
        for k, t in enumerate(toks):
            t.idx = k
        all_toks.append(toks)
    qs = []
    for ws, toks in zip(wss, all_toks):
        q = []
        for t in toks:
            q.append(f"goto\t{t.file}\t{t.start}")
            q.append(f"prepare\t{t.file}\t{t.start}")
        qs.append((ws, q))
    ans = run_workspaces(qs)
    for toks, a in zip(all_toks, ans):
        for k, t in enumerate(toks):
            t.goto = parse_target(a[2 * k])
            t.prepare = a[2 * k + 1]
    return all_toks


def decl_token(toks, target):
    """the declaration's own name token: first identifier token inside the focus range"""
    f, a, b = target[0], target[1], target[2]
    c = [t for t in toks if t.file == f and a <= t.start and t.stop <= b]
    return min(c, key=lambda t: t.start) if c else None


def ws_replay(ws, query, **kw):
    d = {"files": [{"path": p, "text": t} for p, t in ws.files], "query": query}
    d.update(kw)
    return d


class PlainWs:
    """a workspace given by its files only (same interface as gen_scope.Workspace for the refs checks)"""
    def __init__(self, files):
        self.files = files
        self.binders = []
        self.occs = []
        self.modules = []


def record_workspace(rng):
    """records used across modules: the type is declared in `ma`, `mb` imports it, constructs and returns values,
    `mc` imports only `mb` (or both) and accesses fields of values it gets from `mb` — a field can be used
    without importing the module that declares it.  The occurrences of the first field are known by construction
    (`groups`): the declaration first, then every label / access that denotes it."""
    f1, f2 = rng.sample(["p", "q", "size", "name", "item"], 2)
    two = rng.random() < 0.5
    local_twin = rng.random() < 0.4          # the importing module declares its own Rec with a field of the same name
    ty = f"pub type Rec {{\n  Rec({f1}: Int, {f2}: Int)\n" + (f"  Other({f1}: Int)\n" if two else "") + "}\n"
    # the module ends in an identifier, with or without a final newline
    eof_nl = "\n" if rng.random() < 0.4 else ""
    # … and has a reference behind a string literal that contains `//` and one behind a `/` operator on the same line
    # (a comment with 2-, 3-byte characters in front: byte offsets and character counts differ by 16 at the end of the file)
    ma = ("// данные ✓ 日本語 €\n" + ty + f"pub fn fresh() {{\n  Rec({f1}: 1, {f2}: 2)\n}}\npub const base = 1\n"
          "pub fn url() {\n  #(\"https://example.org/a\", base, 4 / base)\n}\n// base is not a reference here\n"
          "pub const last = base" + eof_nl)
    twin = (f"pub type Mine {{\n  Rec({f1}: Int)\n}}\npub fn mine() {{\n  Rec({f1}: 5)\n}}\n" if local_twin else "")
    mb = (f"import ma\n" + twin + f"pub fn make() {{\n  ma.Rec({f2}: 2, {f1}: 1)\n}}\n"
          f"pub fn get(r: ma.Rec) {{\n  r.{f1}\n}}\n"
          f"pub fn pat(r: ma.Rec) {{\n  case r {{\n    ma.Rec({f1}: a, ..) -> a\n" + ("    ma.Other(..) -> 0\n" if two else "") + "  }\n}\n")
    imp = "import mb\n" + ("import ma\n" if rng.random() < 0.4 else "")
    mc = (imp + f"pub fn use_it() {{\n  mb.make().{f1} + mb.get(mb.make())\n}}\n"
          f"pub fn again() {{\n  let r = mb.make()\n  r.{f1}\n}}\n")
    ws = PlainWs([("/w/p/src/ma.gleam", ma), ("/w/p/src/mb.gleam", mb), ("/w/p/src/mc.gleam", mc), ("/w/p/gleam.toml", 'name = "p"\n')])
    def at(fi, text, needle, k=0):
        return (fi, len(text[:text.index(needle) + k].encode("utf-8")))      # byte offset
    if not two:      # with a second variant carrying the label, `r.f` denotes the common field of both
        group = [at(0, ma, f"Rec({f1}: Int", 4), at(0, ma, f"Rec({f1}: 1", 4),
                 at(1, mb, f"{f1}: 1)", 0), at(1, mb, f"r.{f1}", 2), at(1, mb, f"ma.Rec({f1}: a", 7),
                 at(2, mc, f"mb.make().{f1}", 10), at(2, mc, f"  r.{f1}", 4)]
        ws.groups = [(f1, group)]
        if local_twin:
            ws.groups.append((f1, [at(1, mb, f"Rec({f1}: Int)", 4), at(1, mb, f"Rec({f1}: 5)", 4)]))
    ws.groups = getattr(ws, "groups", []) + [("base", [at(0, ma, "const base", 6), at(0, ma, "\", base", 3), at(0, ma, "/ base", 2), at(0, ma, "= base", 2)])]
    # the constructor itself: declaration, unqualified use, qualified uses in an expression and in a pattern
    cgroup = [at(0, ma, f"  Rec({f1}: Int", 2), at(0, ma, f"  Rec({f1}: 1", 2), at(1, mb, f"ma.Rec({f2}: 2", 3), at(1, mb, f"ma.Rec({f1}: a", 3)]
    ws.groups = getattr(ws, "groups", []) + [("Rec", cgroup)]
    if local_twin:
        ws.groups.append(("Rec", [at(1, mb, f"  Rec({f1}: Int)", 2), at(1, mb, f"  Rec({f1}: 5)", 2)]))
    return ws


def variant_label_workspace(rng):
    """a label shared by the first and another variant but not by all (`Origin` has none): each variant's field is its own
    symbol; labelled patterns and constructions of both variants, in the declaring module and through a qualifier"""
    lab = rng.choice(["name", "tag", "id"])
    o1, o2 = rng.sample(["radius", "side", "w"], 2)
    ma = (f"pub type Shape {{\n  Circle({o1}: Int, {lab}: String)\n  Square({o2}: Int, {lab}: String)\n  Origin\n}}\n\n"
          f"pub fn mk() {{\n  Square({o2}: 2, {lab}: \"s\")\n}}\n\npub fn mc() {{\n  Circle({lab}: \"c\", {o1}: 3)\n}}\n")
    mb = (f"import ma\n\npub fn f(s: ma.Shape) {{\n  case s {{\n    ma.Circle({lab}: n, ..) -> n\n    ma.Square({lab}: m, {o2}: _) -> m\n    ma.Origin -> \"\"\n  }}\n}}\n\n"
          f"pub fn g() {{\n  ma.Square({lab}: \"q\", {o2}: 1)\n}}\n\npub fn h() {{\n  ma.Circle({o1}: 1, {lab}: \"c\")\n}}\n")
    ws = PlainWs([("/w/p/src/ma.gleam", ma), ("/w/p/src/mb.gleam", mb), ("/w/p/gleam.toml", 'name = "p"\n')])
    def at(fi, text, needle, k=0):
        return (fi, len(text[:text.index(needle) + k].encode("utf-8")))      # byte offset
    ws.groups = [
        (lab, [at(0, ma, f"Int, {lab}: String)\n  Square", 5), at(0, ma, f"Circle({lab}: \"c\"", 7), at(1, mb, f"ma.Circle({lab}: n", 10), at(1, mb, f"{o1}: 1, {lab}: \"c\"", len(o1) + 5)]),
        (lab, [at(0, ma, f"{o2}: Int, {lab}: String", len(o2) + 7), at(0, ma, f"{o2}: 2, {lab}: \"s\"", len(o2) + 5), at(1, mb, f"ma.Square({lab}: m", 10), at(1, mb, f"ma.Square({lab}: \"q\"", 10)]),
    ]
    return ws


def deep_module_workspace(rng):
    """modules two to five path segments deep, imported plainly (the qualifier is the LAST segment), with an alias, and with
    unqualified members; the importing module declares look-alikes of its own.  Occurrences known by construction."""
    depth = rng.randrange(2, 6)
    segs = rng.sample(["app", "web", "core", "http", "inner", "v2"], depth - 1) + ["router"]
    path = "/".join(segs)
    segs2 = rng.sample(["lib", "data", "codec", "json"], rng.randrange(2, 4)) + ["session"]
    path2 = "/".join(segs2)
    router = "pub type Route {\n  Home\n  About(id: Int)\n}\n\npub fn handle(r: Route) {\n  case r {\n    Home -> 0\n    About(id) -> id\n  }\n}\n\npub const limit = 3\n"
    session = "pub fn open() {\n  1\n}\n\npub type Token {\n  Token(raw: Int)\n}\n"
    twin = rng.random() < 0.6
    main = (f"import {path}\nimport {path2} as ss\nimport {path2}.{{open as begin}}\n\n" +
            ("pub type Route {\n  Local\n}\n\npub fn handle() {\n  Local\n}\n\n" if twin else "") +
            "pub fn main() {\n  let a = router.handle(router.About(router.limit))\n  let b = ss.open()\n  let t = ss.Token(begin())\n  #(a, b, t.raw)\n}\n\n"
            "pub fn pick(r: router.Route) {\n  case r {\n    router.Home -> 1\n    router.About(id: n) -> n\n  }\n}\n")
    ws = PlainWs([(f"/w/p/src/{path}.gleam", router), (f"/w/p/src/{path2}.gleam", session), ("/w/p/src/main.gleam", main), ("/w/p/gleam.toml", 'name = "p"\n')])
    def at(fi, text, needle, k=0):
        return (fi, len(text[:text.index(needle) + k].encode("utf-8")))      # byte offset
    ws.groups = [
        ("handle", [at(0, router, "fn handle", 3), at(2, main, "router.handle(", 7)]),
        ("About", [at(0, router, "  About(id", 2), at(0, router, "    About(id)", 4), at(2, main, "router.About(router", 7), at(2, main, "router.About(id: n", 7)]),
        ("Home", [at(0, router, "  Home\n", 2), at(0, router, "    Home ->", 4), at(2, main, "router.Home", 7)]),
        # (`router.limit`, a qualified constant, is the recorded finding C05/qualified-constant and is left out of the groups)
        ("Route", [at(0, router, "type Route", 5), at(0, router, "r: Route", 3), at(2, main, "r: router.Route", 10)]),
        ("open", [at(1, session, "fn open", 3), at(2, main, "ss.open()", 3)]),
    ]
    return ws


def accessor_clash_workspace(rng):
    """two modules are imported under the same accessor by different modules (x/util in main, y/util in the library), both
    export the same names; the library's constructors have fields whose types are aliases, generic types and types of its
    own imports, so that analysing main has to look into the library's scope and come back.  Qualified references in main
    - before, between and after uses of the library's constructors, in the same block and in nested ones - mean x/util."""
    fn = rng.choice(["show", "render", "to_text"])
    xu = f"pub fn {fn}(v) {{\n  v\n}}\n\npub const limit = 1\n\npub type Tag {{\n  Tag(n: Int)\n}}\n"
    yu = f"pub fn {fn}(v) {{\n  #(v, v)\n}}\n\npub const limit = 2\n\npub type Tag {{\n  Tag(s: String)\n}}\n"
    lib = (f"import y/util\n\npub type Id = Int\n\npub type Pair(a) = #(a, a)\n\npub type User {{\n  User(id: Id, tag: util.Tag)\n  Guest(ids: Pair(Id))\n}}\n\n"
           f"pub fn describe(u: User) {{\n  util.{fn}(u)\n}}\n")
    main = (f"import x/util\nimport lib\n\npub fn main() {{\n  let a = util.{fn}(1)\n  let u = lib.User(2, todo)\n  let b = util.{fn}(u.id)\n"
            f"  let c = case u {{\n    lib.User(id: i, ..) -> util.{fn}(i)\n    lib.Guest(_) -> util.{fn}(0)\n  }}\n  let d = {{\n    let g = lib.Guest(#(1, 2))\n    util.{fn}(g)\n  }}\n"
            f"  let t = util.Tag(3)\n  #(a, b, c, d, t, util.{fn}(lib.describe(u)))\n}}\n")
    files = [("/w/p/src/x/util.gleam", xu), ("/w/p/src/y/util.gleam", yu), ("/w/p/src/lib.gleam", lib), ("/w/p/src/main.gleam", main), ("/w/p/gleam.toml", 'name = "p"\n')]
    ws = PlainWs(files)
    def at(fi, text, needle, k=0, nth=0):
        i = -1
        for _ in range(nth + 1):
            i = text.index(needle, i + 1)
        return (fi, len(text[:i + k].encode("utf-8")))
    uses = [at(3, main, f"util.{fn}(", 5, n) for n in range(main.count(f"util.{fn}("))]
    ws.groups = [
        (fn, [at(0, xu, f"fn {fn}", 3)] + uses),
        ("Tag", [at(0, xu, "  Tag(n", 2), at(3, main, "util.Tag(3)", 5)]),
    ]
    return ws


def local_like_module_workspace(rng):
    """a LOCAL spelled like an imported module: `import user.{type User, User}` and a value `user` bound by `let`, by a
    clause pattern, as an annotated lambda parameter and as a function parameter; `user.name` on it is the record FIELD,
    while `user.name(..)` where no local is in scope is the module's FUNCTION of the same name.  Occurrences known by construction."""
    mod = rng.choice(["user", "item", "node"])
    ty = mod.capitalize()
    f1, f2 = rng.sample(["name", "label", "size"], 2)
    lib = (f"pub type {ty} {{\n  {ty}({f1}: String, {f2}: Int)\n}}\n\n"
           f"pub fn {f1}(v: {ty}) {{\n  v.{f1}\n}}\n\npub fn {f2}_of(v: {ty}) {{\n  v.{f2}\n}}\n")
    main = (f"import {mod}.{{type {ty}, {ty}}}\n\n"
            f"pub fn by_let() {{\n  let {mod} = {ty}(\"a\", 1)\n  {mod}.{f1}\n}}\n\n"
            f"pub fn by_nested_let() {{\n  let {mod} = {ty}(\"b\", 2)\n  {{\n    let n = {mod}.{f2}\n    #(n, {mod}.{f1})\n  }}\n}}\n\n"
            f"pub fn by_clause() {{\n  case {ty}(\"c\", 3) {{\n    {mod} -> {mod}.{f1}\n  }}\n}}\n\n"
            f"pub fn by_lambda() {{\n  fn({mod}: {ty}) {{ {mod}.{f1} }}\n}}\n\n"
            f"pub fn by_param({mod}: {ty}) {{\n  {mod}.{f1}\n}}\n\n"
            f"pub fn qualified() {{\n  {mod}.{f1}({ty}(\"d\", 4))\n}}\n")
    files = [(f"/w/p/src/{mod}.gleam", lib), ("/w/p/src/main.gleam", main), ("/w/p/gleam.toml", 'name = "p"\n')]
    ws = PlainWs(files)
    def at(fi, text, needle, k=0, nth=0):
        i = -1
        for _ in range(nth + 1):
            i = text.index(needle, i + 1)
        return (fi, len(text[:i + k].encode("utf-8")))
    nacc = main.count(f"{mod}.{f1}") - 1          # all but the qualified call (the last one)
    # recorded finding: the annotation of a lambda parameter is ignored by inference (the repository's own failing test
    # infer_annotated_lambda), so the field access on it is not resolved and the name falls through to the module
    ws.known = {at(1, main, f"{{ {mod}.{f1} }}", 3 + len(mod)): "lambda-parameter-spelled-like-module"}
    ws.groups = [
        (f1, [at(0, lib, f"({f1}: String", 1), at(0, lib, f"v.{f1}", 2)] + [at(1, main, f"{mod}.{f1}", len(mod) + 1, n) for n in range(nacc)]),
        (f1, [at(0, lib, f"fn {f1}(", 3), at(1, main, f"{mod}.{f1}(", len(mod) + 1)]),
        (f2, [at(0, lib, f", {f2}: Int", 2), at(0, lib, f"v.{f2}", 2), at(1, main, f"{mod}.{f2}", len(mod) + 1)]),
    ]
    return ws


def namespace_clash_workspace(rng):
    """one local name imported twice: as a type from one module (`import shape.{type T}`) and as a value from another module
    that also declares a public type of that name (`import token.{T}`, token has `pub type T { T }`), in either order.
    In type position the name means shape's type, in value position token's constructor."""
    tn = rng.choice(["T", "Item", "Res"])
    shape = f"pub type {tn} {{\n  Circle\n  Square\n}}\n"
    token = f"pub type {tn} {{\n  {tn}\n  Other\n}}\n\npub type Unrelated {{\n  Unrelated\n}}\n"
    imps = [f"import shape.{{type {tn}}}", f"import token.{{{tn}}}"]
    if rng.random() < 0.5:
        imps.reverse()
    main = "\n".join(imps) + f"\n\npub fn pick(s: {tn}) -> {tn} {{\n  let v = {tn}\n  let w: {tn} = s\n  w\n}}\n\npub fn make() {{\n  {tn}\n}}\n"
    files = [("/w/p/src/shape.gleam", shape), ("/w/p/src/token.gleam", token), ("/w/p/src/main.gleam", main), ("/w/p/gleam.toml", 'name = "p"\n')]
    ws = PlainWs(files)
    def at(fi, text, needle, k=0, nth=0):
        i = -1
        for _ in range(nth + 1):
            i = text.index(needle, i + 1)
        return (fi, len(text[:i + k].encode("utf-8")))
    ws.groups = [
        (tn, [at(0, shape, f"type {tn}", 5), at(2, main, f"(s: {tn})", 4), at(2, main, f"-> {tn} {{", 3), at(2, main, f"w: {tn} =", 3)]),
        (tn, [at(1, token, f"  {tn}\n", 2), at(2, main, f"v = {tn}", 4), at(2, main, f"{{\n  {tn}\n}}", 4)]),
    ]
    return ws


def rebind_workspace(rng):
    """binders that re-use the name of something their own initialiser / call still mentions: `use req <- middleware(req, ctx)`,
    `let x = f(x)`, a clause pattern named like the subject, a lambda parameter named like a captured variable.  The mention on
    the right means the OUTER binder.  Occurrences known by construction."""
    nm = rng.choice(["req", "state", "acc"])
    text = (f"pub fn middleware({nm}, ctx, next) {{\n  next(#({nm}, ctx))\n}}\n\n"
            f"pub fn handle({nm}, ctx) {{\n  use {nm} <- middleware({nm}, ctx)\n  let {nm} = wrap({nm})\n  case {nm} {{\n    [{nm}] -> wrap({nm})\n    _ -> {nm}\n  }}\n}}\n\n"
            f"pub fn wrap(v) {{\n  [v]\n}}\n\n"
            f"pub fn later({nm}) {{\n  let f = fn({nm}) {{ wrap({nm}) }}\n  f({nm})\n}}\n")
    files = [("/w/p/src/m1.gleam", text), ("/w/p/gleam.toml", 'name = "p"\n')]
    ws = PlainWs(files)
    def at(needle, k=0, nth=0):
        i = -1
        for _ in range(nth + 1):
            i = text.index(needle, i + 1)
        return (0, len(text[:i + k].encode("utf-8")))
    h = text.index("pub fn handle")
    def ath(needle, k=0, nth=0):
        i = h - 1
        for _ in range(nth + 1):
            i = text.index(needle, i + 1)
        return (0, len(text[:i + k].encode("utf-8")))
    l = text.index("pub fn later")
    def atl(needle, k=0, nth=0):
        i = l - 1
        for _ in range(nth + 1):
            i = text.index(needle, i + 1)
        return (0, len(text[:i + k].encode("utf-8")))
    ws.groups = [
        (nm, [ath(f"handle({nm}", 7), ath(f"middleware({nm}, ctx)", 11)]),                       # the parameter and the argument of the use call
        (nm, [ath(f"use {nm}", 4), ath(f"wrap({nm})", 5)]),                                       # the use binder and the initialiser of the let
        (nm, [ath(f"let {nm}", 4), ath(f"case {nm}", 5), ath(f"_ -> {nm}", 5)]),                   # the let binder, the subject, the last clause body
        (nm, [ath(f"[{nm}]", 1), ath(f"wrap({nm})", 5, 1)]),                                      # the clause binder and its body
        (nm, [atl(f"later({nm}", 6), atl(f"f({nm})", 2)]),                                        # the parameter of `later` and the argument
        (nm, [atl(f"fn({nm})", 3), atl(f"wrap({nm})", 5)]),                                       # the lambda parameter and its use
    ]
    return ws


def long_module_workspace(rng):
    """a long module in which short names (`e`, `n`, `id`) occur thousands of times as parts of words - in comments, in
    strings, inside longer identifiers - before the few places where they are names of their own"""
    nm = rng.choice(["e", "n", "id", "a"])
    filler = "".join(f"// note {i}: " + (f"{nm} " * rng.randrange(30, 50)) + f"the{nm}n sev{nm}n {nm}{nm}{nm}\n" for i in range(rng.choice([60, 80])))
    strs = "pub fn words() {\n  \"" + (nm + " ") * 200 + "\"\n}\n\n"
    idents = "".join(f"pub fn w{nm}{i}x{nm}() {{\n  {i}\n}}\n\n" for i in range(20))
    tail = (f"pub fn settle({nm}: Int, other: Int) {{\n  let total = {nm} + other\n  case total {{\n    0 -> {nm}\n    _ -> {nm} * total\n  }}\n}}\n\n"
            f"pub fn again({nm}) {{\n  [{nm}, {nm}]\n}}\n")
    text = filler + strs + idents + tail
    files = [("/w/p/src/m1.gleam", text), ("/w/p/src/m2.gleam", "import m1\n\npub fn use_it() {\n  m1.settle(1, 2)\n}\n"), ("/w/p/gleam.toml", 'name = "p"\n')]
    ws = PlainWs(files)
    base = text.index("pub fn settle")
    def at(needle, k=0, nth=0, start=base):
        i = start - 1
        for _ in range(nth + 1):
            i = text.index(needle, i + 1)
        return (0, len(text[:i + k].encode("utf-8")))
    b2 = text.index("pub fn again")
    ws.groups = [
        (nm, [at(f"settle({nm}", 7), at(f"= {nm} +", 2), at(f"0 -> {nm}", 5), at(f"_ -> {nm} *", 5)]),
        (nm, [at(f"again({nm}", 6, 0, b2), at(f"[{nm},", 1, 0, b2), at(f", {nm}]", 2, 0, b2)]),
        ("settle", [at("fn settle", 3), (1, len("import m1\n\npub fn use_it() {\n  m1.".encode()))]),
    ]
    return ws


def lookalike_workspace(rng):
    """look-alike modules (a template instantiated twice): in two files a function sits at exactly the same byte range, one
    module names the library function qualified, the other imports it unqualified; a third declares a local of the same
    name at that range.  Occurrences known by construction."""
    fname = rng.choice(["helper", "fetch", "step"])
    pad = "x" * (len(fname) - 1)            # `import lib // xx…` is as long as `import lib.{<fname>}`
    lib = f"pub fn {fname}(v) {{\n  v\n}}\n\npub fn other() {{\n  {fname}(1)\n}}\n"
    unq = f"import lib.{{{fname}}}\npub fn run(v) {{\n  {fname}(v)//aa\n}}\n"
    qual = f"import lib // {pad}\npub fn run(v) {{\n  lib.{fname}(v)\n}}\n"
    loc = f"import lib // {pad}\npub fn run({fname}) {{\n  lib.{fname}({fname}([1]))\n}}\n" if len(fname) == 4 else None
    assert unq.index("pub fn run") == qual.index("pub fn run") and len(unq) == len(qual)
    order = [("/w/p/src/lib.gleam", lib), ("/w/p/src/qual.gleam", qual), ("/w/p/src/unq.gleam", unq)]
    if rng.random() < 0.5:
        order[1], order[2] = order[2], order[1]
    files = order + [("/w/p/gleam.toml", 'name = "p"\n')]
    ws = PlainWs(files)
    idx = {p.split("/")[-1][:-6]: i for i, (p, _) in enumerate(files) if p.endswith(".gleam")}
    def at(name, text, needle, k=0):
        return (idx[name], len(text[:text.index(needle) + k].encode("utf-8")))
    ws.groups = [
        (fname, [at("lib", lib, f"fn {fname}", 3), at("lib", lib, f"  {fname}(1)", 2), at("unq", unq, f"{{{fname}}}", 1),
                 at("unq", unq, f"  {fname}(v)", 2), at("qual", qual, f"lib.{fname}(v)", 4)]),
    ]
    return ws


def run_expected_groups(res, prop, wss):
    """occurrences known by construction to denote one definition (first = declaration): each must lead to it,
    its references must contain them all and nothing of another group, a rename must rewrite exactly them"""
    batches = []
    for ws in wss:
        q = []
        for name, group in getattr(ws, "groups", []):
            for (f, o) in group:
                q.append(f"goto\t{f}\t{o}")
            q.append(f"refs\t{group[0][0]}\t{group[0][1]}")
            q.append(f"rename\t{group[0][0]}\t{group[0][1]}\t{hexs(name + ('Zq' if name[0].isupper() else '_zq'))}")
        batches.append((ws, q))
    batches = [b for b in batches if b[1]]
    if not batches:
        return
    ans = run_workspaces(batches)
    for (ws, q), a in zip(batches, ans):
        k = 0
        for gi, (name, group) in enumerate(ws.groups):
            decl = group[0]
            others = [m for gj, (_, g2) in enumerate(ws.groups) if gj != gi for m in g2]
            replay = {"files": ws.files, "group": group, "name": name}
            known = getattr(ws, "known", {})
            for (f, o) in group:
                t = parse_target(a[k]); k += 1
                if t is None or (t[0], t[1]) != decl:
                    res.add_violation(f"{prop}/" + known.get((f, o), "expected-occurrence-unresolved"),
                                      f"occurrence of field `{name}` at file {f} offset {o} does not lead to its declaration (answer {a[k - 1][:60]})", replay)
            R = parse_refs(a[k]); k += 1
            Rs = {(f, s) for (f, s, e) in R} if R else set()
            if prop == "C06":
                miss = [m for m in group if m not in Rs]
                extra = [m for m in others if m in Rs]
                for m in [m for m in miss + extra if m in known]:
                    res.add_violation(f"C06/{known[m]}", f"references of `{name}`: the occurrence {m} is {'missing' if m in miss else 'listed for another symbol of that name'}", replay)
                miss = [m for m in miss if m not in known]
                extra = [m for m in extra if m not in known]
                if miss:
                    res.add_violation("C06/expected-occurrence-missing-from-references", f"references of field `{name}` lack the occurrence(s) {miss[:3]}", replay)
                if extra:
                    res.add_violation("C06/references-contain-other-symbol", f"references of field `{name}` contain occurrence(s) of another field of that name {extra[:3]}", replay)
            ren = a[k]; k += 1
            if prop == "C07":
                if not ren.startswith("ok "):
                    res.add_violation("C07/expected-rename-refused", f"rename of field `{name}` refused: {ren[:80]}", replay)
                else:
                    edits = set()
                    for e in ren[3:].split(";"):
                        if e and e != "-":
                            f, r, _ = e.split(":")
                            edits.add((int(f), int(r.split("-")[0])))
                    miss = [m for m in group if m not in edits]
                    extra = [m for m in others if m in edits]
                    for m in [m for m in miss + extra if m in known]:
                        res.add_violation(f"C07/{known[m]}", f"rename of `{name}`: the occurrence {m} is {'left behind' if m in miss else 'rewritten although it denotes another symbol of that name'}", replay)
                    miss = [m for m in miss if m not in known]
                    extra = [m for m in extra if m not in known]
                    if miss:
                        res.add_violation("C07/expected-occurrence-not-renamed", f"rename of field `{name}` leaves the occurrence(s) {miss[:3]} behind", replay)
                    if extra:
                        res.add_violation("C07/rename-rewrites-other-symbol", f"rename of field `{name}` rewrites occurrence(s) of another field {extra[:3]}", replay)
    res.cov["evaluations"] += sum(len(q) for _, q in batches)


# ---------------- C06 ----------------
def run_c06(res, tier, seed):
    n_ws = 150 if tier == "quick" else 2500
    wss = [gen_scope.generate(seed * 7919 + i) for i in range(n_ws)]
    rrng = random.Random(seed + 6)
    wss += [record_workspace(rrng) for _ in range(12 if tier == "quick" else 100)]
    wss += [deep_module_workspace(rrng) for _ in range(6 if tier == "quick" else 60)]
    wss += [lookalike_workspace(rrng) for _ in range(4 if tier == "quick" else 40)]
    wss += [rebind_workspace(rrng) for _ in range(3 if tier == "quick" else 30)]
    wss += [namespace_clash_workspace(rrng) for _ in range(3 if tier == "quick" else 30)]
    wss += [local_like_module_workspace(rrng) for _ in range(3 if tier == "quick" else 30)]
    wss += [long_module_workspace(rrng) for _ in range(2 if tier == "quick" else 12)]
    wss += [accessor_clash_workspace(rrng) for _ in range(3 if tier == "quick" else 30)]
    wss += [variant_label_workspace(rrng) for _ in range(6 if tier == "quick" else 60)]
    # the same single-module workspaces as a FREE-STANDING file: a source root of its own (the file itself, as the server does for a
    # module with no gleam.toml above it) that belongs to no package of the graph
    import copy
    singles = [w for w in wss[:n_ws] if len(w.files) == 2 and not getattr(w, "roots", None)]
    for w in singles[: (10 if tier == "quick" else 120)]:
        f = copy.copy(w)
        f.roots = [(w.files[0][0], [0]), ("/w/p", [1])]
        f.pkgs = [("p", 1, 1, [])]
        wss.append(f)
    run_expected_groups(res, "C06", wss)
    all_toks = stage1(wss)
    # group tokens by definition
    plans = []
    for ws, toks in zip(wss, all_toks):
        defs = {}
        for t in toks:
            if t.goto is not None:
                defs.setdefault(t.goto[:3], []).append(t)
        q, plan = [], []
        for target, members in defs.items():
            dt = decl_token(toks, target)
            ask = dt if (dt is not None and dt.goto is not None and dt.goto[:3] == target) else members[0]
            q.append(f"refs\t{ask.file}\t{ask.start}")
            q.append(f"hl\t{ask.file}\t{ask.start}")
            plan.append((target, members, dt, ask))
        plans.append((q, plan))
    ans = run_workspaces([(ws, q) for ws, (q, _) in zip(wss, plans)])
    res.cov["evaluations"] += sum(len(q) for q, _ in plans) + sum(2 * len(t) for t in all_toks)
    mreqs, mmeta = [], []
    closure_q = []
    distinct = 0
    kinds = {}
    for ws, toks, (q, plan), a in zip(wss, all_toks, plans, ans):
        binders = {(b.file, b.offset): b for b in ws.binders}
        cq = []
        for k, (target, members, dt, ask) in enumerate(plan):
            R = parse_refs(a[2 * k])
            H = a[2 * k + 1]
            if R is None or a[2 * k].startswith("PANIC"):
                continue
            Rset = set(R)
            dname = dt.text if dt is not None else None
            is_local = any((target[0], t.start) in binders for t in toks if t.file == target[0] and target[1] <= t.start < target[2])
            kinds["local" if is_local else "module-level"] = kinds.get("local" if is_local else "module-level", 0) + 1
            if len(members) >= 2:
                distinct += 1
            bad = None
            if len(R) != len(Rset):
                bad = ("C06/duplicates", f"references lists a range twice: {sorted(R)}")
            elif dname is not None:
                for t in toks:
                    if t.text != dname:
                        continue
                    listed = (t.file, t.start, t.stop) in Rset
                    leads = t.goto is not None and t.goto[:3] == target
                    if listed != leads:
                        bad = (classify_c06(ws, toks, target, dt, t, listed), f"`{t.text}` at file {t.file} offset {t.start}: listed={listed} but go-to-definition leads to the declaration={leads}")
                        break
                if bad is None and dt is not None and (dt.file, dt.start, dt.stop) not in Rset:
                    bad = (classify_c06(ws, toks, target, dt, dt, False), "the declaration's own name is not among its references")
            if bad is None:
                hset = set()
                if H not in ("empty", "none") and not H.startswith("PANIC"):
                    for h in H.split(";"):
                        rg = h.split(":")[0]
                        x, y = rg.split("-")
                        hset.add((ask.file, int(x), int(y)))
                if hset != {r for r in Rset if r[0] == ask.file}:
                    bad = ("C06/highlight-differs", f"highlight {sorted(hset)} != references in the file {sorted(r for r in Rset if r[0] == ask.file)}")
            if bad:
                res.add_violation(bad[0], bad[1], ws_replay(ws, f"refs\t{ask.file}\t{ask.start}", impl=a[2 * k], target=list(target)))
            # closure: ask again from (up to two) listed occurrences
            for r in sorted(Rset)[:2]:
                cq.append((f"refs\t{r[0]}\t{r[1]}", Rset, target))
            # model: the search layer instantiated with the implementation's classification
            prep = dt.prepare if dt is not None else None
            if prep is not None and prep.startswith("ok "):
                sname = prep.split(" ", 2)[2]
                ids = {}
                tl = []
                for t in toks:
                    cls = "-" if t.goto is None else str(ids.setdefault(t.goto[:3], len(ids)))
                    tl.append(f"{t.file}:{t.start}:{t.stop}:{1 if t.parent in CASTABLE else 0}:{cls}:{hexs(t.text)}")
                did = ids.setdefault(target, len(ids))
                # the model computes the scope itself (searchScope): it gets the definition's module, whether it is a local,
                # and the modules of the packages of the graph
                scope = f"L:{target[0]}" if is_local else f"G:{target[0]}:{','.join(map(str, graph_files(ws)))}"
                mreqs.append(f"refs\t{did}\t{hexs(sname)}\t{scope}\t{';'.join(tl)}")
                mmeta.append((ws, ask, sorted(Rset)))
        closure_q.append((ws, cq))
    # closure queries
    cans = run_workspaces([(ws, [c[0] for c in cq]) for ws, cq in closure_q])
    for (ws, cq), ca in zip(closure_q, cans):
        for (q, Rset, target), a in zip(cq, ca):
            R2 = parse_refs(a)
            res.cov["evaluations"] += 1
            if R2 is not None and set(R2) != Rset:
                res.add_violation("C06/not-closed", f"asking again from a listed occurrence gives {sorted(set(R2))}, first answer {sorted(Rset)}",
                                  ws_replay(ws, q, impl=a, first=sorted(Rset)))
    if mreqs:
        mo, rc = common.run_lines(common.DRIVER_BIN, mreqs)
        if len(mo) != len(mreqs):
            raise Broken("Lean driver died", f"rc={rc} on refs requests")
        res.cov["evaluations"] += len(mreqs)
        for (ws, ask, R), m in zip(mmeta, mo):
            pm = sorted(parse_refs(m) or [])
            if pm != R:
                res.disagreements.append((f"refs at file {ask.file} offset {ask.start}", R, pm))
    res.cov["distinct_nontrivial"] = distinct
    res.cov["definition_kinds"] = kinds
    res.cov["rule"] = (f"{n_ws} generated multi-module workspaces; every identifier token classified by go-to-definition; for every "
                       "definition reached: references/highlight asked at its declaration, compared with the classification of every token "
                       "spelled with the declaration's name, duplicates, closure under asking again, highlight = references in the file. "
                       "non-trivial = definition with at least two occurrences")
    res.cov["samples"] += [{"model_request": mreqs[0][:300], "model": mo[0][:200]}] if mreqs else []


def classify_c06(ws, toks, target, dt, t, listed):
    binders = {(b.file, b.offset): b for b in ws.binders}
    if dt is not None:
        b = binders.get((dt.file, dt.start))
        if b is not None and b.kind == "spread":
            return "C06/spread-binder-search-name"
        if dt.parent == "LABEL" or dt.grand in ("VARIANT_FIELD",):
            return "C06/field-label"
    return "C06/missing-reference" if not listed else "C06/extra-reference"


# ---------------- C08 ----------------
CANDIDATES = ["abc", "a1_b", "Abc", "A1b", "aB", "Ab_c", "_x", "_", "1", "1.0", '"s"', "+", "", " ", "a b", " a", "a ", "é", "a.b", "a-b", "//c",
              "as", "assert", "case", "const", "external", "fn", "if", "import", "let", "opaque", "panic", "pub", "todo", "type", "use"]


def name_class(s):
    if re.fullmatch(r"[a-z][_a-z0-9]*", s) and s not in gen_scope.__dict__.get("KEYWORDS", set()) and s not in {
            "as", "assert", "case", "const", "external", "fn", "if", "import", "let", "opaque", "panic", "pub", "todo", "type", "use"}:
        return "lower"
    if re.fullmatch(r"[A-Z][0-9a-zA-Z]*", s):
        return "upper"
    return None


C08_FILES = [
    ("/w/p/src/main.gleam",
     "import dep/lib.{dfn, DCons, type DType, dconst}\nimport dep/lib as l\nimport util.{helper as h}\n"
     "pub const k = 1\npub type T {\n  A(p: Int, q: Int)\n  B\n}\npub type Al = T\n"
     "pub fn f(x, lab y: Int) -> T {\n  let z = x\n  let w = dfn(dconst)\n  let DCons(e) = w\n  let v: DType = w\n"
     "  case A(p: z, q: y) {\n    A(p: r, ..) -> r\n    B -> k\n  }\n  l.dfn(1)\n  h()\n  let s: Al = B\n  s.p\n  util.helper()\n  f(z, lab: 1)\n}\n"),
    ("/w/p/src/util.gleam", "pub fn helper() {\n  1\n}\n"),
    ("/w/p/gleam.toml", 'name = "p"\n[dependencies]\ndep = "1.0"\n'),
    ("/w/p/build/packages/dep/src/dep/lib.gleam",
     "pub type DType {\n  DCons(fld: Int)\n}\npub const dconst = 1\npub fn dfn(a) {\n  DCons(fld: a)\n}\n"),
    ("/w/p/build/packages/dep/gleam.toml", 'name = "dep"\n'),
]


def c08_ws_lines():
    lines = ["ws-begin"] + [f"file\t{p}\t{hexs(t)}" for p, t in C08_FILES]
    lines += ["root\t/w/p\t0,1,2", "root\t/w/p/build/packages/dep\t3,4", "pkg\tp\t2\t1\t1", "pkg\tdep\t4\t0\t-", "ws-end"]
    return lines


def run_c08(res, tier, seed):
    pre = c08_ws_lines()
    gle = [0, 1, 3]
    out, rc = common.run_lines(common.HARNESS_BIN, pre + [f"idents\t{i}" for i in gle])
    toks = []
    for i, line in zip(gle, out[len(pre):]):
        toks += parse_idents(i, line)
    q = []
    for t in toks:
        q += [f"goto\t{t.file}\t{t.start}", f"prepare\t{t.file}\t{t.start}"]
        for c in CANDIDATES + [t.text]:        # ... and the name the token already has
            q.append(f"rename\t{t.file}\t{t.start}\t{hexs(c)}")
    out, rc = common.run_lines(common.HARNESS_BIN, pre + q)
    if len(out) != len(pre) + len(q):
        raise Broken("implementation harness died", "during the rename matrix")
    a = out[len(pre):]
    res.cov["evaluations"] += len(q)
    step = 2 + len(CANDIDATES) + 1
    local_files = {0, 1}
    seen_kinds = {}
    for k, t in enumerate(toks):
        goto = parse_target(a[k * step])
        prep = a[k * step + 1]
        target_local = goto is not None and goto[0] in local_files
        # what kind of symbol is it (from the declaration site the implementation reports)
        kind = symbol_kind(toks, goto)
        seen_kinds[kind] = seen_kinds.get(kind, 0) + 1
        any_ok = False
        for j, c in enumerate(CANDIDATES + [t.text]):
            r = a[k * step + 2 + j]
            ok = r.startswith("ok")
            own_name = j == len(CANDIDATES)       # not a fresh name: only "accepted although it must be refused" is judged
            any_ok = any_ok or (ok and not own_name)
            if r.startswith("PANIC"):
                continue
            cls = name_class(c)
            need = {"lower": "lower", "upper": "upper"}.get(kind)
            # an aliased spelling, decided from the text: the token does not spell the definition's own name
            own = None
            if goto is not None:
                m_own = re.match(r"[A-Za-z_][A-Za-z0-9_]*", C08_FILES[goto[0]][1][goto[1]:goto[2]])
                own = m_own.group(0) if m_own else None
            aliased = own is not None and own != t.text
            should = (need is not None and cls == need and target_local and not aliased and goto is not None)
            if ok and not should:
                why = ("name of the wrong class or not a single identifier" if (need is None or cls != need) else
                       "symbol defined outside the local packages" if not target_local else "aliased spelling")
                res.add_violation(f"C08/accepts/{kind}/{'external' if not target_local else 'local'}/{cls or 'invalid'}",
                                  f"rename of `{t.text}` ({kind}) to {c!r} is accepted: {why}",
                                  {"files": [{"path": p, "text": x} for p, x in C08_FILES], "query": f"rename\t{t.file}\t{t.start}\t{hexs(c)}", "impl": r[:300]})
            if ok:
                for e in r[3:].split(";"):
                    if e and e != "-" and int(e.split(":")[0]) not in local_files:
                        res.add_violation("C08/edits-dependency-file", f"rename of `{t.text}` edits a file of a dependency: {e}",
                                          {"files": [{"path": p, "text": x} for p, x in C08_FILES], "query": f"rename\t{t.file}\t{t.start}\t{hexs(c)}", "impl": r[:300]})
            if should and not ok and not own_name:
                res.add_violation(f"C08/refuses-valid/{kind}", f"rename of `{t.text}` ({kind}) to the valid name {c!r} is refused: {r}",
                                  {"files": [{"path": p, "text": x} for p, x in C08_FILES], "query": f"rename\t{t.file}\t{t.start}\t{hexs(c)}", "impl": r[:300]})
        if prep.startswith("ok") != any_ok and not prep.startswith("PANIC"):
            res.add_violation(f"C08/prepare-disagrees/{kind}", f"prepare-rename at `{t.text}` says {prep!r} but rename with a valid name {'succeeds' if any_ok else 'never succeeds'}",
                              {"files": [{"path": p, "text": x} for p, x in C08_FILES], "query": f"prepare\t{t.file}\t{t.start}", "impl": prep})
    res.cov["distinct_nontrivial"] = len(toks)
    res.cov["symbol_kinds"] = seen_kinds
    res.cov["exhaustive"] = True
    res.cov["rule"] = (f"a two-package workspace (local package + build/packages dependency) containing every kind of symbol; every identifier "
                       f"token x {len(CANDIDATES)} candidate names (every keyword, identifiers of both cases, malformed identifiers, literals, "
                       "operators, empty/whitespace/multi-token/non-ASCII strings); expected verdict from the property's table; prepare-rename "
                       "compared with the existence of an accepted rename; no edit may touch a dependency file")
    res.cov["samples"] += [{"query": q[2], "impl": a[2]}, {"query": q[3], "impl": a[3]}]
    # model tie: the model lexer classifies every candidate as the implementation's lexer does
    lreq = ["lex\t" + hexs(c) for c in CANDIDATES if c]
    io, mo = common.run_both(lreq)
    res.cov["evaluations"] += len(lreq)
    for rq, x, y in zip(lreq, io, mo):
        if x != y:
            res.disagreements.append((rq, x, y))


def symbol_kind(toks, goto):
    """'lower' / 'upper' (required name class) or 'module' / 'builtin' / 'none'"""
    if goto is None:
        return "none"
    dt = decl_token(toks, goto[:3])
    if dt is None:
        return "module"
    if dt.parent == "TYPE_NAME" or dt.kind == "U_IDENT":
        return "upper"
    return "lower"


PROOF_MODULES = {"C06": ["Glas.Props.C06"], "C07": ["Glas.Props.C07"], "C08": ["Glas.Props.C08"]}


def run(prop, res, tier, seed):
    res.assumptions += [
        "classification (go-to-definition) is taken from the implementation and fed to the model of the search layer",
        "salsa, parsing and lowering are exercised through the real Analysis API",
    ]
    try:
        res.extra.update(common.prove(prop, PROOF_MODULES[prop]))
    except Broken as b:
        res.add_broken(b.what, b.detail)
        if not os.path.exists(common.DRIVER_BIN):
            return
    if prop == "C06":
        run_c06(res, tier, seed)
    elif prop == "C08":
        run_c08(res, tier, seed)
        # end to end: external stays external while the project's manifest changes under the running server
        import shutil, lsp, p_project
        lsp.build_glas()
        base = os.path.join(common.ROOT, "work", f"c08-{os.getpid()}")
        shutil.rmtree(base, ignore_errors=True)
        try:
            for k in range(2 if tier == "quick" else 12):
                p_project.run_e2e_manifest(res, f"{base}/manifest{k}", random.Random(seed * 1000 + 700 + k), "C08")
                p_project.run_e2e_same_name(res, f"{base}/same{k}", random.Random(seed * 1000 + 750 + k), "C08")
                p_project.run_e2e_late_dependency(res, f"{base}/late{k}", random.Random(seed * 1000 + 780 + k), "C08")
        finally:
            shutil.rmtree(base, ignore_errors=True)
    elif prop == "C07":
        import p_rename
        p_rename.run_c07(res, tier, seed)
    if res.disagreements:
        rq, a, b = res.disagreements[0]
        res.add_broken("correspondence model-vs-implementation (search layer / lexer classification)",
                       f"{len(res.disagreements)} disagreeing cases; first: {rq} impl={a!r} model={b!r}")


def replay(prop, path):
    return p_ide.replay(prop, path)
