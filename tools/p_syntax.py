"""C01 / C02 / C03 / C04: lexer, parser, tree builder.
Model: generated (xlate) lexer rules + parser program + tree-builder policy, run by the Lean driver.
Tie: `parse` of model vs implementation on every generated input; oracles evaluated on the
implementation (`lossless`, no panic, `shape`, `defs`)."""
import glob, itertools, json, os, random, re, subprocess
import common, gen_gleam
from common import hexs, unhexs, Broken

CORE = ["x", "X", "_x", "1", '"s"', "{", "}", "(", ")", "[", "]", "<<", ">>", "#", ",", ":", ".", "..", "->", "=", "|",
        "+", "-", "fn", "let", "case"]
EXTRA = ["1.0", "<-", "|>", "@", "/", "||", "&&", "==", "<", "<>", "*", "!", "as", "assert", "const", "external", "if",
         "import", "opaque", "panic", "pub", "todo", "type", "use", "xY", "Xy_", "é", "\r", '"', "&", "$", "0x", "1.",
         "// c\n", "/// d\n", "//// m\n", "\n",
         # number spellings: separators, exponents, other bases, malformed tails (appended: earlier indices are used by slices)
         "1_000", "0.1_0", "1.5e3", "2.0E-3", "0x1F", "0b1_0", "0o17", "1_", "1.0e", "1e3", "00.5",
         # string spellings: escapes, a backslash (or two, or three) right in front of the closing quote, an escaped quote, an escape at the
         # end of input, a quote inside a comment
         '"\\\\"', '"a\\\\"', '"\\\\\\\\"', '"\\\""', '"\\\\\\""', '"\\n\\t"', '"C:\\\\tmp\\\\"', '"\\', '"a\\\\', '"\\u{1F4A3}"', '// "\n']
# characters editors and tools put into files without the user asking (byte order mark, other line/paragraph
# separators, NUL, no-break and zero-width spaces, form feed, vertical tab) and characters outside the BMP
EXOTIC = ["\ufeff", "\u2028", "\u2029", "\x00", "\u00a0", "\u200b", "\x0c", "\x0b", "\t", "\u0085", "💣", "e\u0301", "\ufffd", "\x7f"]
OPENERS = ["{", "(", "[", "<<", "#(", "fn(", "case x {", "x(", "X(", "let #(", "[..", "<<1,"]
CLOSERS = ["}", ")", "]", ">>"]


def corpus():
    files = sorted(glob.glob(os.path.join(common.REPO, "crates/syntax/test_data/*/*.gleam")))
    out = [open(f).read() for f in files]
    out += sorted(set(extract_fixture_strings()))
    for f in sorted(glob.glob(os.path.join(common.ROOT, "corpus", "syntax", "*.gleam"))):
        out.append(open(f).read())
    return out


def extract_fixture_strings():
    """Gleam snippets embedded in the repository's own tests (r#"…"# literals)"""
    res = []
    for f in glob.glob(os.path.join(common.REPO, "crates/ide/src/**/*.rs"), recursive=True) + \
            glob.glob(os.path.join(common.REPO, "crates/syntax/src/ast.rs")):
        try:
            s = open(f).read()
        except OSError:
            continue
        for m in re.finditer(r'r#"(.*?)"#', s, re.S):
            t = m.group(1).replace("$0", "")
            if 3 < len(t) < 1500 and ("fn" in t or "type" in t or "import" in t or "const" in t):
                res.append(t)
    return res


def class_sequences(alpha, n):
    for t in itertools.product(alpha, repeat=n):
        yield t


def gen_programs(rng, count, **kw):
    out = []
    for _ in range(count):
        g = gen_gleam.Gen(rng, **kw)
        m = g.module()
        out.append((m, gen_gleam.render(m, rng)))
    return out


def mutate(rng, text, alphabet):
    """token/character-level damage"""
    k = rng.randrange(5)
    if not text:
        return rng.choice(alphabet)
    i = rng.randrange(len(text))
    if k == 0:
        return text[:i] + rng.choice(alphabet) + text[i:]
    if k == 1:
        j = min(len(text), i + rng.randrange(1, 6))
        return text[:i] + text[j:]
    if k == 2:
        j = min(len(text), i + rng.randrange(1, 4))
        return text[:i] + " " + rng.choice(alphabet) + " " + text[j:]
    if k == 3:
        return text[:i]
    j = rng.randrange(len(text))
    a, b = min(i, j), max(i, j)
    return text[:a] + text[b:] + text[a:b]


def unclosed_openers(text):
    """number of delimiters opened and not closed at the end of the text (coarse, for classification)"""
    depth = 0
    for m in re.finditer(r'"(?:\\.|[^"\\])*"|<<|>>|[\[\](){}]', text):
        t = m.group(0)
        if t in ("[", "(", "{", "<<"):
            depth += 1
        elif t in ("]", ")", "}", ">>"):
            depth = max(0, depth - 1)
    return depth


def max_nesting(text):
    depth = mx = 0
    for m in re.finditer(r'"(?:\\.|[^"\\])*"|<<|>>|[\[\](){}]', text):
        t = m.group(0)
        if t in ("[", "(", "{", "<<"):
            depth += 1; mx = max(mx, depth)
        elif t in ("]", ")", "}", ">>"):
            depth = max(0, depth - 1)
    return mx


def canon_panic(line):
    """map implementation panics to the model's classes"""
    if not line.startswith("PANIC"):
        return line
    if "parser is stuck" in line:
        return "PANIC stuck"
    if "assertion failed: !self.eof()" in line:
        return "PANIC bumpAtEof"
    if "assertion failed: p.at" in line:
        return "PANIC assertFailed"
    return "PANIC other " + line[6:]


def inputs_c01_c02(tier, rng):
    """(label, text) stream shared by C01 and C02"""
    out = []
    for t in corpus():
        out.append(("corpus", t))
        big = len(t) > 1500
        step = max(1, len(t) // ((8 if big else 40) if tier == "quick" else 400))
        for i in range(0, len(t), step):
            out.append(("prefix", t[:i]))
    n_core = 3 if tier == "quick" else 4
    for n in range(0, n_core + 1):
        for seq in class_sequences(CORE, n):
            out.append(("seq", " ".join(seq)))
            if n and n <= 3:
                out.append(("seq-dense", "".join(seq)))
    for n in (1, 2) if tier == "quick" else (1, 2, 3):
        if n == 3:
            for seq in class_sequences(CORE + EXTRA[:20], 3):
                out.append(("seq-wide", " ".join(seq)))
        else:
            for seq in class_sequences(CORE + EXTRA, n):
                out.append(("seq-wide", " ".join(seq)))
                out.append(("seq-wide-dense", "".join(seq)))
                if n == 2:
                    # the same pairs where expressions, patterns and types are expected: in a function body, behind `case x {`,
                    # in a parameter list, in a type body
                    for pre in ("fn f() { ", "fn f(v) { case v { ", "fn f(", "type T { V("):
                        out.append(("seq-wide-in-context", pre + " ".join(seq)))
    progs = gen_programs(rng, 400 if tier == "quick" else 6000)
    alpha = CORE + EXTRA
    for m, t in progs:
        out.append(("generated", t))
        out.append(("generated-dense", gen_gleam.render(m, None, dense=True)))
        for _ in range(3):
            out.append(("mutated", mutate(rng, t, alpha)))
        cut = rng.randrange(len(t) + 1)
        out.append(("truncated", t[:cut]))
    for c in corpus():
        for _ in range((2 if len(c) > 1500 else 10) if tier == "quick" else 100):
            out.append(("mutated-corpus", mutate(rng, c, alpha)))
    # delimiter soups and nesting families (moderate depth; the deep ones are run separately)
    for _ in range(300 if tier == "quick" else 5000):
        n = rng.randrange(1, 30)
        s = " ".join(rng.choice(OPENERS + CLOSERS + ["x", ",", "1"]) for _ in range(n))
        out.append(("soup", "fn f() { " + s))
        out.append(("soup", s))
    for op in OPENERS:
        for n in (1, 2, 5, 20, 60):
            out.append(("nest", "fn f() { " + (op + " ") * n))
            out.append(("nest-closed", "fn f() { " + (op + " ") * n + "} " * n))
    # a text that ENDS inside a run of prefix operators / openers, exactly at and around the round numbers a nesting limit would
    # have (a guard that fires at depth N meets the end of input only when the text stops right there)
    for op in ["!", "-", "! ", "[", "#(", "f(", "f(a: ", "panic as ", "todo as ", "{ ", "fn() { ", "case x { _ if ", "x |> ", "1 + ", "<<"]:
        for lim in ((32, 64, 128, 256, 512, 1024) if tier == "quick" else (16, 32, 64, 100, 128, 200, 250, 256, 500, 512, 1000, 1024, 2048)):
            for n in (lim - 1, lim, lim + 1):
                out.append(("cut-at-limit", "pub fn main() {\n  let x = " + op * n))
            out.append(("cut-at-limit", "const c = " + op * lim))
            out.append(("cut-at-limit", "pub fn main() {\n  case v {\n    _ if " + op * lim))
    # well-formed deep nesting of every bracketed expression form (single and mixed), followed by another definition
    FORMS = [("[", "]"), ("#(", ")"), ("f(", ")"), ("{ ", " }"), ("fn() { ", " }"), ("!", ""), ("-", ""), ("<<", ">>"), ("[1, ", "]"), ("case x { _ -> ", " }")]
    for n in (3, 30, 63, 64, 65, 66, 100, 130, 150):
        for (o, c) in FORMS:
            out.append(("deep-wellformed", "pub fn d() {\n  " + o * n + "1" + c * n + "\n}\n\npub fn after() {\n  2\n}\n"))
        mix = [rng.choice(FORMS) for _ in range(n)]
        out.append(("deep-wellformed", "pub fn d() {\n  " + "".join(o for o, _ in mix) + "1" + "".join(c for _, c in reversed(mix)) + "\n}\n\nconst after = 2\n"))
    for n in (30, 64, 70, 150):
        for (o, c) in [("[", "]"), ("#(", ")"), ("X(", ")"), ("[_, ..", "]")]:
            out.append(("deep-wellformed", "pub fn p(v) {\n  case v {\n    " + o * n + "_" + c * n + " -> 1\n  }\n}\npub fn after() { 2 }\n"))
        for (o, c) in [("List(", ")"), ("#(", ")"), ("fn() -> ", "")]:
            out.append(("deep-wellformed", "pub fn t(v: " + o * n + "Int" + c * n + ") { v }\npub fn after() { 2 }\n"))
    # well-formed WIDE constructs: hundreds of siblings in one node, no nesting (counters per node / per run of tokens)
    for n in (127, 128, 129, 255, 256, 257, 300):
        for t in wide_texts(n):
            out.append(("wide-wellformed", t))
    # exotic characters at the start, at the end, alone, doubled and inside texts
    samples = [t for t in corpus() if len(t) < 1500][:6] + ["pub fn f(x) {\n  x\n}\n", "import a\nconst c = \"s\"\n", ""]
    for ch in EXOTIC:
        for t in samples:
            out.append(("exotic", ch + t)); out.append(("exotic", t + ch)); out.append(("exotic", ch + t + ch))
            if t:
                k = rng.randrange(len(t))
                out.append(("exotic", t[:k] + ch + t[k:]))
        out.append(("exotic", ch + ch)); out.append(("exotic", ch + " " + ch + "x" + ch))
    for _ in range(100 if tier == "quick" else 2000):
        n = rng.randrange(1, 40)
        out.append(("keywords", " ".join(rng.choice(EXTRA[12:25] + ["fn", "let", "case", "x", "{", "}"]) for _ in range(n))))
    return out


def wide_texts(n):
    """one text per construct that takes a list of siblings, with n of them, followed by another definition"""
    nums = ", ".join(str(i) for i in range(n))
    names = ", ".join(f"a{i}" for i in range(n))
    after = "\n\npub fn after() {\n  2\n}\n"
    return [
        "pub fn w() {\n  <<" + nums + ">>\n}" + after,
        "pub fn w(v) {\n  case v {\n    <<" + nums + ">> -> 1\n    _ -> 2\n  }\n}" + after,
        "pub fn w() {\n  [" + nums + "]\n}" + after,
        "pub fn w() {\n  #(" + nums + ")\n}" + after,
        "pub fn w() {\n  f(" + nums + ")\n}" + after,
        "pub fn w(" + names + ") {\n  1\n}" + after,
        "pub fn w(v) {\n  case v {\n" + "".join(f"    {i} -> {i}\n" for i in range(n)) + "  }\n}" + after,
        "pub fn w() {\n" + "".join(f"  let a{i} = {i}\n" for i in range(n)) + "  a0\n}" + after,
        "import m.{" + names + "}" + after,
        "pub type W {\n" + "".join(f"  V{i}\n" for i in range(n)) + "}" + after,
        "pub type W {\n  V(" + ", ".join(f"f{i}: Int" for i in range(n)) + ")\n}" + after,
        "pub fn w() {\n  \"" + "x" * n + "\"\n}" + after,
        "pub fn w(v) {\n  v" + " |> g" * n + "\n}" + after,
        "pub fn w() {\n  1" + " + 1" * n + "\n}" + after,
        "pub fn w(v) {\n  v" + ".f" * n + "\n}" + after,
        "pub fn w(v) {\n  v" + "(1)" * n + "\n}" + after,
        "// c\n" * n + "pub fn w() { 1 }" + after,
        "pub fn w() {\n  1" + "\n" * n + "}" + after,
        "pub const w = [" + nums + "]" + after,
        "pub fn w(v: #(" + ", ".join("Int" for _ in range(n)) + ")) { v }" + after,
        # a long helper module: every signature mentions function types, tuple types and holes
        "".join(f"pub fn m{i}(f: fn(a) -> b, p: #(a, _), g: fn() -> _) -> fn(#(a, b)) -> _ {{\n  f\n}}\n" for i in range(n)) + after,
        "".join(f"pub type A{i} =\n  fn(#(Int, _)) -> fn() -> #(_, Int)\n" for i in range(n)) + after,
    ]


def run_wide_huge(prop, res, tier):
    """the same constructs with tens of thousands of siblings (counters of 16 bits): implementation only - the tree is
    lossless, nothing panics"""
    n = 70000
    texts = wide_texts(n)
    if tier == "quick":
        # bit array, list, arguments, parameters, clauses, statements, string, binary operators, comments
        texts = [texts[i] for i in (0, 2, 4, 5, 6, 7, 11, 13, 16)]
    reqs = ["lossless\t" + hexs(t) for t in texts]
    lo, rc = common.run_lines(common.HARNESS_BIN, reqs, timeout=1200)
    res.cov["evaluations"] += len(reqs)
    res.cov["wide_huge"] = f"{len(texts)} constructs x {n} siblings"
    if len(lo) != len(reqs):
        res.add_violation(prop + "/abort/wide-construct", f"the process ended on a construct with {n} siblings (rc={rc}, {len(lo)} of {len(reqs)} answered)",
                          {"construct_index": len(lo), "text_head": texts[min(len(lo), len(texts) - 1)][:120], "siblings": n})
        return
    for t, a in zip(texts, lo):
        if a.startswith("FAIL") and prop == "C01":
            res.add_violation("C01/lossless/" + a.split(" ")[1], f"tree does not reproduce a text with {n} siblings in one node: {a[:200]}",
                              {"text_head": t[:120], "siblings": n, "impl": a[:300]})
        elif a.startswith("PANIC") and prop == "C02":
            res.add_violation("C02/panic/" + re.sub(r"[^A-Za-z0-9_.:/-]+", "_", canon_panic(a)[6:60]), f"parse_module panicked on a construct with {n} siblings: {a[:200]}",
                              {"text_head": t[:120], "siblings": n, "impl": a[:300]})


HALF_HEADS_BODY = ["use", "use a", "use a,", "use a, b", "use #(a,", "let", "let a", "let a =", "let a:", "let assert", "let assert Ok(", "case", "case v", "case v {",
                   "case v { 1", "case v { 1 ->", "case v { 1 if", "case v { a |", "fn", "fn(", "fn(a", "fn(a) ->", "f(", "f(a:", "[", "[1, ..", "#(", "<<", "<<1:", "v |>", "1 +", "!", "-",
                   "assert", "todo as", "panic as", "v.", "R(..v,", "{", "use a <-", "use <-", "let a = case", "let #(", "let [", "let <<"]
HALF_HEADS_TOP = ["import", "import a/", "import a.{", "import a.{type", "import a as", "type", "type T", "type T(", "type T {", "type T { V(", "type T { V(a:", "type T =", "const", "const a", "const a:",
                  "const a =", "const a = [", "pub", "pub opaque", "fn", "fn f", "fn f(", "fn f(a:", "fn f(a) ->", "fn f() -> #(", "@external(", "@external(erlang,", "@"]
FLAT_RUNS = ["!", "-", "todo as", "panic as", "fn() ->", "x", "1", "\"s\"", "x,", "x.", "+", "x(1)", "[1]", "A", "->", ":", "|", "x =", "A(1)", "1.0", "_", "..", "#", "<-x", "as"]


def halftyped_run_texts(tier):
    """a half-typed construct followed by a long FLAT run of one repeated token group (more tokens than any look-ahead budget of the
    parser), then the closing brace and another definition: what an editor holds while a line is being typed above existing code"""
    after = "\n}\n\npub fn after() {\n  2\n}\n"
    out = []
    sizes = (1100,) if tier == "quick" else (1100, 2100, 5000)
    for n in sizes:
        for run in FLAT_RUNS:
            body = (" " + run) * n
            for h in HALF_HEADS_BODY:
                out.append("pub fn w(v) {\n  " + h + body + after)
            for h in HALF_HEADS_TOP:
                out.append(h + body + "\n\npub fn after() {\n  2\n}\n")
    return out


def run_halftyped_runs(prop, res, tier):
    texts = halftyped_run_texts(tier)
    reqs = ["lossless\t" + hexs(t) for t in texts]
    chunks = [reqs[i::common.NCPU] for i in range(common.NCPU)]
    tchunks = [texts[i::common.NCPU] for i in range(common.NCPU)]
    outs = common.parallel_map(lambda c: common.run_lines(common.HARNESS_BIN, c, timeout=1200), chunks, workers=common.NCPU)
    res.cov["evaluations"] += len(reqs)
    res.cov["halftyped_runs"] = f"{len(texts)} texts: {len(HALF_HEADS_BODY)}+{len(HALF_HEADS_TOP)} half-typed heads x {len(FLAT_RUNS)} flat runs"
    for ts, (lo, rc) in zip(tchunks, outs):
        if len(lo) != len(ts):
            t = ts[min(len(lo), len(ts) - 1)]
            res.add_violation(prop + "/abort/halftyped-run", f"the process ended on a half-typed construct followed by a long flat run (rc={rc})", {"text_head": t[:160], "text_len": len(t)})
            continue
        for t, a in zip(ts, lo):
            if a.startswith("FAIL") and prop == "C01":
                res.add_violation("C01/lossless/" + a.split(" ")[1], f"tree does not reproduce a half-typed construct followed by a long flat run: {a[:200]}", {"text": t, "impl": a[:300]})
            elif a.startswith("PANIC") and prop == "C02":
                res.add_violation(classify_c02(t, canon_panic(a)),
                                  f"parse_module panicked on {t[:40]!r}... (a half-typed construct followed by {t.count(' ')} more tokens): {a[:200]}", {"text": t, "impl": a[:300]})


def dist(labels):
    d = {}
    for l in labels:
        d[l] = d.get(l, 0) + 1
    return d


def nontrivial_c01(text, impl_line):
    """>= 2 tokens and (a syntax error or a comment/doc trivia run)"""
    return len(text.split()) >= 2 and ("|" in impl_line and not impl_line.rstrip().endswith("|") or "//" in text)


DEEP = [("[", 120), ("[", 200), ("(", 200), ("{", 200), ("#(", 200), ("[", 1000)]


def run_deep(res, tier, want_model=True):
    """unclosed-opener runs at EOF: look-ahead fuel and recursion depth.  Each case in its own process."""
    cases = list(DEEP)
    if tier == "thorough":
        cases += [("[", 5000), ("(", 5000), ("fn(", 1000), ("case x {", 500)]
    cases += [("[", 30000), ("[]", 300000)]
    cases += [("!x", 400), ("!x", 520), ("..x", 520), ("todo as", 520)]
    for op, n in cases:
        text = "fn f() { " + (op + " ") * n
        if op in ("!x", "..x", "todo as"):
            # well-formed, not at the end of the text: directly nested prefix expressions (the recursion returns with two
            # look-aheads a level and no bump)
            text = {"!x": "fn f() { " + "! " * n + "x }", "..x": "fn f() { [1, " + ".. " * n + "x] }", "todo as": "fn f() { " + "todo as " * n + "\"s\" }"}[op] + "\nfn g() { 1 }\n"
        if op == "[]":
            # properly closed nesting: no look-ahead storm, only recursion depth
            text = "fn f() { " + "[ " * n + "] " * n + "}"
        req = "parsestat\t" + hexs(text)
        io, rc = common.run_lines(common.HARNESS_BIN, [req], timeout=300)
        res.cov["evaluations"] += 1
        impl = canon_panic(io[0]) if io else f"ABORT rc={rc}"
        model = None
        if want_model and n <= 1000:
            mo, mrc = common.run_lines(common.DRIVER_BIN, [req], timeout=600)
            model = mo[0] if mo else f"ABORT rc={mrc}"
            a = impl.split(" ")[0:2]
            b = model.split(" ")[0:2]
            if impl.startswith("PANIC") or model.startswith("PANIC"):
                if a != b:
                    res.disagreements.append((req[:80], impl, model))
        if impl.startswith("PANIC stuck") and op in ("!x", "..x", "todo as"):
            res.add_violation("C02/stuck/nested-prefix-unwinding",
                              f"parser is stuck: look-ahead fuel exhausted returning from {n} directly nested prefix expressions `{op}` in a well-formed text",
                              {"text_hex": hexs(text), "opener": op, "count": n, "impl": impl, "model": model})
        elif impl.startswith("PANIC stuck"):
            res.add_violation("C02/stuck/unclosed-openers-at-eof",
                              f"parser is stuck: look-ahead fuel exhausted unwinding {n} unclosed `{op}` at end of input",
                              {"text_hex": hexs(text), "opener": op, "count": n, "impl": impl, "model": model})
        elif impl.startswith("ABORT"):
            res.add_violation("C02/abort/unbounded-recursion",
                              f"process aborted (stack overflow) on {n} nested `{op}`",
                              {"opener": op, "count": n, "impl": impl})
        elif impl.startswith("PANIC"):
            res.add_violation("C02/panic/" + impl[6:40], impl, {"text_hex": hexs(text), "impl": impl})
        res.cov["samples"].append({"deep": f"{op} x {n}", "impl": impl, "model": model})


PREFIX_RUN = re.compile(r"(?:(?:!|-|\.\.|#|todo\s+as|panic\s+as)\s*){300,}")


def classify_c02(text, impl):
    if impl.startswith("PANIC stuck") and unclosed_openers(text) >= 100:
        return "C02/stuck/unclosed-openers-at-eof"
    if impl.startswith("PANIC stuck") and PREFIX_RUN.search(text):
        return "C02/stuck/nested-prefix-unwinding"
    return "C02/panic/" + re.sub(r"[^A-Za-z0-9_.:/-]+", "_", impl[6:60])


def run_c01_c02(prop, res, tier, seed):
    rng = random.Random(seed)
    cases = inputs_c01_c02(tier, rng)
    texts = [t for _, t in cases]
    reqs = ["parse\t" + hexs(t) for t in texts]
    io, mo = common.run_both_chunked(reqs)
    res.cov["evaluations"] += len(reqs)
    distinct = set()
    for (lab, t), rq, a, b in zip(cases, reqs, io, mo):
        ca = canon_panic(a)
        if ca != b and not (ca.startswith("PANIC other") and False):
            res.disagreements.append((rq, a, b))
        if prop == "C02" and a.startswith("PANIC"):
            res.add_violation(classify_c02(t, ca), f"parse_module panicked: {a}", {"text_hex": hexs(t), "text": t[:400], "impl": a, "model": b})
        if nontrivial_c01(t, a):
            distinct.add(t)
    if prop == "C01":
        lreqs = ["lossless\t" + hexs(t) for t in texts]
        lo, _ = common.run_lines(common.HARNESS_BIN, lreqs)
        if len(lo) != len(lreqs):
            raise Broken("implementation harness died", "during lossless oracle")
        res.cov["evaluations"] += len(lreqs)
        for (lab, t), a in zip(cases, lo):
            if a.startswith("FAIL"):
                res.add_violation("C01/lossless/" + a.split(" ")[1], f"tree does not reproduce the text: {a}",
                                  {"text_hex": hexs(t), "text": t[:400], "impl": a})
            elif a.startswith("PANIC"):
                pass  # a panic is C02's subject
    if prop == "C02":
        run_deep(res, tier)
    run_wide_huge(prop, res, tier)
    run_halftyped_runs(prop, res, tier)
    res.cov["distinct_nontrivial"] = len(distinct)
    res.cov["input_distribution"] = dist([l for l, _ in cases])
    res.cov["rule"] = ("corpus (test_data, fixtures of the repository's tests) and every ~40th prefix; all sequences over 26 token-class "
                       "representatives up to length %d (spaced and unspaced), all pairs over the wide alphabet (keywords, operators, "
                       "bad identifiers, lexer-error characters, CR, lone quote, comments); grammar-generated programs rendered with random "
                       "trivia and densely; token/character mutations; truncations; delimiter soups; nesting families; keyword soup. "
                       "non-trivial = at least two tokens and (a reported syntax error or a comment)" % (3 if tier == "quick" else 4))
    res.cov["samples"] += [{"request_text": texts[i][:120], "impl": io[i][:200], "model": mo[i][:200]} for i in (7, len(texts) // 2, len(texts) - 5)]


# ---------------- C04 ----------------
def run_c04(res, tier, seed):
    rng = random.Random(seed)
    n = 2000 if tier == "quick" else 30000
    progs = gen_programs(rng, n)
    # the same grammar printed the way people write it: no blank where two tokens may touch (`pair.0.name`, `f(x)`, `a|>b`)
    progs += [(m, gen_gleam.render(m, None, dense=True)) for m, _ in progs[: n // 4]]
    # exhaustive operator pairs and triples over abstract atoms
    ops = [op for lv in gen_gleam.LEVELS for op in lv]
    from gen_gleam import N, T
    trip = []

    def atom(i):
        return N("VARIABLE", N("NAME_REF", T("abc"[i])))

    def build(tokens):
        """reference grouping of a b op1 c op2 d …: precedence climbing on the table of levels"""
        def parse(i, min_lv):
            lhs = tokens[i]; i += 1
            while i < len(tokens) and gen_gleam.OP_LEVEL[tokens[i]] >= min_lv:
                op = tokens[i]
                rhs, i2 = parse(i + 1, gen_gleam.OP_LEVEL[op] + 1)
                lhs = N("PIPE" if op == "|>" else "BINARY_OP", lhs, T(op), rhs)
                i = i2
            return lhs, i
        return parse(0, 0)[0]

    combos = list(itertools.product(ops, repeat=2))
    if tier != "quick":
        combos += list(itertools.product(ops, repeat=3))
    else:
        combos += [tuple(rng.choice(ops) for _ in range(3)) for _ in range(1500)]
    for c in combos:
        toks = [atom(0)]
        for i, op in enumerate(c):
            toks += [op, atom((i + 1) % 3)]
        e = build(toks)
        m = N("SOURCE_FILE", N("FUNCTION", T("fn"), N("NAME", T("f")), N("PARAM_LIST", T("("), T(")")),
                               N("BLOCK", T("{"), N("STMT_EXPR", e), T("}"))))
        progs.append((m, gen_gleam.render(m)))
    # LONG modules: the items of many generated programs in one file (state that a parser carries from item to item - a
    # counter, a depth, a flag - shows only here)
    for k in range(3 if tier == "quick" else 40):
        chunk = progs[k * 120:(k + 1) * 120]
        items = [c for m, _ in chunk if m[1] == "SOURCE_FILE" for c in m[2]]
        if items:
            big = N("SOURCE_FILE", *items)
            progs.append((big, gen_gleam.render(big, rng if k % 2 else None)))
    texts = [t for _, t in progs]
    sreqs = ["shape\t" + hexs(t) for t in texts]
    so, rc = common.run_lines(common.HARNESS_BIN, sreqs)
    dead = 0
    while len(so) != len(sreqs) and dead < 5:
        # the process ended on a well-formed program: that program is the failing input; go on behind it
        dead += 1
        k = len(so)
        one, rc1 = common.run_lines(common.HARNESS_BIN, [sreqs[k]])
        res.add_violation("C04/abort", f"the parser process ended (rc={rc}) on a well-formed program" + ("" if not one else " (not when it is parsed alone)"),
                          {"text_hex": hexs(texts[k]), "text": texts[k][:600], "expected": ("errs=0 " + gen_gleam.shape(progs[k][0]))[:1500]})
        rest, rc = common.run_lines(common.HARNESS_BIN, sreqs[k + 1:])
        so = so + ["errs=? (process ended)"] + rest
    if len(so) != len(sreqs):
        raise Broken("implementation harness died", "during shape oracle")
    res.cov["evaluations"] += len(sreqs)
    distinct = set()
    for (m, t), a in zip(progs, so):
        exp = "errs=0 " + gen_gleam.shape(m)
        if a != exp:
            kind = "errors" if not a.startswith("errs=0 ") else "grouping"
            res.add_violation(f"C04/{kind}", "a well-formed program is parsed with errors or grouped differently from the reference grammar",
                              {"text_hex": hexs(t), "text": t[:600], "impl": a[:1500], "expected": exp[:1500]})
        if len(t.split()) > 12:
            distinct.add(t)
    # the separate streams of known deviations
    for as_var in (True,):
        g_rng = random.Random(seed + 17)
        found = 0
        for _ in range(400):
            g = gen_gleam.Gen(g_rng)
            g.as_on_var = True
            p = g.pattern(0)
            if "AS_PATTERN (PATTERN_VARIABLE" not in gen_gleam.shape(p):
                continue
            m = N("SOURCE_FILE", N("FUNCTION", T("fn"), N("NAME", T("f")), N("PARAM_LIST", T("("), T(")")),
                                   N("BLOCK", T("{"), N("STMT_LET", T("let"), p, T("="), N("LITERAL", T("1"))), T("}"))))
            t = gen_gleam.render(m)
            o, _ = common.run_lines(common.HARNESS_BIN, ["shape\t" + hexs(t)])
            res.cov["evaluations"] += 1
            if o and o[0] != "errs=0 " + gen_gleam.shape(m):
                res.add_violation("C04/as-after-variable-pattern",
                                  "`x as y` (an `as` binding directly after a variable pattern) is rejected: pattern() returns before the `as` check",
                                  {"text": t, "impl": o[0][:600], "expected": gen_gleam.shape(m)[:600]})
                found += 1
            if found >= 3:
                break
        m = N("SOURCE_FILE", N("FUNCTION", T("fn"), N("NAME", T("f")), N("PARAM_LIST", T("("), T(")")),
                               N("BLOCK", T("{"), N("STMT_LET", T("let"), N("AS_PATTERN", N("UNARY_OP", T("-"), N("LITERAL", T("1"))), T("as"), N("PATTERN_VARIABLE", N("NAME", T("b")))), T("="), N("LITERAL", T("1"))), T("}"))))
        t = gen_gleam.render(m)
        o, _ = common.run_lines(common.HARNESS_BIN, ["shape\t" + hexs(t)])
        res.cov["evaluations"] += 1
        if o and o[0] != "errs=0 " + gen_gleam.shape(m):
            res.add_violation("C04/as-after-negative-literal",
                              "`-1 as b` groups as -(1 as b): the `as` check runs inside the recursive pattern() of the prefix minus",
                              {"text": t, "impl": o[0][:600], "expected": gen_gleam.shape(m)[:600]})
    # three-way: the shallow Pratt model (subject of pratt_roundtrip) vs the implementation on operator strings
    kinds = kind_table()
    preqs, pexp = [], []
    strings = list(itertools.product(ops, repeat=2)) + [tuple(rng.choice(ops) for _ in range(rng.randrange(3, 7))) for _ in range(800 if tier == "quick" else 20000)]
    for c in strings:
        toks, text = [], []
        names = "abcdefgh"
        for i in range(len(c) + 1):
            pre = rng.choice(["", "", "", "-", "!"]) if i > 0 or rng.random() < 0.5 else ""
            if pre:
                toks.append(f"o:{kinds[OP_KIND[pre]]}:{pre}"); text.append(pre)
            toks.append(f"a:{names[i]}"); text.append(names[i])
            if i < len(c):
                toks.append(f"o:{kinds[OP_KIND[c[i]]]}:{c[i]}"); text.append(c[i])
        preqs.append("pratt\t" + " ".join(toks))
        pexp.append("fn f() { " + " ".join(text) + " }")
    po, _ = common.run_lines(common.DRIVER_BIN, preqs)
    so2, _ = common.run_lines(common.HARNESS_BIN, ["shape\t" + hexs(t) for t in pexp])
    res.cov["evaluations"] += len(preqs)
    res.cov["pratt_three_way"] = len(preqs)
    for rq, a, b, t in zip(preqs, po, so2, pexp):
        want = "errs=0 (SOURCE_FILE (FUNCTION 'fn' (NAME 'f') (PARAM_LIST '(' ')') (BLOCK '{' (STMT_EXPR " + a + ") '}')))"
        if b != want:
            res.disagreements.append((t, b, a))
    # model-vs-implementation on the same programs (generated DSL program vs parse_module)
    reqs = ["parse\t" + hexs(t) for t in texts[: (1500 if tier == "quick" else 20000)]]
    io, mo = common.run_both_chunked(reqs)
    res.cov["evaluations"] += len(reqs)
    for rq, a, b in zip(reqs, io, mo):
        if canon_panic(a) != b:
            res.disagreements.append((rq, a, b))
    res.cov["distinct_nontrivial"] = len(distinct)
    res.cov["rule"] = ("programs of the reference grammar (tools/gen_gleam.py: items, attributes, imports with unqualified/aliased members, "
                       "custom types and aliases with generics, constants, functions with labelled/annotated/discarded parameters, all "
                       "statement/expression/pattern/type forms) rendered with random legal whitespace and comments; all operator pairs "
                       "(and all triples in the thorough tier) over abstract atoms against precedence climbing; expected shape by construction. "
                       "non-trivial = more than 12 tokens")
    res.cov["programs"] = len(progs)
    res.cov["samples"] += [{"text": texts[i][:200], "shape": so[i][:300]} for i in (3, len(texts) - 2)]


OP_KIND = {"||": "VBAR_VBAR", "&&": "AMPER_AMPER", "==": "EQ_EQ", "!=": "NOT_EQ", "<": "LESS", "<=": "LESS_EQ", "<.": "LESS_DOT",
           "<=.": "LESS_EQ_DOT", ">": "GREATER", ">=": "GREATER_EQ", ">.": "GREATER_DOT", ">=.": "GREATER_EQ_DOT", "<>": "LT_GT",
           "|>": "VBAR_GT", "+": "PLUS", "-": "MINUS", "+.": "PLUS_DOT", "-.": "MINUS_DOT", "*": "STAR", "/": "SLASH",
           "*.": "STAR_DOT", "/.": "SLASH_DOT", "%": "PERCENT", "!": "BANG"}


def kind_table():
    t = {}
    for l in open(os.path.join(common.LEAN, "Glas", "Gen", "Kind.lean")):
        m = re.match(r"def K_(\w+) : Nat := (\d+)", l)
        if m:
            t[m.group(1)] = int(m.group(2))
    return t


PROOF_MODULES = {"C01": ["Glas.Props.C01", "Glas.Props.C02Marks", "Glas.Props.C02Stuck"], "C02": ["Glas.Props.C02", "Glas.Props.C02Marks", "Glas.Props.C02La", "Glas.Props.C02Stuck", "Glas.Props.C02Depth"], "C03": ["Glas.Props.C03"], "C04": ["Glas.Props.C04", "Glas.Props.C04Pratt"]}


def run(prop, res, tier, seed):
    res.assumptions += [
        "logos' generated automaton is modelled as longest match + rule priority + one-character error tokens; validated by the differential",
        "rowan's GreenNodeBuilder is modelled as a stack of open nodes",
        "the parser program, token sets, binding powers, lexer rules and tree-builder policy are regenerated from /repo by xlate on every run",
    ]
    try:
        res.extra.update(common.prove(prop, PROOF_MODULES[prop]))
    except Broken as b:
        res.add_broken(b.what, b.detail)
        if not os.path.exists(common.DRIVER_BIN):
            return
    if prop == "C02" and os.path.exists(common.DRIVER_BIN):
        res.extra["witness_modules"] = common.build_witnesses(["Glas.Props.C02Witness"])
        try:
            out, rc = common.run_lines(common.DRIVER_BIN, ["la-peak"])
            ok, peak, budget = out[0].split()
            res.extra["look_ahead_budget"] = {"laCheck": ok, "largest_counter_value_the_analysis_allows": int(peak), "budget": int(budget),
                                              "theorem": "Glas.Props.C02La.C02_never_stuck"}
            if ok != "true":
                res.add_broken("look-ahead certificate (laCheck glasProg evaluates to false in the driver)", out[0])
        except Exception as ex:
            res.extra["look_ahead_budget"] = "driver command la-peak failed: " + repr(ex)[:200]
    if prop in ("C01", "C02"):
        run_c01_c02(prop, res, tier, seed)
    elif prop == "C04":
        run_c04(res, tier, seed)
    elif prop == "C03":
        import p_c03
        p_c03.run_c03(res, tier, seed)
    if res.disagreements:
        rq, a, b = res.disagreements[0]
        try:
            txt = unhexs(rq.split("\t")[1])[:300]
        except Exception:
            txt = rq[:300]
        res.add_broken("correspondence model-vs-implementation (M-syntax: generated lexer/parser/tree-builder model vs parse_module)",
                       f"{len(res.disagreements)} disagreeing cases; first: text={txt!r} impl={a[:400]!r} model={b[:400]!r}")


def replay(prop, path):
    r = json.load(open(path))
    rp = r.get("replay", {})
    if "text_hex" not in rp and "text" in rp:
        rp["text_hex"] = hexs(rp["text"])
    if "text_hex" not in rp:
        print(json.dumps(r, indent=1)[:3000])
        return 0
    common.build_harness()
    for cmd in ("parse", "lossless", "shape"):
        rq = cmd + "\t" + rp["text_hex"]
        io, _ = common.run_lines(common.HARNESS_BIN, [rq])
        print(cmd, "impl :", (io or ["<died>"])[0][:2000])
        if cmd == "parse":
            mo, _ = common.run_lines(common.DRIVER_BIN, [rq])
            print(cmd, "model:", (mo or ["<died>"])[0][:2000])
    return 0
