import random
"""C17: modules and packages resolve according to the project layout.
Model: lean/Glas/Model/Project.lean; theorems lean/Glas/Props/C17.lean.  Tie: generated project trees
on disk; `module_name`, `find_gleam_project_parent`, `lower_vfs`, `assemble_graph` (harness, feature
verif) vs the model vs the layout known by construction; end-to-end through the real binary."""
import json, os, random, shutil
import common, lsp
from common import hexs, Broken

SEGS = ["a", "b", "util", "x", "src", "test", "build", "packages"]   # a module directory may be called like a source directory


class Pkg:
    def __init__(self, name, root, kind):
        self.name, self.root, self.kind = name, root, kind      # kind: 'root' | 'registry' | 'path'
        self.deps = []          # names
        self.files = {}         # abs path -> (module name, text)


def gen_tree(rng, base):
    """1-4 packages: the application, registry dependencies under build/packages, path dependencies next to it"""
    # the application itself may live under a directory that looks like part of build/packages
    app = Pkg("app", base + rng.choice(["/app", "/app", "/app", "/packages/app", "/mono/build/app"]), "root")
    pkgs = [app]
    # package names that begin like one another (gleam_http / gleam_httpc, app / app_core): directories of the same depth
    # whose paths are textual beginnings of each other
    reg_names = ["kit", "kitc", "kit_core", "web"] if rng.random() < 0.6 else ["dep0", "dep1", "dep2", "dep3"]
    path_names = ["app_core", "appx", "lib", "libs"] if rng.random() < 0.6 else ["lib0", "lib1", "lib2", "lib3"]
    for i in range(rng.randrange(0, 4)):
        if rng.random() < 0.5:
            nm = reg_names[i]
            p = Pkg(nm, f"{app.root}/build/packages/{nm}", "registry")
        else:
            # a path dependency may live anywhere, also under a directory that merely looks like part of build/packages;
            # next to the application it may be called like the application with something appended
            nm = path_names[i]
            sib = os.path.dirname(app.root)
            where = rng.choice([f"{base}/{nm}", f"{sib}/{nm}", f"{base}/packages/{nm}", f"{base}/build/{nm}", f"{base}/vendor/packages/{nm}"])
            p = Pkg(nm, where, "path")
        pkgs.append(p)
    # dependency edges: app depends on a subset; some dependencies depend on others (transitive)
    for p in pkgs[1:]:
        if rng.random() < 0.75:
            app.deps.append(p.name)
    # registry packages may depend on other registry packages (siblings under build/packages); path
    # dependencies get no registry dependencies of their own (where those would live is not fixed by the layout)
    for p in pkgs[1:]:
        for q in pkgs[1:]:
            if q is not p and p.kind == "registry" and q.kind == "registry" and rng.random() < 0.3:
                p.deps.append(q.name)
    for p in pkgs:
        n = rng.randrange(1, 4)
        for _ in range(n):
            segs = [rng.choice(SEGS) for _ in range(rng.randrange(1, 3))]
            d = rng.choice(["src", "src", "test"])
            mod = "/".join(segs)
            path = f"{p.root}/{d}/{mod}.gleam"
            if any(m == mod for (m, _) in p.files.values()):
                continue
            fname = f"f_{p.name}"
            p.files[path] = (mod, f"pub fn {fname}() {{ 1 }}\npub type T_{p.name} {{ C_{p.name} }}\n")
    return pkgs


def write_tree(pkgs, base):
    for p in pkgs:
        if p.kind == "registry" and _LINK_RNG.random() < 0.3 and not os.path.lexists(p.root):
            # the package directory under build/packages is a symbolic link into a shared store (a package cache): the
            # package is still the one under build/packages - external, found under that path
            real = f"{base}/cache/{p.name}-1.0.0"
            os.makedirs(real, exist_ok=True)
            os.makedirs(os.path.dirname(p.root), exist_ok=True)
            os.symlink(real, p.root)
        os.makedirs(p.root, exist_ok=True)
        lines = [f'name = "{p.name}"', "[dependencies]"]
        byname = {q.name: q for q in pkgs}
        subtables = []
        for d in p.deps:
            q = byname[d]
            # every legal spelling of a dependency: a version string, an inline table (version / git / path), a sub-table
            how = _LINK_RNG.random()
            if q.kind == "path":
                rel = os.path.relpath(q.root, p.root)
                if how < 0.75:
                    lines.append(f'{d} = {{ path = "{rel}" }}')
                else:
                    subtables.append(f'[dependencies.{d}]\npath = "{rel}"')
            elif how < 0.5:
                lines.append(f'{d} = "1.0"')
            elif how < 0.7:
                lines.append(f'{d} = {{ version = "~> 1.2" }}')
            elif how < 0.85:
                lines.append(f'{d} = {{ git = "https://example.com/{d}.git", ref = "main" }}')
            else:
                subtables.append(f'[dependencies.{d}]\nversion = ">= 1.0.0 and < 2.0.0"')
        open(p.root + "/gleam.toml", "w").write("\n".join(lines + subtables) + "\n")
        for path, (mod, text) in p.files.items():
            # some modules are reached through a symbolic link below src/ or test/ (a linked file, or a linked directory):
            # the layout is the same, the module is importable under the same name
            how = _LINK_RNG.random()
            store = f"{base}/store/{p.name}-{abs(hash(path)) % 100000}"
            rel = path[len(p.root) + 1:].split("/")        # src|test, segs..., file
            if how < 0.15 and not os.path.lexists(path):
                os.makedirs(os.path.dirname(path), exist_ok=True)
                os.makedirs(store, exist_ok=True)
                open(f"{store}/{rel[-1]}", "w").write(text)
                os.symlink(f"{store}/{rel[-1]}", path)
            elif how < 0.3 and len(rel) >= 3 and not os.path.lexists(f"{p.root}/{rel[0]}/{rel[1]}"):
                os.makedirs(f"{p.root}/{rel[0]}", exist_ok=True)
                real = store + "/" + "/".join(rel[2:])
                os.makedirs(os.path.dirname(real), exist_ok=True)
                open(real, "w").write(text)
                os.symlink(store, f"{p.root}/{rel[0]}/{rel[1]}")
            else:
                os.makedirs(os.path.dirname(path), exist_ok=True)
                open(path, "w").write(text)
    os.makedirs(base + "/loose", exist_ok=True)
    open(base + "/loose/free.gleam", "w").write("pub fn lonely() { 1 }\n")


_LINK_RNG = random.Random(0)


def innermost(pkgs, path):
    best = None
    for p in pkgs:
        if path.startswith(p.root + "/") and (best is None or len(p.root) > len(best.root)):
            best = p
    return best


def run_c17(res, tier, seed):
    rng = random.Random(seed)
    n_trees = 120 if tier == "quick" else 2000
    base = os.path.join(common.ROOT, "work", f"c17-{os.getpid()}")
    shutil.rmtree(base, ignore_errors=True)
    reqs, meta = [], []
    trees = []
    try:
        _LINK_RNG.seed(seed * 31 + 5)
        for t in range(n_trees):
            tb = f"{base}/t{t}"
            pkgs = gen_tree(rng, tb)
            write_tree(pkgs, tb)
            trees.append((tb, pkgs))
            tomls = ",".join(p.root for p in pkgs)
            allfiles = [f for p in pkgs for f in p.files] + [p.root + "/gleam.toml" for p in pkgs]
            for p in pkgs:
                for path, (mod, _) in p.files.items():
                    reqs.append(f"modname\t{p.root}\t{path}"); meta.append(("modname", mod, p, path))
                    reqs.append(f"projparent\t{tomls}\t{path}"); meta.append(("projparent", p, pkgs, path))
            reqs.append(f"projparent\t{tomls}\t{tb}/loose/free.gleam"); meta.append(("projparent-free", None, pkgs, None))
            reqs.append(f"lowervfs\t{','.join(p.root for p in pkgs)}\t{','.join(allfiles)}"); meta.append(("lowervfs", pkgs, allfiles, None))
            reqs.append(f"assemble\t{pkgs[0].root}"); meta.append(("assemble", pkgs, None, None))
            for p in pkgs:
                reqs.append(f"islocal\t{p.root}"); meta.append(("islocal", p, None, None))
        # the implementation side (islocal is model-only; lowervfs/assemble are implementation-only + python model of the model)
        impl_reqs = [r for r in reqs if not r.startswith("islocal")]
        io, rc = common.run_lines(common.HARNESS_BIN, impl_reqs)
        if len(io) != len(impl_reqs):
            raise Broken("implementation harness died", "during project commands")
        model_reqs = []
        for r, m in zip(reqs, meta):
            if m[0] in ("modname", "projparent", "projparent-free", "islocal"):
                model_reqs.append(r)
            elif m[0] == "lowervfs":
                for f in m[2]:
                    model_reqs.append(f"assign\t{','.join(p.root for p in m[1])}\t{f}")
        mo, rc = common.run_lines(common.DRIVER_BIN, model_reqs)
        if len(mo) != len(model_reqs):
            raise Broken("Lean driver died", "during project commands")
        res.cov["evaluations"] += len(impl_reqs) + len(model_reqs)
        ii = mi = 0
        multi = 0
        graph_reqs = []
        for r, m in zip(reqs, meta):
            kind = m[0]
            if kind == "islocal":
                p = m[1]
                want = "external" if p.kind == "registry" else "local"
                if mo[mi] != want:
                    res.add_broken("model M-project vs the layout by construction", f"isLocal {p.root}: model {mo[mi]} expected {want}")
                mi += 1
                continue
            a = io[ii]; ii += 1
            if kind == "modname":
                b = mo[mi]; mi += 1
                if a != b:
                    res.disagreements.append((r, a, b))
                if a != f"some {m[1]}":
                    res.add_violation("C17/module-name", f"{m[3]} is importable as {a!r}, expected {m[1]!r}", {"request": r, "impl": a})
            elif kind in ("projparent", "projparent-free"):
                b = mo[mi]; mi += 1
                if a != b:
                    res.disagreements.append((r, a, b))
                if kind == "projparent-free":
                    if a != "none":
                        res.add_violation("C17/free-standing-file-root", f"a free-standing file is given the project {a}", {"request": r, "impl": a})
                else:
                    p = m[1]
                    if p.kind != "registry" and a != p.root:
                        res.add_violation("C17/project-parent", f"{m[3]}: project parent {a}, expected {p.root}", {"request": r, "impl": a})
                    # a file of a registry dependency opened FIRST: the project to load is the one whose build/packages
                    # holds it (only then is the package part of a graph, external, and its modules importable)
                    owner = os.path.dirname(os.path.dirname(os.path.dirname(p.root)))
                    if p.kind == "registry" and a != owner:
                        res.add_violation("C17/project-parent-of-dependency-file", f"{m[3]} (a module of a package under build/packages): project parent {a}, the enclosing project is {owner}",
                                          {"request": r, "impl": a})
            elif kind == "lowervfs":
                pkgs, files = m[1], m[2]
                groups = {}
                for f in files:
                    b = mo[mi]; mi += 1
                    groups.setdefault(b, []).append(f)
                    ip = innermost(pkgs, f)
                    if ip is not None and b != ip.root:
                        res.add_broken("model M-project vs the layout by construction", f"assignRoot {f}: model {b}, innermost package {ip.root}")
                mg = sorted("+".join(sorted(v)) for k, v in groups.items() if k != "none")
                if a != " ".join(mg):
                    res.disagreements.append((r[:200], a[:300], " ".join(mg)[:300]))
                    res.add_violation("C17/file-to-root-partition", "files are not partitioned by innermost package root", {"request": r, "impl": a, "expected": " ".join(mg)})
                if len(pkgs) >= 2:
                    multi += 1
            elif kind == "assemble":
                pkgs = m[1]
                byname = {p.name: p for p in pkgs}
                # reachable packages from app through declared dependencies
                seen, todo = [], ["app"]
                while todo:
                    n = todo.pop()
                    if n in seen:
                        continue
                    seen.append(n)
                    todo += byname[n].deps
                exp = sorted(f"{n}:{'external' if byname[n].kind == 'registry' else 'local'}:[{','.join(sorted(byname[n].deps))}]" for n in seen)
                got = a.split(" | ")[0].split(" ")[1:]
                # M-graph (Lean): the same manifests, packages numbered in the order of the layout; the model's graph must be the implementation's
                num = {p.name: i for i, p in enumerate(pkgs)}
                spec = ";".join(f"{num[p.name]}:{','.join(str(num[d]) for d in p.deps if d in num)}" for p in pkgs) or "-"
                graph_reqs.append((f"graph\t{num['app']}\t{spec}", r, sorted(f"{num[g.split(':')[0]]}:[{','.join(str(x) for x in sorted(num[d] for d in g.split(':[')[1].rstrip(']').split(',') if d))}]" for g in got if g.split(':')[0] in num)))
                if sorted(got) != exp:
                    res.add_violation("C17/package-graph", f"assemble_graph gives {sorted(got)}, the layout is {exp}", {"request": r, "impl": a, "expected": exp})
        res.cov["distinct_nontrivial"] = multi
        if graph_reqs:
            gmo, _ = common.run_lines(common.DRIVER_BIN, [q for q, _, _ in graph_reqs])
            res.cov["graph_model_tie"] = len(graph_reqs)
            for (q, r, impl), m_ in zip(graph_reqs, gmo):
                mg = sorted(m_.split(" ")[1:]) if m_.startswith("ok") else [m_]
                if mg != impl:
                    res.disagreements.append((q[:200], " ".join(impl)[:300], " ".join(mg)[:300]))
        run_imports(res, tier, seed)
        # end-to-end through the real binary on a few trees
        e2e = trees[: (6 if tier == "quick" else 60)]
        lsp.build_glas()
        for tb, pkgs in e2e:
            run_e2e(res, tb, pkgs)
        for k in range(3 if tier == "quick" else 20):
            run_e2e_session(res, f"{base}/multi{k}", random.Random(seed * 1000 + k))
            run_e2e_nested(res, f"{base}/nested{k}", random.Random(seed * 1000 + 300 + k))
        for k in range(2 if tier == "quick" else 12):
            run_e2e_manifest(res, f"{base}/manifest{k}", random.Random(seed * 1000 + 500 + k), "C17")
            run_e2e_late_dependency(res, f"{base}/late{k}", random.Random(seed * 1000 + 560 + k), "C17")
        for k in range(2 if tier == "quick" else 12):
            run_e2e_chain(res, f"{base}/chain{k}", random.Random(seed * 1000 + 800 + k))
        for k in range(2 if tier == "quick" else 12):
            run_e2e_same_name(res, f"{base}/same{k}", random.Random(seed * 1000 + 900 + k), "C17")
    finally:
        shutil.rmtree(base, ignore_errors=True)
    res.cov["rule"] = (f"{n_trees} generated project trees on disk (application + 0-3 registry (build/packages) and path dependencies, nested "
                       "module directories under src/ and test/, equal module names in different packages, transitive dependency edges, a "
                       "free-standing file): module name of every module file, project parent of every file, file-to-root partition, package "
                       "graph with locality and direct dependencies; model vs implementation vs the layout by construction. non-trivial = tree "
                       "with at least two packages")
    res.cov["samples"] += [{"request": reqs[i], "impl": io[i] if i < len(io) else None} for i in (0, 1)]


def run_imports(res, tier, seed):
    """M-imports vs `Package::visible_modules`: multi-package workspaces in the analysis database (package graph with
    direct-dependency lists, one source root per package, module names shared between packages), every module of every
    package imports every module name of the pool and calls its `f`; go-to-definition tells which file the import reached"""
    from p_ide import run_workspaces, parse_target
    rng = random.Random(seed * 7 + 17)
    n_ws = 60 if tier == "quick" else 1200
    batches, metas = gen_import_workspaces(rng, n_ws)
    answers = run_workspaces(batches)
    graph_specs, mreqs = [], []
    for (pkgs, meta, files) in metas:
        spec = ";".join("+".join(str(d) for d in deps) + "|" + ",".join(f"{m}={fi}" for (m, fi) in entries) for (n, deps, entries, toml) in pkgs)
        for (k, q, fi) in meta:
            mreqs.append(f"imports\t{spec}\t{k}\t{q}")
    return finish_imports(res, metas, answers, mreqs)


IMPORT_POOL = ["util", "a", "a/b", "x/y/z", "core"]


def gen_import_workspaces(rng, n_ws):
    from p_ide import FilesOnly
    pool = IMPORT_POOL
    batches, metas = [], []
    for _ in range(n_ws):
        npk = rng.randrange(2, 6)
        pkgs = []       # (name, deps, [(module, file index)])
        files, roots = [], []
        for k in range(npk):
            mods = rng.sample(pool, rng.randrange(1, 4))
            deps = [d for d in range(npk) if d != k and rng.random() < 0.45]
            rng.shuffle(deps)
            entries, idxs = [], []
            for m in mods:
                al = "m_" + m.replace("/", "_")
                body = "".join(f"import {q} as m_{q.replace('/', '_')}\n" for q in pool if q != m)
                body += f"pub fn f() {{\n  {k}\n}}\npub fn probe() {{\n" + "".join(f"  m_{q.replace('/', '_')}.f()\n" for q in pool if q != m) + "  1\n}\n"
                files.append({"path": f"/w/pk{k}/src/{m}.gleam", "text": body})
                entries.append((m, len(files) - 1)); idxs.append(len(files) - 1)
            files.append({"path": f"/w/pk{k}/gleam.toml", "text": f'name = "pk{k}"\n'})
            idxs.append(len(files) - 1)
            pkgs.append((f"pk{k}", deps, entries, len(files) - 1))
            roots.append((f"/w/pk{k}", idxs))
        ws = FilesOnly(files)
        ws.roots = roots
        ws.pkgs = [(n, toml, 1 if k == 0 else 0, deps) for k, (n, deps, _, toml) in enumerate(pkgs)]
        qs, meta = [], []
        for k, (n, deps, entries, toml) in enumerate(pkgs):
            for (m, fi) in entries:
                t = files[fi]["text"]
                for q in pool:
                    if q == m:
                        continue
                    al = "m_" + q.replace("/", "_")
                    off = t.index(f"  {al}.f()") + 2 + len(al) + 1
                    qs.append(f"goto\t{fi}\t{off}")
                    meta.append((k, q, fi))
        batches.append((ws, qs)); metas.append((pkgs, meta, files))
    return batches, metas


def finish_imports(res, metas, answers, mreqs):
    from p_ide import parse_target
    mo, rc = common.run_lines(common.DRIVER_BIN, mreqs)
    if len(mo) != len(mreqs):
        raise Broken("Lean driver died", "during imports commands")
    j = 0
    shared = 0
    for (pkgs, meta, files), ans in zip(metas, answers):
        for (k, q, fi), a in zip(meta, ans):
            model = mo[j]; rq = mreqs[j]; j += 1
            res.cov["evaluations"] += 1
            t = parse_target(a)
            got = "none" if t is None else f"some {t[0]}"
            if got != model:
                res.disagreements.append((rq + f" (asked in file {fi})", got, model))
            # the layout by construction: candidates = the importing package's own module of that name, else those of its direct dependencies
            own = [f for (m, f) in pkgs[k][2] if m == q]
            cands = own if own else [f for d in pkgs[k][1] for (m, f) in pkgs[d][2] if m == q]
            if len({f for d in pkgs[k][1] for (m, f) in pkgs[d][2] if m == q}) > 1:
                shared += 1
            if (t is None) != (not cands) or (t is not None and t[0] not in cands):
                res.add_violation("C17/import-resolution", f"`import {q}` in package pk{k} (dependencies {['pk%d' % d for d in pkgs[k][1]]}) reaches "
                                  f"{files[t[0]]['path'] if t else None}; modules of that name in the package or its direct dependencies: {[files[f]['path'] for f in cands]}",
                                  {"files": files, "packages": [{"name": n, "deps": deps, "modules": entries} for (n, deps, entries, toml) in pkgs], "query": f"goto in file {fi}", "impl": a[:200]})
    res.cov["import_resolutions_checked"] = j
    res.cov["import_resolutions_with_several_candidate_dependencies"] = shared


def run_e2e_manifest(res, tb, rng, prop):
    """a dependency under build/packages stays external (navigable, not editable) whatever happens to the project's
    gleam.toml during the session: dependency line dropped, half-typed (invalid TOML), restored, re-read through a
    watched-files event or by opening the manifest.  Used by C17 (layout) and C08 (rename refuses external symbols)."""
    def w(path, text):
        os.makedirs(os.path.dirname(path), exist_ok=True)
        open(path, "w").write(text)
    dep = rng.choice(["dep", "gleam_stdlib", "zlib"])
    good = f'name = "app"\nversion = "1.0.0"\n\n[dependencies]\n{dep} = "~> 1.0"\n'
    variants = {"dependency-dropped": 'name = "app"\nversion = "1.0.0"\n\n[dependencies]\n',
                "half-typed": f'name = "app"\nversion = "1.0.0"\n\n[dependencies]\n{dep} = \n',
                "no-dependencies-table": 'name = "app"\n',
                "empty": ""}
    dep_src = "pub fn hello() {\n  1\n}\n\npub fn twice() {\n  hello() + hello()\n}\n"
    app_src = f"import {dep}\n\npub fn main() {{\n  {dep}.hello()\n}}\n"
    w(f"{tb}/gleam.toml", good)
    w(f"{tb}/src/app.gleam", app_src)
    # the dependency's directory - or the whole build directory - may be a symbolic link into a package cache: the
    # dependency is still what lives under build/packages, whatever the link points to
    linked = rng.choice(["no", "no", "package", "build"])
    if linked == "package":
        os.makedirs(f"{tb}/cache/{dep}-1.0.0", exist_ok=True)
        os.makedirs(f"{tb}/build/packages", exist_ok=True)
        os.symlink(f"{tb}/cache/{dep}-1.0.0", f"{tb}/build/packages/{dep}")
    elif linked == "build":
        os.makedirs(f"{tb}/out-of-tree", exist_ok=True)
        os.symlink(f"{tb}/out-of-tree", f"{tb}/build")
    w(f"{tb}/build/packages/{dep}/gleam.toml", f'name = "{dep}"\nversion = "1.0.0"\n')
    w(f"{tb}/build/packages/{dep}/src/{dep}.gleam", dep_src)
    toml_uri = "file://" + f"{tb}/gleam.toml"
    dep_uri = "file://" + f"{tb}/build/packages/{dep}/src/{dep}.gleam"
    app_uri = "file://" + f"{tb}/src/app.gleam"
    key = "C17/dependency-editable-after-manifest-reread" if prop == "C17" else "C08/external-symbol-renameable-after-manifest-reread"
    c = lsp.Lsp(tb)
    try:
        if c.initialize() is None:
            return
        c.notify("textDocument/didOpen", {"textDocument": {"uri": app_uri, "languageId": "gleam", "version": 1, "text": app_src}})
        history = []

        def ask(stage):
            for (uri, line, col, where) in ((dep_uri, 0, 8, "its definition"), (dep_uri, 5, 3, "a use inside the dependency"), (app_uri, 3, 4 + len(dep), "the use in the application")):
                pos = {"textDocument": {"uri": uri}, "position": {"line": line, "character": col}}
                for method, params in (("textDocument/prepareRename", pos), ("textDocument/rename", dict(pos, newName="greet"))):
                    r = c.request(method, params, timeout=30)
                    res.cov["evaluations"] += 1
                    if r is not None and r.get("result"):
                        touched = [u for u in ((r["result"].get("changes") or {}) if isinstance(r["result"], dict) else {}) if "/build/packages/" in u]
                        res.add_violation(key, f"after {stage}: {method.split('/')[1]} at {where} of `hello` (defined in build/packages/{dep}) is accepted"
                                          + (f" and edits {len(touched)} dependency file(s)" if touched else ""),
                                          {"tree": tb, "dependency": dep, "history": list(history), "request": {"method": method, "params": params}, "answer": r})
                        return False
            return True

        if not ask("a fresh session"):
            return
        steps = list(variants)
        rng.shuffle(steps)
        for name in steps[: rng.randrange(2, 4)]:
            for text, label in ((variants[name], name), (good, "restored")):
                w(f"{tb}/gleam.toml", text)
                how = rng.choice(["watched", "watched", "opened"])
                if how == "watched":
                    c.notify("workspace/didChangeWatchedFiles", {"changes": [{"uri": toml_uri, "type": 2}]})
                else:
                    c.notify("textDocument/didOpen", {"textDocument": {"uri": toml_uri, "languageId": "toml", "version": 1, "text": text}})
                    c.notify("textDocument/didClose", {"textDocument": {"uri": toml_uri}})
                history.append(f"gleam.toml {label} ({how})")
                if not ask(f"gleam.toml {label}, re-read ({how})"):
                    return
    finally:
        c.close()


def run_e2e_late_dependency(res, tb, rng, prop):
    """the dependencies arrive AFTER the server has loaded the workspace (`gleam deps download` / `gleam add` run behind the
    editor's back, no file event reaches the server): when the editor then opens a module under build/packages, that module
    belongs to a dependency - navigable, not editable."""
    def w(path, text):
        os.makedirs(os.path.dirname(path), exist_ok=True)
        open(path, "w").write(text)
    dep = rng.choice(["dep", "gleam_stdlib", "zlib"])
    listed = rng.random() < 0.5         # is the dependency already in gleam.toml when the server starts?
    with_dep = f'name = "app"\nversion = "1.0.0"\n\n[dependencies]\n{dep} = "~> 1.0"\n'
    without = 'name = "app"\nversion = "1.0.0"\n\n[dependencies]\n'
    dep_src = "pub fn hello() {\n  1\n}\n\npub fn twice() {\n  hello() + hello()\n}\n"
    app_src = "pub fn main() {\n  1\n}\n"
    w(f"{tb}/gleam.toml", with_dep if listed else without)
    w(f"{tb}/src/app.gleam", app_src)
    dep_path = f"{tb}/build/packages/{dep}/src/{dep}.gleam"
    dep_uri, app_uri = "file://" + dep_path, "file://" + f"{tb}/src/app.gleam"
    key = "C17/late-dependency-is-local" if prop == "C17" else "C08/symbol-of-late-dependency-renameable"
    c = lsp.Lsp(tb)
    try:
        if c.initialize() is None:
            return
        c.notify("textDocument/didOpen", {"textDocument": {"uri": app_uri, "languageId": "gleam", "version": 1, "text": app_src}})
        r = c.request("textDocument/prepareRename", {"textDocument": {"uri": app_uri}, "position": {"line": 0, "character": 8}}, timeout=30)
        res.cov["evaluations"] += 1
        if r is None or not r.get("result"):
            return      # the session did not come up; nothing to say
        if not listed:
            w(f"{tb}/gleam.toml", with_dep)
        w(f"{tb}/build/packages/{dep}/gleam.toml", f'name = "{dep}"\nversion = "1.0.0"\n')
        w(dep_path, dep_src)
        c.notify("textDocument/didOpen", {"textDocument": {"uri": dep_uri, "languageId": "gleam", "version": 1, "text": dep_src}})
        for (line, col, where) in ((0, 8, "its definition"), (5, 3, "a use inside the dependency")):
            pos = {"textDocument": {"uri": dep_uri}, "position": {"line": line, "character": col}}
            for method, params in (("textDocument/prepareRename", pos), ("textDocument/rename", dict(pos, newName="greet"))):
                r = c.request(method, params, timeout=30)
                res.cov["evaluations"] += 1
                if r is not None and "error" not in r and (r.get("result") is not None):
                    res.add_violation(key, f"{method.split('/')[1]} at {where} of `hello`, defined in build/packages/{dep} (downloaded after the server had loaded the workspace; "
                                      f"{'listed in gleam.toml from the start' if listed else 'added to gleam.toml afterwards'}; no file events), is accepted",
                                      {"tree": tb, "dependency": dep, "listed_at_start": listed, "request": {"method": method, "params": params}, "answer": r})
                    return
    finally:
        c.close()


def run_e2e_same_name(res, tb, rng, prop):
    """two packages of the same NAME in one session — a local checkout and the copy an application has under its
    build/packages — opened in either order: the copy under build/packages stays external, the checkout stays editable"""
    def w(path, text):
        os.makedirs(os.path.dirname(path), exist_ok=True)
        open(path, "w").write(text)
    name = rng.choice(["mylib", "gleam_stdlib", "shared"])
    src = "pub fn greet() {\n  1\n}\n\npub fn twice() {\n  greet() + greet()\n}\n"
    w(f"{tb}/{name}/gleam.toml", f'name = "{name}"\nversion = "2.0.0"\n')
    w(f"{tb}/{name}/src/{name}.gleam", src)
    w(f"{tb}/app/gleam.toml", f'name = "app"\n[dependencies]\n{name} = "1.0"\n')
    w(f"{tb}/app/src/app.gleam", f"import {name}\n\npub fn main() {{\n  {name}.greet()\n}}\n")
    w(f"{tb}/app/build/packages/{name}/gleam.toml", f'name = "{name}"\nversion = "1.0.0"\n')
    w(f"{tb}/app/build/packages/{name}/src/{name}.gleam", src)
    local_u = "file://" + f"{tb}/{name}/src/{name}.gleam"
    app_u = "file://" + f"{tb}/app/src/app.gleam"
    dep_u = "file://" + f"{tb}/app/build/packages/{name}/src/{name}.gleam"
    texts = {local_u: src, dep_u: src, app_u: open(f"{tb}/app/src/app.gleam").read()}
    order = [local_u, app_u, dep_u] if rng.random() < 0.6 else rng.sample([local_u, app_u, dep_u], 3)
    key_ext = "C17/dependency-editable-with-same-named-local-package" if prop == "C17" else "C08/external-symbol-renameable-with-same-named-local-package"
    key_loc = "C17/local-package-not-renameable" if prop == "C17" else "C08/local-symbol-refused-with-same-named-dependency"
    c = lsp.Lsp(tb)
    try:
        if c.initialize() is None:
            return
        for u in order:
            c.notify("textDocument/didOpen", {"textDocument": {"uri": u, "languageId": "gleam", "version": 1, "text": texts[u]}})
        pos = {"line": 0, "character": 8}
        for (u, external) in ((dep_u, True), (local_u, False)):
            for method, params in (("textDocument/prepareRename", {"textDocument": {"uri": u}, "position": pos}),
                                   ("textDocument/rename", {"textDocument": {"uri": u}, "position": pos, "newName": "salute"})):
                r = c.request(method, params, timeout=30)
                res.cov["evaluations"] += 1
                accepted = r is not None and bool(r.get("result"))
                edits = sum(len(v) for v in (((r or {}).get("result") or {}).get("changes") or {}).values()) if method.endswith("/rename") and accepted else None
                if external and accepted:
                    res.add_violation(key_ext, f"{method.split('/')[1]} of `greet` in app/build/packages/{name} is accepted (documents opened in the order {[x.replace('file://' + tb, '') for x in order]})",
                                      {"tree": tb, "order": [x.replace("file://" + tb, "") for x in order], "package": name, "request": method, "answer": r})
                    return
                if not external and (not accepted or edits == 0):
                    res.add_violation(key_loc, f"{method.split('/')[1]} of `greet` in the local checkout {name}/ is {'refused' if not accepted else 'accepted without edits'} (order {[x.replace('file://' + tb, '') for x in order]})",
                                      {"tree": tb, "order": [x.replace("file://" + tb, "") for x in order], "package": name, "request": method, "answer": r})
                    return
    finally:
        c.close()


def run_e2e_chain(res, tb, rng):
    """app -> lib -> core, both under build/packages: what a module of `lib` can import (its own direct dependency `core`)
    and what the application cannot (the transitive `core`) must not change when the package graph is rebuilt during the
    session (manifest re-read, a file of another root opened)."""
    def w(path, text):
        os.makedirs(os.path.dirname(path), exist_ok=True)
        open(path, "w").write(text)
    w(f"{tb}/app/gleam.toml", 'name = "app"\n[dependencies]\nlib = "1.0"\n')
    w(f"{tb}/app/build/packages/lib/gleam.toml", 'name = "lib"\n[dependencies]\ncore = "1.0"\n')
    w(f"{tb}/app/build/packages/core/gleam.toml", 'name = "core"\n')
    core_src = "pub fn helper() {\n  1\n}\n"
    lib_src = "import core/util\n\npub fn api() {\n  util.helper()\n}\n"
    app_src = "import lib/api\nimport core/util\n\npub fn main() {\n  api.api()\n  util.helper()\n}\n"
    w(f"{tb}/app/build/packages/core/src/core/util.gleam", core_src)
    w(f"{tb}/app/build/packages/lib/src/lib/api.gleam", lib_src)
    w(f"{tb}/app/src/app.gleam", app_src)
    w(f"{tb}/other/gleam.toml", 'name = "other"\n')
    w(f"{tb}/other/src/other.gleam", "pub fn o() { 1 }\n")
    w(f"{tb}/loose/free.gleam", "pub fn lonely() { 1 }\n")
    U = lambda p: "file://" + p
    app_u, lib_u = U(f"{tb}/app/src/app.gleam"), U(f"{tb}/app/build/packages/lib/src/lib/api.gleam")
    core_p = f"{tb}/app/build/packages/core/src/core/util.gleam"
    c = lsp.Lsp(tb)
    try:
        if c.initialize() is None:
            return
        c.notify("textDocument/didOpen", {"textDocument": {"uri": app_u, "languageId": "gleam", "version": 1, "text": app_src}})
        c.notify("textDocument/didOpen", {"textDocument": {"uri": lib_u, "languageId": "gleam", "version": 1, "text": lib_src}})
        history = []

        def target(uri, line, col):
            r = c.request("textDocument/definition", {"textDocument": {"uri": uri}, "position": {"line": line, "character": col}}, timeout=30)
            res.cov["evaluations"] += 1
            if r and r.get("result"):
                loc = r["result"][0] if isinstance(r["result"], list) else r["result"]
                t = loc.get("uri") or loc.get("targetUri")
                return os.path.normpath(t[7:]) if t and t.startswith("file://") else t
            return None

        def ask(stage):
            t1 = target(lib_u, 3, 7)        # util.helper() inside lib: core is lib's direct dependency
            if t1 != core_p:
                res.add_violation("C17/import-of-direct-dependency-unresolved", f"after {stage}: `util.helper` inside build/packages/lib (which depends on core) resolves to {str(t1).replace(tb, '')}",
                                  {"tree": tb, "history": list(history), "asked_in": "build/packages/lib/src/lib/api.gleam"})
                return False
            t2 = target(app_u, 5, 7)        # util.helper() inside app: core is only a transitive dependency
            if t2 is not None:
                res.add_violation("C17/import-of-transitive-dependency-resolves", f"after {stage}: module core/util of `core`, not a direct dependency of the application, resolves to {str(t2).replace(tb, '')}",
                                  {"tree": tb, "history": list(history), "asked_in": "src/app.gleam"})
                return False
            t3 = target(app_u, 4, 7)        # api.api() inside app: lib is direct
            if t3 != f"{tb}/app/build/packages/lib/src/lib/api.gleam":
                res.add_violation("C17/import-of-direct-dependency-unresolved", f"after {stage}: `api.api` in the application resolves to {str(t3).replace(tb, '')}",
                                  {"tree": tb, "history": list(history), "asked_in": "src/app.gleam"})
                return False
            return True

        if not ask("the first documents were opened"):
            return
        events = ["manifest-event", "other-root-opened", "free-file-opened", "dependency-manifest-event"]
        rng.shuffle(events)
        for ev in events[: rng.randrange(2, 5)]:
            if ev == "manifest-event":
                c.notify("workspace/didChangeWatchedFiles", {"changes": [{"uri": U(f"{tb}/app/gleam.toml"), "type": 2}]})
            elif ev == "dependency-manifest-event":
                c.notify("workspace/didChangeWatchedFiles", {"changes": [{"uri": U(f"{tb}/app/build/packages/lib/gleam.toml"), "type": 2}]})
            elif ev == "other-root-opened":
                c.notify("textDocument/didOpen", {"textDocument": {"uri": U(f"{tb}/other/src/other.gleam"), "languageId": "gleam", "version": 1, "text": "pub fn o() { 1 }\n"}})
            else:
                c.notify("textDocument/didOpen", {"textDocument": {"uri": U(f"{tb}/loose/free.gleam"), "languageId": "gleam", "version": 1, "text": "pub fn lonely() { 1 }\n"}})
            history.append(ev)
            if not ask(ev):
                return
    finally:
        c.close()


def run_e2e_nested(res, tb, rng):
    """a package of its own inside the directory of another one, outside src/, test/ and build/ (a code generator under
    tools/, an example under examples/), not a dependency of anything: each file belongs to the innermost package root
    containing it - whichever of the two packages the editor opens first"""
    def w(path, text):
        os.makedirs(os.path.dirname(path), exist_ok=True)
        open(path, "w").write(text)
    sub = rng.choice(["tools/gen", "examples/demo", "scripts/x/y", "vendor/thing"])
    w(f"{tb}/app/gleam.toml", 'name = "app"\n')
    w(f"{tb}/app/src/helper.gleam", 'pub fn which() {\n  "app"\n}\n')
    w(f"{tb}/app/src/app.gleam", "import helper\npub fn main() {\n  helper.which()\n}\n")
    w(f"{tb}/app/{sub}/gleam.toml", 'name = "inner"\n')
    w(f"{tb}/app/{sub}/src/helper.gleam", 'pub fn which() {\n  "inner"\n}\n')
    w(f"{tb}/app/{sub}/src/inner.gleam", "import helper\npub fn main() {\n  helper.which()\n}\n")
    order = [("app", f"{tb}/app/src/app.gleam", f"{tb}/app/src/helper.gleam"), ("inner", f"{tb}/app/{sub}/src/inner.gleam", f"{tb}/app/{sub}/src/helper.gleam")]
    if rng.random() < 0.35:
        order.reverse()
    c = lsp.Lsp(tb + "/app")
    try:
        if c.initialize() is None:
            return
        for name, path, _ in order:
            c.notify("textDocument/didOpen", {"textDocument": {"uri": "file://" + path, "languageId": "gleam", "version": 1, "text": open(path).read()}})
        for name, path, want in order:
            r = c.request("textDocument/definition", {"textDocument": {"uri": "file://" + path}, "position": {"line": 2, "character": 10}}, timeout=30)
            res.cov["evaluations"] += 1
            target = None
            if r and r.get("result"):
                loc = r["result"][0] if isinstance(r["result"], list) else r["result"]
                target = loc.get("uri") or loc.get("targetUri")
            if target is None or os.path.normpath(target[7:]) != want:
                res.add_violation("C17/file-not-in-innermost-package",
                                  f"`helper.which` in package {name} (opened {'first' if order[0][0] == name else 'second'}) resolves to {str(target).replace(tb, '')}; "
                                  f"the module `helper` of its own package is {want.replace(tb, '')}",
                                  {"tree": tb, "nested_under": sub, "order": [n for n, _, _ in order], "answer": r})
    finally:
        c.close()


def run_e2e_session(res, tb, rng):
    """several package roots assembled in ONE server session: two independent projects that each carry their own
    copy of a dependency of the same name, and a path dependency whose file is opened before the application's.
    Every import must reach the copy under the importing project's own build/packages."""
    def w(path, text):
        os.makedirs(os.path.dirname(path), exist_ok=True)
        open(path, "w").write(text)
    dep = rng.choice(["shared", "gleam_stdlib", "aaa"])
    projects = ["one", "two"] if rng.random() < 0.5 else ["two", "one"]
    for pr in ("one", "two"):
        w(f"{tb}/{pr}/gleam.toml", f'name = "{pr}"\n[dependencies]\n{dep} = "1.0"\n')
        w(f"{tb}/{pr}/build/packages/{dep}/gleam.toml", f'name = "{dep}"\n')
        w(f"{tb}/{pr}/build/packages/{dep}/src/util.gleam", f"pub fn version() {{ \"{pr}\" }}\n")
        w(f"{tb}/{pr}/src/{pr}.gleam", "import util\npub fn main() {\n  util.version()\n}\n")
    # a path dependency that needs the same dependency (it has no copy of its own: as part of `app` it uses app's)
    w(f"{tb}/lib/gleam.toml", f'name = "lib"\n[dependencies]\n{dep} = "1.0"\n')
    w(f"{tb}/lib/src/lib.gleam", "pub fn helper() {\n  1\n}\n")
    w(f"{tb}/app/gleam.toml", f'name = "app"\n[dependencies]\nlib = {{ path = "../lib" }}\n{dep} = "1.0"\n')
    w(f"{tb}/app/build/packages/{dep}/gleam.toml", f'name = "{dep}"\n')
    w(f"{tb}/app/build/packages/{dep}/src/util.gleam", "pub fn version() { \"app\" }\n")
    w(f"{tb}/app/src/app.gleam", "import util\nimport lib\npub fn main() {\n  util.version()\n  lib.helper()\n}\n")
    order = [(pr, f"{tb}/{pr}/src/{pr}.gleam") for pr in projects] + [("app", f"{tb}/app/src/app.gleam")]
    rng.shuffle(order)
    # sometimes the very first document of a project is a module of one of its dependencies
    dep_first = rng.choice([None, "one", "two", "app"])
    c = lsp.Lsp(tb)
    try:
        if c.initialize() is None:
            return
        if dep_first:
            dpath = f"{tb}/{dep_first}/build/packages/{dep}/src/util.gleam"
            c.notify("textDocument/didOpen", {"textDocument": {"uri": "file://" + dpath, "languageId": "gleam", "version": 1, "text": open(dpath).read()}})
            # the dependency's own function: navigable, not editable
            r = c.request("textDocument/prepareRename", {"textDocument": {"uri": "file://" + dpath}, "position": {"line": 0, "character": 8}}, timeout=30)
            res.cov["evaluations"] += 1
            if r is not None and r.get("result"):
                res.add_violation("C17/dependency-file-editable-when-opened-first",
                                  f"a function of build/packages/{dep} (opened before any file of project {dep_first}) can be renamed: {r.get('result')}",
                                  {"tree": tb, "opened_first": dpath.replace(tb, ''), "dependency": dep, "answer": r})
        for pr, path in order:
            c.notify("textDocument/didOpen", {"textDocument": {"uri": "file://" + path, "languageId": "gleam", "version": 1, "text": open(path).read()}})
        for pr, path in order:
            text = open(path).read()
            off = text.index("util.version") + 5
            line = text.count("\n", 0, off); col = off - (text.rfind("\n", 0, off) + 1)
            r = c.request("textDocument/definition", {"textDocument": {"uri": "file://" + path}, "position": {"line": line, "character": col}}, timeout=30)
            res.cov["evaluations"] += 1
            target = None
            if r and r.get("result"):
                loc = r["result"][0] if isinstance(r["result"], list) else r["result"]
                target = loc.get("uri") or loc.get("targetUri")
            want = "file://" + f"{tb}/{pr}/build/packages/{dep}/src/util.gleam"
            if target is None or os.path.normpath(target[7:]) != want[7:]:
                res.add_violation("C17/import-resolves-into-another-project",
                                  f"`util.version` in {pr} (opened {'after' if order.index((pr, path)) else 'first'}) resolves to {str(target).replace(tb, '')}, its own dependency is {want.replace('file://' + tb, '')}",
                                  {"tree": tb, "order": [p for p, _ in order], "dependency_file_opened_first_in": dep_first, "dependency": dep, "answer": r})
    finally:
        c.close()


def run_e2e(res, tb, pkgs):
    """open a file of the application that imports one module of every other package and ask for definitions"""
    app = pkgs[0]
    byname = {p.name: p for p in pkgs}
    direct = [byname[d] for d in app.deps]
    others = [p for p in pkgs[1:] if p not in direct]
    lines, probes = [], []
    for p in pkgs[1:]:
        for path, (mod, _) in p.files.items():
            if "/test/" in path:
                continue
            alias = f"m_{p.name}"
            lines.append(f"import {mod} as {alias}")
            probes.append((p, path, alias))
            break
    body = ["pub fn main() {"]
    for (p, path, alias) in probes:
        body.append(f"  {alias}.f_{p.name}()")
    body.append("  1\n}")
    text = "\n".join(lines + body) + "\n"
    main = app.root + "/src/zz_main.gleam"
    os.makedirs(app.root + "/src", exist_ok=True)
    open(main, "w").write(text)
    c = lsp.Lsp(app.root)
    try:
        if c.initialize() is None:
            return
        uri = "file://" + main
        c.notify("textDocument/didOpen", {"textDocument": {"uri": uri, "languageId": "gleam", "version": 1, "text": text}})
        for k, (p, path, alias) in enumerate(probes):
            line = len(lines) + 1 + k
            col = 2 + len(alias) + 1
            r = c.request("textDocument/definition", {"textDocument": {"uri": uri}, "position": {"line": line, "character": col}}, timeout=20)
            res.cov["evaluations"] += 1
            target = None
            if r and r.get("result"):
                loc = r["result"][0] if isinstance(r["result"], list) else r["result"]
                target = loc.get("uri") or loc.get("targetUri")
                if target and target.startswith("file://"):
                    target = "file://" + os.path.normpath(target[7:])
            # a module is importable from the application iff its package is the application or a DIRECT dependency;
            # equal module names: the importing package's own module, then its direct dependencies
            # (src/ and test/ files both claim their module name; several claimants = the layout does not fix the winner)
            claims = [f for q in [app] + direct for f, (m, _) in q.files.items() if m == p.files[path][0]]
            visible = [q for q in [app] + direct if any(m == p.files[path][0] for f, (m, _) in q.files.items())]
            if len(claims) > 1 and len(visible) == 1:
                visible = visible * 2
            if p in direct or p is app:
                if target is None and len(visible) > 1:
                    pass    # equal module names in several visible packages: which one wins is not fixed by the layout
                elif target is None:
                    res.add_violation("C17/import-of-direct-dependency-unresolved", f"`{alias}.f_{p.name}` (module {p.files[path][0]} of direct dependency {p.name}) does not resolve",
                                      {"tree": tb, "file": text, "probe": alias, "answer": r})
                elif not any(target == "file://" + f for q in visible for f in q.files):
                    res.add_violation("C17/import-resolves-outside-visible-packages", f"`{alias}` resolves to {target}", {"tree": tb, "file": text, "answer": r})
            else:
                if target is not None and not visible:
                    res.add_violation("C17/import-of-transitive-dependency-resolves", f"module {p.files[path][0]} of {p.name}, not a direct dependency of the application, resolves to {target}",
                                      {"tree": tb, "file": text, "answer": r})
            # external packages are navigable, not editable; everything else is the user's own code
            if target is not None:
                pr = c.request("textDocument/prepareRename", {"textDocument": {"uri": uri}, "position": {"line": line, "character": col}}, timeout=20)
                accepted = pr is not None and "error" not in pr and bool(pr.get("result"))
                if p.kind == "registry" and accepted:
                    res.add_violation("C17/external-package-renameable", f"prepare-rename accepts `f_{p.name}` defined in build/packages", {"tree": tb, "answer": pr})
                if p.kind != "registry" and pr is not None and not accepted:
                    res.add_violation("C17/local-package-not-renameable", f"prepare-rename refuses `f_{p.name}` of the {p.kind} package at {p.root.replace(tb, '')} (not under build/packages)", {"tree": tb, "answer": pr})
    finally:
        c.close()


PROOF_MODULES = {"C17": ["Glas.Props.C17", "Glas.Props.C17Imports", "Glas.Props.C17Graph"]}


def run(prop, res, tier, seed):
    res.assumptions += ["the filesystem enters the model as the set of directories containing a gleam.toml; walking directories (walkdir) and TOML parsing are not modelled"]
    try:
        res.extra.update(common.prove(prop, PROOF_MODULES[prop]))
    except Broken as b:
        res.add_broken(b.what, b.detail)
    run_c17(res, tier, seed)
    if res.disagreements:
        rq, a, b = res.disagreements[0]
        res.add_broken("correspondence model-vs-implementation (M-project)", f"{len(res.disagreements)} disagreeing cases; first: {rq} impl={a!r} model={b!r}")


def replay(prop, path):
    print(open(path).read()[:4000])
    return 0
