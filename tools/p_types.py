"""C09: inferred types agree with Gleam's typing on well-typed programs.
Proved (Lean): the union-find table of the inference engine is a correct partition structure
(Props/C09UF.lean, model Glas/Model/UnionFind.lean, tied by the hook ide::verif_union_find_script);
a checker of type assignments is sound for Gleam's typing rules of the core (Props/C09.lean, model
Glas/Model/TySpec.lean).  Per run: a type-directed generator builds programs whose binder types are
known by construction; the types glas shows (hover) are compared with them, and both assignments are
validated by the proved checker (driver `tycheck`)."""
import json, os, random, re
import common, gen_types
from common import hexs, unhexs, Broken

PROOF_MODULES = {"C09": ["Glas.Props.C09UF", "Glas.Props.C09", "Glas.Audit.C09"]}
# models: Glas/Model/UnionFind.lean (table), Glas/Model/Infer.lean (M-ty: the engine over the core language),
# Glas/Model/TySpec.lean (Gleam's rules + proved checker)


def uf_scripts(rng, n):
    out = []
    for _ in range(n):
        size = rng.randrange(1, 14)
        ops = [f"p{rng.randrange(100)}" for _ in range(size)]
        for _ in range(rng.randrange(0, 30)):
            k = rng.randrange(10)
            if k < 5:
                ops.append(f"u{rng.randrange(size)},{rng.randrange(size)}")
            elif k < 8:
                ops.append(f"f{rng.randrange(size)}")
            elif k < 9:
                ops.append(f"g{rng.randrange(size)}")
            else:
                ops.append(f"p{rng.randrange(100)}"); size += 1
        out.append("uf\t" + ";".join(ops))
    # chains: unify in an order that builds deep trees before compressing
    for m in (8, 16, 33):
        ops = [f"p{i}" for i in range(m)]
        step = 1
        while step < m:
            ops += [f"u{i},{i + step}" for i in range(0, m - step, 2 * step)]
            step *= 2
        ops += [f"f{i}" for i in range(m)] + [f"g{i}" for i in range(m)]
        out.append("uf\t" + ";".join(ops))
    out.append("uf\tp1;f5")
    out.append("uf\tp1;u0,3")
    return out


def strip_md(h):
    """hover markup -> type text; for functions `fn name(...) -> r` -> `fn(...) -> r`"""
    m = re.match(r"```gleam\n(.*?)\n```", h, re.S)
    if not m:
        return None
    t = m.group(1).strip()
    m2 = re.match(r"fn [a-z_][A-Za-z0-9_]*\(", t)
    if m2:
        t = "fn(" + t[m2.end():]
    return t


def run_programs(res, rng, nprog, tier):
    lines, plan, gens = [], [], []
    for k in range(nprog):
        seed = rng.randrange(1 << 30)
        g, texts = gen_types.generate(seed, rng.choice([4, 8, 12]), rng.random() < 0.7)
        gens.append((seed, g, texts))
        mods = sorted(texts)
        files = [(f"/w/p/src/{m}.gleam", texts[m]) for m in mods] + [("/w/p/gleam.toml", 'name = "p"\n')]
        lines.append("ws-begin")
        for p, t in files:
            lines.append(f"file\t{p}\t{hexs(t)}")
        lines.append("root\t/w/p\t" + ",".join(str(i) for i in range(len(files))))
        lines.append(f"pkg\tp\t{len(files) - 1}\t1\t-")
        lines.append("ws-end")
        for (bid, name, mod, ty, hov) in g.binders:
            if bid in g.anchors:
                at = re.search(g.anchors[bid], texts[mod]).start(1)
            else:
                at = re.search(r"\b" + re.escape(name) + r"\b", texts[mod]).start()
            plan.append((k, "loc", bid, name, ty, hov, len(lines)))
            lines.append(f"hover\t{mods.index(mod)}\t{at}")
        for f in g.fns:
            off = texts[f.module].index("pub fn " + f.name + "(") + 7
            plan.append((k, "fn", f.name, f.name, f.ty(), True, len(lines)))
            lines.append(f"hover\t{mods.index(f.module)}\t{off}")
    n = max(1, min(8, len(lines) // 4000))
    # split at program boundaries
    starts = [i for i, l in enumerate(lines) if l == "ws-begin"]
    cuts = [starts[(len(starts) * j) // n] for j in range(n)] + [len(lines)]
    chunks = [lines[cuts[j]:cuts[j + 1]] for j in range(n)]
    outs = common.parallel_map(lambda ls: common.run_lines(common.HARNESS_BIN, ls), chunks, workers=n)
    out = []
    for (o, rc), ch in zip(outs, chunks):
        if len(o) != len(ch):
            raise Broken("implementation harness died", f"rc={rc} during hover on generated programs; next request: {ch[len(o)][:120] if len(o) < len(ch) else ''}")
        out += o
    res.cov["evaluations"] += len(plan)
    # assignments as displayed
    shown = {}           # k -> (fn types, local types)
    out_shown = {}       # (k, kind, key) -> True when glas displayed a type
    stats = {"binders": 0, "functions": 0, "not_shown": 0, "equal": 0, "different": 0}
    feats = {}
    for (k, kind, key, name, ty, hov, li) in plan:
        a = out[li]
        fn_t, loc_t = shown.setdefault(k, ({}, {}))
        expected = gen_types.canon_gens(ty)
        got = None
        if a.startswith("PANIC"):
            seed, g, texts = gens[k]
            res.add_violation("C09/panic/hover", f"hover on `{name}` panicked: {a[:100]}", {"seed": seed, "texts": texts, "binder": name})
        elif a != "none" and " " in a:
            t = strip_md(unhexs(a.split(" ", 1)[1]))
            try:
                got = gen_types.parse_type(t) if t is not None else None
            except Exception:
                got = ("unparsed", t)
        if kind == "fn": stats["functions"] += 1
        else: stats["binders"] += 1
        if got is None:
            stats["not_shown"] += 1
            # nothing shown: the checker needs a type for the binder; take the expected one
            (fn_t if kind == "fn" else loc_t)[key] = ty
            continue
        if got[0] == "unparsed":
            seed, g, texts = gens[k]
            res.add_violation("C09/unparsable-type", f"type shown for `{name}` is not a type: {got[1]!r}", {"seed": seed, "texts": texts, "binder": name})
            (fn_t if kind == "fn" else loc_t)[key] = ty
            continue
        (fn_t if kind == "fn" else loc_t)[key] = got
        out_shown[(k, kind, key)] = True
        if gen_types.canon_gens(got) == expected:
            stats["equal"] += 1
        else:
            stats["different"] += 1
            seed, g, texts = gens[k]
            shape = classify(g, texts, name, kind)
            owner = owner_fn(g, texts, name, kind)
            if owner and "access-on-late-bound-parameter" in g.fn_flags.get(owner, ()):
                shape = "access-on-late-bound-parameter"
            res.add_violation("C09/wrong-type/" + shape,
                              f"`{name}` ({'function' if kind == 'fn' else 'binder'}): glas shows {gen_types.show(got)}, Gleam assigns {gen_types.show(ty)}",
                              {"seed": seed, "texts": texts, "binder": name, "shown": gen_types.show(got), "expected": gen_types.show(ty)})
    # the proved checker on both assignments
    reqs, meta = [], []
    for k, (seed, g, texts) in enumerate(gens):
        for f, c in g.features.items():
            feats[f] = feats.get(f, 0) + c
        prog = g.program_sexp()
        efn, eloc = g.expected_assignment()
        reqs.append("tycheck\t" + prog + "\t" + gen_types.assignment_sexp(efn, eloc)); meta.append((k, "expected"))
        sfn, sloc = shown.get(k, ({}, {}))
        reqs.append("tycheck\t" + prog + "\t" + gen_types.assignment_sexp(sfn, sloc)); meta.append((k, "shown"))
    # the model of the inference engine on the same programs
    ireqs = ["tyinfer\t" + g.program_sexp(all_ann=True) + "\t" + gen_types.groups_sexp(g) for (seed, g, texts) in gens]
    mo_all, rc = common.run_lines(common.DRIVER_BIN, reqs + ireqs)
    if len(mo_all) != len(reqs) + len(ireqs):
        raise Broken("Lean driver died", "on tycheck / tyinfer requests")
    mo, io = mo_all[:len(reqs)], mo_all[len(reqs):]
    mstats = {"model_valid": 0, "model_invalid": 0, "compared": 0}
    for k, ((seed, g, texts), out) in enumerate(zip(gens, io)):
        if not (out.startswith("valid ") or out.startswith("invalid(")):
            res.disagreements.append((f"tyinfer seed {seed}", "types shown by glas", out[:200]))
            continue
        if out.startswith("valid "):
            mstats["model_valid"] += 1
        else:
            bad_fns = out[len("invalid("):out.index(")")].split(",")
            # functions that call a rejected one inherit its unresolved result; the shape is recorded per function
            flagged = {n for n, fl in g.fn_flags.items() if "access-on-late-bound-parameter" in fl}
            def tainted(n, seen=()):
                f = next((f for f in g.fns if f.name == n), None)
                if f is None or n in seen: return False
                if n in flagged: return True
                return any(tainted(m, seen + (n,)) for m in set(re.findall(r"\(fr (\w+)\)", f.sexp)))
            if all(tainted(n) for n in bad_fns):
                mstats["model_known"] = mstats.get("model_known", 0) + 1
                res.add_violation("C09/wrong-type/access-on-late-bound-parameter",
                                  f"the engine's assignment for {','.join(bad_fns)} is not a typing (rejected by the proved checker): access on a late-bound parameter",
                                  {"seed": seed, "texts": texts, "binder": bad_fns[0]})
            else:
                mstats["model_invalid"] += 1
                res.extra.setdefault("model_result_not_validated", []).append({"seed": seed, "result": out[:120]})
        body = out.split(" ", 1)[1]
        fpart, lpart = body.split("|loc ")
        mfn = {x.split("=", 1)[0]: x.split("=", 1)[1] for x in fpart[3:].split(";") if x}
        mloc = {int(x.split("=", 1)[0]): x.split("=", 1)[1] for x in lpart.split(";") if x}
        sfn, sloc = shown.get(k, ({}, {}))
        hover_seen = {(kind, key) for (kk, kind, key, name, ty, hov, li) in plan if kk == k and out_shown.get((k, kind, key))}
        for (kind, key) in hover_seen:
            got_m = (mfn if kind == "fn" else mloc).get(key)
            got_i = (sfn if kind == "fn" else sloc).get(key)
            if got_i is None:
                continue
            mstats["compared"] += 1
            try:
                same = got_m is not None and gen_types.canon_gens(gen_types.parse_type(got_m)) == gen_types.canon_gens(got_i)
            except Exception:
                same = False
            if not same:
                res.disagreements.append((f"seed {seed} {kind} {key}", gen_types.show(got_i), str(got_m)))
    res.extra["model_stats"] = mstats
    vstats = {"expected_ok": 0, "expected_rejected": 0, "shown_ok": 0, "shown_rejected": 0}
    for (k, which), o in zip(meta, mo):
        seed, g, texts = gens[k]
        if which == "expected":
            if o == "ok":
                vstats["expected_ok"] += 1
            else:
                vstats["expected_rejected"] += 1
                # the oracle itself is not validated: a generator or checker gap, never a violation of glas
                res.extra.setdefault("oracle_not_validated", []).append({"seed": seed, "result": o})
        else:
            if o == "ok":
                vstats["shown_ok"] += 1
            else:
                vstats["shown_rejected"] += 1
    res.extra["hover_stats"] = stats
    res.extra["validator_stats"] = vstats
    res.extra["feature_histogram"] = feats
    res.cov["distinct_nontrivial"] += stats["equal"] + stats["different"]
    return stats, vstats


def owner_fn(g, texts, name, kind):
    """the top-level function whose text contains the binder (or the function itself)"""
    if kind == "fn":
        return name
    for f in g.fns:
        if f.text and re.search(r"\b" + re.escape(name) + r"\b", f.text):
            return f.name
    return None


def classify(g, texts, name, kind):
    """site shape of a wrong type: the syntactic construct that binds the name"""
    if kind == "fn":
        return "function-signature"
    for (bid, n, mod, ty, hov) in g.binders:
        if n == name:
            t = texts[mod]
            m = re.search(r"\b" + re.escape(name) + r"\b", t)
            before = t[max(0, m.start() - 40):m.start()]
            after = t[m.end():m.end() + 3]
            if re.search(r"let\s+$", before): return "let"
            if re.search(r"use\s+$", before): return "use"
            if re.search(r"fn\s*\([^)]*$", before) and "pub fn" not in before.split("\n")[-1]: return "lambda-parameter"
            if "pub fn" in before.split("\n")[-1]: return "parameter"
            if re.search(r"\.\.$", before): return "list-tail-pattern"
            return "pattern"
    return "other"


def run(prop, res, tier, seed):
    res.assumptions += ["Gleam's typing rules for the core are those stated in Glas/Model/TySpec.lean (HasType); the generator's expected types are validated against them by the proved checker on every run",
                        "the inference engine itself (infer.rs: unification over the table, instantiation, SCC order) is exercised through hover, not modelled; its union-find table is modelled and tied by a hook",
                        "type variables are compared up to renaming per displayed type"]
    try:
        res.extra.update(common.prove(prop, PROOF_MODULES[prop]))
    except Broken as b:
        res.add_broken(b.what, b.detail)
    rng = random.Random(seed)
    # 1. union-find: model vs implementation
    scripts = uf_scripts(rng, 400 if tier == "quick" else 20000)
    io, mo = common.run_both(scripts)
    res.cov["evaluations"] += len(scripts)
    for rq, a, b in zip(scripts, io, mo):
        if a != b:
            res.disagreements.append((rq[:300], a[:300], b[:300]))
    # 2a. the recorded finding's own input, replayed on every run
    fixed = ("pub fn apply(v: a, f: fn(a) -> b) -> b {\n  f(v)\n}\n\npub type Box(a) {\n  Box(value: a)\n}\n\n"
             "pub fn late() {\n  apply(Box(1.5), fn(b) { b.value })\n}\n")
    lines = ["ws-begin", f"file\t/w/p/src/m1.gleam\t{hexs(fixed)}", "file\t/w/p/gleam.toml\t" + hexs('name = "p"\n'), "root\t/w/p\t0,1", "pkg\tp\t1\t1\t-", "ws-end",
             f"hover\t0\t{fixed.index('late')}"]
    out, rc = common.run_lines(common.HARNESS_BIN, lines)
    res.cov["evaluations"] += 1
    if len(out) == len(lines) and " " in out[-1]:
        shown = strip_md(unhexs(out[-1].split(" ", 1)[1]))
        if shown is not None and re.sub(r"\s+", "", shown) != "fn()->Float":
            res.add_violation("C09/wrong-type/access-on-late-bound-parameter",
                              f"`apply(Box(1.5), fn(b) {{ b.value }})`: the function's type is shown as `{shown}`, Gleam's is `fn() -> Float`",
                              {"texts": {"m1": fixed}, "binder": "late", "shown": shown})
    fixed2 = "pub fn add(a: Int, b: Int) {\n  a + b\n}\n\npub fn piped(x) {\n  x |> add(1, _)\n}\n"
    lines = ["ws-begin", f"file\t/w/p/src/m1.gleam\t{hexs(fixed2)}", "file\t/w/p/gleam.toml\t" + hexs('name = "p"\n'), "root\t/w/p\t0,1", "pkg\tp\t1\t1\t-", "ws-end",
             f"hover\t0\t{fixed2.index('piped')}"]
    out, rc = common.run_lines(common.HARNESS_BIN, lines)
    res.cov["evaluations"] += 1
    if len(out) == len(lines) and " " in out[-1]:
        shown = strip_md(unhexs(out[-1].split(" ", 1)[1]))
        if shown is not None and re.sub(r"\s+", "", shown) != "fn(Int)->Int":
            res.add_violation("C09/wrong-type/pipe-into-capture",
                              f"`x |> add(1, _)`: the function's type is shown as `{shown}`, Gleam's is `fn(Int) -> Int`",
                              {"texts": {"m1": fixed2}, "binder": "piped", "shown": shown})
    # 2b. a custom type may be called like a type of the prelude (legal Gleam: the module's own type wins); expected types by construction
    run_prelude_named(res, rng, tier)
    run_use_shadow(res, rng, tier)
    run_same_named_across_modules(res, rng, tier)
    run_local_named_like_function(res, rng, tier)
    # 2. programs
    stats, vstats = run_programs(res, rng, 40 if tier == "quick" else 1200, tier)
    if vstats["expected_rejected"] > 0.5 * max(1, vstats["expected_ok"] + vstats["expected_rejected"]):
        res.add_broken("validation of the oracle (the generator's expected types are not accepted by the proved checker)",
                       json.dumps(res.extra.get("oracle_not_validated", [])[:3]))
    if res.extra.get("model_stats", {}).get("model_invalid", 0):
        res.add_broken("validation of the model's result (the proved checker rejects what M-ty infers)",
                       json.dumps(res.extra.get("model_result_not_validated", [])[:3]))
    if res.disagreements:
        rq, a, b = res.disagreements[0]
        res.add_broken("correspondence model-vs-implementation (M-uf vs ide::verif_union_find_script; M-ty vs the types glas displays)",
                       f"{len(res.disagreements)} disagreements; first: {rq} impl={a!r} model={b!r}")
    res.cov["rule"] = ("union-find scripts (random + deep chains + out-of-range); type-directed programs (1-2 modules, 4-12 generated functions + 7 polymorphic helpers "
                       "+ a recursion group, items in random order): hover on every binder and function; nontrivial = binders/functions whose type is shown")


def run_prelude_named(res, rng, tier):
    """modules whose own custom type (declared, or imported unqualified from a sibling module, or behind an alias) is called
    like a prelude type: annotations, constructor fields and results that name it mean the module's type"""
    names = ["Result", "List", "Int", "Float", "String", "Bool", "Nil", "BitArray", "Outcome"]
    for n in names:
        fld = "Int" if n != "Int" else "Float"
        lit = "3" if n != "Int" else "3.5"
        ret, retlit, zero = ("String", '"s"', '"z"') if n != "String" else ("Float", "1.5", "0.5")
        decl = f"pub type {n} {{\n  Mk{n}(score: {fld})\n  Other{n}\n}}\n\n"
        body = (f"pub fn describe(r: {n}) -> {ret} {{\n  case r {{\n    Mk{n}(_) -> {retlit}\n    Other{n} -> {zero}\n  }}\n}}\n\n"
                f"pub fn mk() {{\n  Mk{n}({lit})\n}}\n\n"
                f"pub fn wrap(x: {n}) {{\n  let y = x\n  #(y, {retlit})\n}}\n\n"
                f"pub type Holder {{\n  Holder(inner: {n})\n}}\n\n"
                f"pub fn held(h: Holder) {{\n  h.inner\n}}\n")
        want = {"describe": f"fn({n})->{ret}", "mk": f"fn()->{n}", "wrap": f"fn({n})->#({n},{ret})", "held": f"fn(Holder)->{n}", "y": n}
        for how in ("declared", "imported"):
            if how == "declared":
                files = [("/w/p/src/m1.gleam", decl + body)]
                fi = 0
            else:
                files = [("/w/p/src/m0.gleam", decl), ("/w/p/src/m1.gleam", f"import m0.{{type {n}, Mk{n}, Other{n}}}\n\n" + body)]
                fi = 1
            text = files[fi][1]
            lines = ["ws-begin"] + [f"file\t{p}\t{hexs(t)}" for p, t in files] + ["file\t/w/p/gleam.toml\t" + hexs('name = "p"\n'),
                     f"root\t/w/p\t{','.join(str(i) for i in range(len(files) + 1))}", f"pkg\tp\t{len(files)}\t1\t-", "ws-end"]
            probes = []
            for b in want:
                needle = f"pub fn {b}(" if b != "y" else "let y"
                at = text.index(needle) + (7 if b != "y" else 4)
                probes.append(b)
                lines.append(f"hover\t{fi}\t{len(text[:at].encode())}")
            out, rc = common.run_lines(common.HARNESS_BIN, lines)
            res.cov["evaluations"] += len(probes)
            if len(out) != len(lines):
                continue
            for b, a in zip(probes, out[-len(probes):]):
                shown = strip_md(unhexs(a.split(" ", 1)[1])) if " " in a else None
                if shown is None:
                    continue
                if re.sub(r"\s+", "", shown) != want[b]:
                    res.add_violation("C09/wrong-type/custom-type-named-like-prelude",
                                      f"a module's own type `{n}` ({how}): `{b}` is shown as `{shown}`, Gleam's type is `{want[b]}`",
                                      {"texts": {p: t for p, t in files}, "binder": b, "shown": shown, "expected": want[b]})
                    break


def run_same_named_across_modules(res, rng, tier):
    """one function reaches TWO declarations of the same name from different modules - aliases (`geo.Id = Int`, `account.Id = String`),
    custom types, and aliases behind constructor fields - through its annotations, constructors and patterns: each mention means its
    own module's declaration.  Types fixed by the construction."""
    pairs = [("Int", "String", "1", '"s"'), ("Float", "Bool", "1.5", "True"), ("String", "List(Int)", '"s"', "[1]"), ("#(Int, Int)", "Float", "#(1, 2)", "0.5")]
    for nm in ("Id", "Key", "Unit"):
        for (ta, tb, la, lb) in (pairs if tier != "quick" else rng.sample(pairs, 2)):
            geo = f"pub type {nm} = {ta}\n\npub type Place {{\n  Place(id: {nm}, n: Int)\n}}\n\npub fn origin() -> {nm} {{\n  {la}\n}}\n"
            acc = f"pub type {nm} = {tb}\n\npub type Owner {{\n  Owner(id: {nm})\n}}\n\npub fn nobody() -> {nm} {{\n  {lb}\n}}\n"
            order = rng.random() < 0.5
            main = ("import geo\nimport account\n\n"
                    + (f"pub fn describe(place: geo.{nm}, owner: account.{nm}) {{\n  #(place, owner)\n}}\n\n" if order else
                       f"pub fn describe(owner: account.{nm}, place: geo.{nm}) {{\n  #(owner, place)\n}}\n\n")
                    + f"pub fn fields(p: geo.Place, o: account.Owner) {{\n  let pid = p.id\n  let oid = o.id\n  #(oid, pid)\n}}\n\n"
                    + f"pub fn pats(p: geo.Place, o: account.Owner) {{\n  let geo.Place(gid, _) = p\n  let account.Owner(aid) = o\n  #(gid, aid)\n}}\n\n"
                    + f"pub fn calls() {{\n  let a = account.nobody()\n  let g = geo.origin()\n  #(g, a)\n}}\n")
            A, B = ta.replace(" ", ""), tb.replace(" ", "")
            want = {"pub fn describe": (7, f"fn({A},{B})->#({A},{B})" if order else f"fn({B},{A})->#({B},{A})"),
                    "let pid": (4, A), "let oid": (4, B), "Place(gid": (6, A), "Owner(aid": (6, B), "let a =": (4, B), "let g =": (4, A),
                    "pub fn calls": (7, f"fn()->#({A},{B})"), "pub fn fields": (7, f"fn(Place,Owner)->#({B},{A})")}
            files = [("/w/p/src/geo.gleam", geo), ("/w/p/src/account.gleam", acc), ("/w/p/src/main.gleam", main)]
            lines = ["ws-begin"] + [f"file\t{p}\t{hexs(t)}" for p, t in files] + ["file\t/w/p/gleam.toml\t" + hexs('name = "p"\n'),
                     "root\t/w/p\t0,1,2,3", "pkg\tp\t3\t1\t-", "ws-end"]
            probes = []
            for needle, (d, _) in want.items():
                probes.append(needle)
                lines.append(f"hover\t2\t{len(main[:main.index(needle) + d].encode())}")
            out, rc = common.run_lines(common.HARNESS_BIN, lines)
            res.cov["evaluations"] += len(probes)
            if len(out) != len(lines):
                continue
            for b, a in zip(probes, out[-len(probes):]):
                shown = strip_md(unhexs(a.split(" ", 1)[1])) if " " in a else None
                if shown is None:
                    continue
                if re.sub(r"\s+", "", shown) != want[b][1]:
                    res.add_violation("C09/wrong-type/same-name-in-two-modules",
                                      f"`geo.{nm} = {ta}` and `account.{nm} = {tb}` in one function: at `{b}` the type is shown as `{shown}`, Gleam's type is `{want[b][1]}`",
                                      {"texts": {p: t for p, t in files}, "binder": b, "shown": shown, "expected": want[b][1]})
                    break


def run_use_shadow(res, rng, tier):
    """`use x <- f(g(x))`: the name bound by the use pattern is also mentioned in the call on the right - there it still means
    the OUTER binder (a use pattern is not in scope in its own right-hand side); types fixed by the construction"""
    helpers = ("pub fn try(r: Result(a, e), f: fn(a) -> Result(b, e)) -> Result(b, e) {\n  case r {\n    Ok(v) -> f(v)\n    Error(x) -> Error(x)\n  }\n}\n\n"
               "pub fn parse(t: String) -> Result(Int, Nil) {\n  Ok(1)\n}\n\npub fn halve(n: Int) -> Result(Float, Nil) {\n  Ok(0.5)\n}\n\n")
    progs = [
        ("pub fn checked(text) {\n  use text <- try(parse(text))\n  Ok(#(text, 1))\n}\n",
         {"pub fn checked": "fn(String)->Result(#(Int,Int),Nil)", "checked(text": "String", "use text": "Int"}, {"pub fn checked": 7, "checked(text": 8, "use text": 4}),
        ("pub fn twice(n) {\n  use n <- try(halve(n))\n  use n <- try(Ok(#(n, n)))\n  Ok(n)\n}\n",
         {"pub fn twice": "fn(Int)->Result(#(Float,Float),Nil)", "twice(n": "Int", "use n <- try(halve": "Float"}, {"pub fn twice": 7, "twice(n": 6, "use n <- try(halve": 4}),
        ("pub fn both(text, n) {\n  use n <- try(halve(n))\n  use text <- try(parse(text))\n  Ok(#(text, n))\n}\n",
         {"pub fn both": "fn(String,Int)->Result(#(Int,Float),Nil)", "use n": "Float", "use text": "Int"}, {"pub fn both": 7, "use n": 4, "use text": 4}),
    ]
    for body, want, delta in progs:
        text = helpers + body
        lines = ["ws-begin", f"file\t/w/p/src/m1.gleam\t{hexs(text)}", "file\t/w/p/gleam.toml\t" + hexs('name = "p"\n'), "root\t/w/p\t0,1", "pkg\tp\t1\t1\t-", "ws-end"]
        probes = list(want)
        for needle in probes:
            at = text.index(needle) + delta[needle]
            lines.append(f"hover\t0\t{len(text[:at].encode())}")
        out, rc = common.run_lines(common.HARNESS_BIN, lines)
        res.cov["evaluations"] += len(probes)
        if len(out) != len(lines):
            continue
        for needle, a in zip(probes, out[-len(probes):]):
            shown = strip_md(unhexs(a.split(" ", 1)[1])) if " " in a else None
            if shown is None:
                continue
            if re.sub(r"\s+", "", shown) != want[needle]:
                res.add_violation("C09/wrong-type/use-pattern-shadows-a-name-of-its-own-call",
                                  f"`{needle}` is shown as `{shown}`, Gleam's type is `{want[needle]}`",
                                  {"texts": {"m1": text}, "binder": needle, "shown": shown, "expected": want[needle]})
                break


def run_local_named_like_function(res, rng, tier):
    """a polymorphic function with a LOCAL binder (case pattern, let pattern, lambda parameter, use pattern) spelled like a
    top-level function that (directly or through another function) calls it at a concrete type: the local is not that function, the
    polymorphic function stays polymorphic and is used at two different types.  Types fixed by the construction; items in random order."""
    names = ["value", "item", "inner", "acc", "x1", "go"]
    for kind in ("case", "let", "lambda", "use"):
        for nm in (names if tier != "quick" else rng.sample(names, 2)):
            for via in (False, True):
                if kind == "case":
                    poly = f"pub fn unwrap(result, default) {{\n  case result {{\n    Ok({nm}) -> {nm}\n    Error(_) -> default\n  }}\n}}\n"
                    pty, call1, call2, t1, t2 = "fn(Result(a, b), a) -> a", "unwrap(Ok(1), 0)", 'unwrap(Error(Nil), "d")', "Int", "String"
                    pname, needle, d = "unwrap", f"Ok({nm})", 3
                elif kind == "let":
                    poly = f"pub fn first(pair) {{\n  let #({nm}, _) = pair\n  {nm}\n}}\n"
                    pty, call1, call2, t1, t2 = "fn(#(a, b)) -> a", 'first(#(1, "s"))', 'first(#("x", 2.5))', "Int", "String"
                    pname, needle, d = "first", f"let #({nm}", 6
                elif kind == "lambda":
                    poly = f"pub fn through(x) {{\n  let f = fn({nm}) {{ {nm} }}\n  f(x)\n}}\n"
                    pty, call1, call2, t1, t2 = "fn(a) -> a", "through(1.5)", "through([1])", "Float", "List(Int)"
                    pname, needle, d = "through", f"fn({nm})", 3
                else:
                    poly = f"pub fn with(x, k) {{\n  k(x)\n}}\n\npub fn viause(x) {{\n  use {nm} <- with(x)\n  {nm}\n}}\n"
                    pty, call1, call2, t1, t2 = "fn(a) -> a", "viause(1)", 'viause("s")', "Int", "String"
                    pname, needle, d = "viause", f"use {nm}", 4
                if via:
                    q = f"pub fn {nm}() {{\n  helper_of_{nm}()\n}}\n"
                    q2 = f"pub fn helper_of_{nm}() {{\n  {call1}\n}}\n"
                else:
                    q, q2 = f"pub fn {nm}() {{\n  {call1}\n}}\n", ""
                other = f"pub fn other_use() {{\n  {call2}\n}}\n"
                items = [x for x in (poly, q, q2, other) if x]
                rng.shuffle(items)
                text = "\n".join(items)
                want = {f"pub fn {pname}(": (7, pty), f"pub fn {nm}(": (7, f"fn() -> {t1}"), "pub fn other_use(": (7, f"fn() -> {t2}"), needle: (d, "a")}
                lines = ["ws-begin", f"file\t/w/p/src/m1.gleam\t{hexs(text)}", "file\t/w/p/gleam.toml\t" + hexs('name = "p"\n'), "root\t/w/p\t0,1", "pkg\tp\t1\t1\t-", "ws-end"]
                probes = list(want)
                for n_ in probes:
                    lines.append(f"hover\t0\t{len(text[:text.index(n_) + want[n_][0]].encode())}")
                out, rc = common.run_lines(common.HARNESS_BIN, lines)
                res.cov["evaluations"] += len(probes)
                if len(out) != len(lines):
                    continue
                for n_, a in zip(probes, out[-len(probes):]):
                    shown = strip_md(unhexs(a.split(" ", 1)[1])) if " " in a else None
                    if shown is None:
                        continue
                    try:
                        same = gen_types.canon_gens(gen_types.parse_type(shown)) == gen_types.canon_gens(gen_types.parse_type(want[n_][1]))
                    except Exception:
                        same = re.sub(r"\s+", "", shown) == re.sub(r"\s+", "", want[n_][1])
                    if not same:
                        res.add_violation("C09/wrong-type/local-named-like-a-function-that-calls-its-own-function",
                                          f"a {kind} binder `{nm}` inside polymorphic `{pname}`, and a top-level `fn {nm}` that calls `{pname}`{' through a helper' if via else ''}: "
                                          f"at `{n_}` glas shows `{shown}`, Gleam's type is `{want[n_][1]}`",
                                          {"texts": {"m1": text}, "binder": n_, "shown": shown, "expected": want[n_][1]})
                        break


def replay(prop, path):
    d = json.load(open(path))
    r = d.get("replay", {})
    for m, t in (r.get("texts") or {}).items():
        print(f"--- {m}.gleam"); print(t)
    print({k: v for k, v in r.items() if k != "texts"})
    return 0
