"""C15 (and the black-box half of C13): message sequences against the real `glas` binary over stdio.
Model: lean/Glas/Model/Server.lean (driver command `server`); theorems lean/Glas/Props/C15.lean."""
import json, os, random, shutil, time
import common, lsp, p_text
from common import hexs, Broken

ALPHA = ["a", "b", " ", "\n", "\r\n", "ß", "ℝ", "💣", "(", "{", "}", "fn ", "x", "\ufeff", "\u2028"]


def rand_text(rng, n=None):
    n = rng.randrange(0, 14) if n is None else n
    return "".join(rng.choice(ALPHA) for _ in range(n))


class Doc:
    def __init__(self, key, uri):
        self.key, self.uri = key, uri


def client_clamp(doc, line, col):
    """LSP: a character beyond the line end means the line end; returns char index or None if the line does not exist"""
    lines = p_text.client_lines(doc)
    if line >= len(lines):
        return None
    raw = doc.split("\n")
    idx = sum(len(l) + 1 for l in raw[:line])
    c = 0
    for k, ch in enumerate(lines[line]):
        if c >= col:
            return idx + k if c == col else None      # c > col: inside a surrogate pair
        c += p_text.u16(ch)
    if c < col or c == col:
        return idx + len(lines[line])
    return None


def gen_sequence(rng, root):
    docs = [Doc("f1", "file://" + root + "/src/a.gleam"), Doc("f2", "file://" + root + "/src/b.gleam"),
            Doc("f3", "file://" + root + "/free/c.gleam"), Doc("o1", "untitled:Untitled-1"), Doc("f9", "file://" + root + "/src/never.gleam"),
            # non-file URIs whose path part names a file of the package: they are other documents, not aliases of it
            Doc("o2", "untitled:" + root + "/src/a.gleam"), Doc("o3", "git:" + root + "/src/b.gleam?ref=HEAD"),
            # a file of the package whose name is not valid UTF-8 (percent-encoded bytes): a document like any other
            Doc("f5", "file://" + root + "/src/%FF%C3%28.gleam"),
            # a module deep below directories with long non-ASCII names (each component well under 255 bytes, the whole path over 1 KiB)
            Doc("f6", "file://" + root + "/src/" + "/".join(("模块目录名称很长" * 4) + str(i) for i in range(11)) + "/深.gleam"),
            # a file of the package that comes and goes on disk and is never opened by the editor
            Doc("f8", "file://" + root + "/src/c.gleam")]
    client = {}
    disk = dict(DISK)    # what the package's files hold on disk (key -> text, None = gone)
    disk["f8"] = None
    pkg_loaded = [False]    # the package's files have been read into the store (first contact with the package)          # uri key -> editor text (only while every edit so far was valid); None = unknown to the oracle
    seq = []
    rid = 100
    n = rng.randrange(4, 12)
    is_open = {}
    if rng.random() < 0.3:
        # a probe that always reaches its target: a document with a character outside the BMP is opened and the
        # next change uses the position between its two UTF-16 code units as insertion point, range start or range end
        d = rng.choice(docs[:3])
        t = rand_text(rng, rng.randrange(0, 6)) + rng.choice(["💣", "𝒳", "😀"]) + rand_text(rng, rng.randrange(0, 6))
        if p_text.wf_crlf(t):
            seq.append(("open", d, t))
            is_open[d.key] = True
            pos = p_text.client_positions(t)
            (l, c, ix) = rng.choice([(l, c, ix) for (l, c, ix) in pos if ix < len(t) and ord(t[ix]) >= 0x10000])
            shape = rng.randrange(3)
            after = [q for q in pos if q[2] > ix]
            before = [q for q in pos if q[2] <= ix]
            ins = rand_text(rng, rng.randrange(0, 3))
            if shape == 1 and after:
                q = rng.choice(after); r = (l, c + 1, q[0], q[1])
            elif shape == 2 and before:
                q = rng.choice(before); r = (q[0], q[1], l, c + 1)
            else:
                r = (l, c + 1, l, c + 1)
            seq.append(("change", d, [(r, ins, "mid-surrogate")]))
            client[d.key] = "FORGOTTEN"
    for _ in range(n):
        if rng.random() < 0.2:
            # the rest of the server's registered surface: rename, ranged semantic tokens, formatting, didSave,
            # didChangeConfiguration, didChangeWatchedFiles (files that change or vanish on disk)
            x = rng.randrange(8)
            d = rng.choice(docs)
            if x == 0:
                rid += 1
                seq.append(("xreq", d, "textDocument/rename", {"position": {"line": rng.choice([0, 0, 1, 99, 4294967295]), "character": rng.choice([0, 1, 3, 1000, 4294967295])},
                                                               "newName": rng.choice(["zz", "Zz", "", "a b", "💣", "fn"])}, rid))
            elif x == 1:
                rid += 1
                a = (rng.choice([0, 0, 1, 5, 4294967295]), rng.choice([0, 2, 1000, 4294967295]))
                b = (rng.choice([0, 1, 2, 99, 4294967295]), rng.choice([0, 1, 7, 4294967295]))
                seq.append(("xreq", d, "textDocument/semanticTokens/range", {"range": {"start": {"line": a[0], "character": a[1]}, "end": {"line": b[0], "character": b[1]}}}, rid))
            elif x == 2:
                rid += 1
                seq.append(("xreq", d, "textDocument/formatting", {"options": {"tabSize": 2, "insertSpaces": True}}, rid))
            elif x == 3:
                seq.append(("xnotif", d, "textDocument/didSave", {"textDocument": {"uri": d.uri}}))
            elif x == 4:
                seq.append(("xnotif", d, "workspace/didChangeConfiguration", {"settings": rng.choice([None, {}, {"glas": {"x": [1, "a"]}}, 7])}))
            elif x == 5:
                # notifications the server registers no handler for: editors send them (willSave, a cancelled
                # progress, workspace folders, file operations, traces) and they must not end the session
                m, params = rng.choice(UNHANDLED_NOTIFICATIONS)
                seq.append(("xnotif", d, m, json.loads(json.dumps(params).replace("%URI%", d.uri))))
            else:
                events = []
                touched = set()
                for _e in range(rng.randrange(1, 4)):
                    t = rng.randrange(8)
                    typ = rng.choice([1, 2, 3])
                    if t >= 6:
                        # a file of the package the editor does not hold open (closed again, or never opened): rewritten on
                        # disk, deleted, or merely announced; what the server holds afterwards is what is on disk - or nothing
                        cand = [dd for dd in docs[:2] if not is_open.get(dd.key) and dd.key not in touched]
                        if cand:
                            dd = rng.choice(cand)
                            touched.add(dd.key)
                            act = rng.choice(["write", "delete", "none"])
                            txt = rand_text(rng)
                            events.append((act, dd.uri, typ, txt))
                            if act == "write":
                                disk[dd.key] = txt
                            elif act == "delete":
                                disk[dd.key] = None
                            if not pkg_loaded[0]:
                                client.pop(dd.key, None)     # not in the server's store yet, the package gets loaded later: left to the model
                            elif dd.key in is_open and is_open[dd.key] is None:
                                client[dd.key] = None        # the oracle does not know whether the server still counts it as open
                            elif typ == 3 or disk[dd.key] is None:
                                client[dd.key] = "VANISHED"
                            elif p_text.wf_crlf(disk[dd.key]):
                                client[dd.key] = disk[dd.key]
                            else:
                                client[dd.key] = None
                        continue
                    if t == 0:
                        if "f8" in touched:
                            continue
                        touched.add("f8")
                        act, txt = rng.choice(["write", "delete", "none"]), rand_text(rng)
                        events.append((act, "file://" + root + "/src/c.gleam", typ, txt))
                        if act == "write":
                            disk["f8"] = txt
                        elif act == "delete":
                            disk["f8"] = None
                        if not is_open.get("f8"):
                            # the editor does not hold it open: the server follows the disk
                            if not pkg_loaded[0]:
                                client.pop("f8", None)
                            elif "f8" in is_open and is_open["f8"] is None:
                                client["f8"] = None
                            elif typ == 3 or disk["f8"] is None:
                                client["f8"] = "VANISHED"
                            elif p_text.wf_crlf(disk["f8"]):
                                client["f8"] = disk["f8"]
                            else:
                                client["f8"] = None
                    elif t == 1:
                        events.append(("none", "file://" + root + "/src/ghost.gleam", typ, ""))
                    elif t == 2:
                        events.append(("none", "file://" + root + rng.choice(["/src", "/free", "", "/gleam.toml"]), typ, ""))
                    elif t == 3:
                        events.append(("none", rng.choice(docs[3:4] + docs[5:7]).uri, typ, ""))
                    else:
                        # a document the editor holds open: events about its file are not the server's business
                        held = [dd for dd in docs if is_open.get(dd.key) and isinstance(client.get(dd.key), str) and client.get(dd.key) not in ("FORGOTTEN", "VANISHED")]
                        if held:
                            events.append(("none", rng.choice(held).uri, typ, ""))
                if events:
                    seq.append(("watch", d, events))
                    if any(u.startswith("file://") and ty in (1, 2) and (u.endswith("/gleam.toml") or u.endswith(".gleam")) for (_a, u, ty, _t) in events):
                        pkg_loaded[0] = pkg_loaded[0] or None    # perhaps: unknown from here on for the editor-side oracle of vanished files
            continue
        k = rng.randrange(10)
        d = rng.choice(docs[:4] + docs[5:]) if rng.random() < 0.85 else docs[4]
        if k < 2 or (d.key not in client and d.key != "f9" and rng.random() < 0.7):
            if d.key == "f9":
                continue
            t = rand_text(rng)
            seq.append(("open", d, t))
            is_open[d.key] = True
            if d.key in ("f1", "f2", "f5", "f6", "f8"):
                pkg_loaded[0] = True
            if not d.key.startswith("o"):
                client[d.key] = t
            continue
        if k < 6:
            # most edits go to a document the editor holds open and knows the text of
            known = [dd for dd in docs if is_open.get(dd.key) and isinstance(client.get(dd.key), str) and client.get(dd.key) not in ("FORGOTTEN", "VANISHED")]
            if known and rng.random() < 0.6:
                d = rng.choice(known)
            changes = []
            cur = client.get(d.key)
            was_forgotten = cur if cur in ("FORGOTTEN", "VANISHED") else False
            if was_forgotten:
                cur = None
            for _c in range(rng.randrange(1, 4)):
                kind = rng.randrange(9)
                ins = rand_text(rng, rng.randrange(0, 4))
                if kind == 0:
                    changes.append((None, ins, "full"))
                    if cur is not None:
                        cur = ins
                    continue
                base = cur if cur is not None else rand_text(rng)
                pos = p_text.client_positions(base)
                i = rng.randrange(len(pos)); j = rng.randrange(i, len(pos))
                (sl, sc, si), (el, ec, ei) = pos[i], pos[j]
                if kind <= 4:
                    if cur is not None and rng.random() < 0.5:
                        # the deprecated `rangeLength` many editors still send: UTF-16 length of the replaced text in the editor's buffer
                        changes.append(((sl, sc, el, ec, sum(p_text.u16(ch) for ch in cur[si:ei])), ins, "valid"))
                    else:
                        changes.append(((sl, sc, el, ec), ins, "valid"))
                    if cur is not None:
                        new = cur[:si] + ins + cur[ei:]
                        cur = new if p_text.wf_crlf(new) else None
                elif kind == 5:
                    if (sl, sc) != (el, ec):
                        changes.append(((el, ec, sl, sc), ins, "reversed")); cur = None
                    else:
                        changes.append(((sl + 1 + len(p_text.client_lines(base)), sc, el + 99, ec), ins, "line-beyond")); cur = None
                elif kind == 6:
                    which = rng.randrange(5)
                    if which == 4:
                        # column near the top of the u32 range on an existing line: LSP clamps to the line end
                        big = 4294967295 - rng.choice([0, 0, 1, 2, 13, rng.randrange(0, 64)])
                        changes.append(((sl, sc, el, big), ins, "col-beyond"))
                        if cur is not None:
                            e2 = client_clamp(cur, el, big)
                            new = cur[:si] + ins + cur[e2:] if e2 is not None and e2 >= si else None
                            cur = new if new is not None and p_text.wf_crlf(new) else None
                    elif which == 0:
                        changes.append(((sl, sc, el + len(p_text.client_lines(base)), ec), ins, "line-beyond")); cur = None
                    elif which == 1:
                        # column beyond the line end: LSP clamps
                        changes.append(((sl, sc, el, ec + 1000), ins, "col-beyond"))
                        if cur is not None:
                            e2 = client_clamp(cur, el, ec + 1000)
                            new = cur[:si] + ins + cur[e2:] if e2 is not None and e2 >= si else None
                            cur = new if new is not None and p_text.wf_crlf(new) else None
                    elif which == 2:
                        changes.append(((2147483647, 4294967295, 4294967295, 4294967295), ins, "huge")); cur = None
                    else:
                        changes.append(((sl, sc, el, ec), ins, "valid"))
                        if cur is not None:
                            new = cur[:si] + ins + cur[ei:]
                            cur = new if p_text.wf_crlf(new) else None
                else:
                    # inside a surrogate pair, if the document has a character outside the BMP: as an insertion point
                    # (empty range), as the start or as the end of a replaced range
                    astral = [(l, c, ix) for (l, c, ix) in pos if ix < len(base) and ord(base[ix]) >= 0x10000]
                    if cur is not None and not astral and rng.random() < 0.7:
                        # make the document (known to the oracle) contain one, so that a later change can aim at it
                        ins = rng.choice(["💣", "x💣", "💣\n", "𝒳y"])
                        changes.append(((sl, sc, sl, sc), ins, "valid"))
                        new = cur[:si] + ins + cur[si:]
                        cur = new if p_text.wf_crlf(new) else None
                        continue
                    if astral and (cur is not None or rng.random() < 0.3):
                        (l, c, ix) = rng.choice(astral)
                        shape = rng.randrange(3)
                        after = [q for q in pos if q[2] > ix]
                        before = [q for q in pos if q[2] <= ix]
                        if shape == 1 and after:
                            q = rng.choice(after)
                            changes.append(((l, c + 1, q[0], q[1]), ins, "mid-surrogate"))
                        elif shape == 2 and before:
                            q = rng.choice(before)
                            changes.append(((q[0], q[1], l, c + 1), ins, "mid-surrogate"))
                        else:
                            changes.append(((l, c + 1, l, c + 1), ins, "mid-surrogate"))
                        cur = None
                    else:
                        changes.append(((sl, sc, el, ec), ins, "valid"))
                        if cur is not None:
                            new = cur[:si] + ins + cur[ei:]
                            cur = new if p_text.wf_crlf(new) else None
            seq.append(("change", d, changes))
            if was_forgotten:
                client[d.key] = was_forgotten     # the server ignores changes to a document it has forgotten
            elif d.key in client:
                if any(c[2] not in ("valid", "full", "col-beyond") for c in changes) or cur is None:
                    client[d.key] = None if cur is None and all(c[2] in ("valid", "full", "col-beyond") for c in changes) else "FORGOTTEN"
                    # a forgotten document is no longer recorded as open by the server either ("clear file states"); when the
                    # oracle does not know whether the edit could be applied it does not know that either
                    if is_open.get(d.key):
                        is_open[d.key] = False if client[d.key] == "FORGOTTEN" else None
                else:
                    client[d.key] = cur
            continue
        if k < 7:
            seq.append(("close", d))
            is_open[d.key] = False
            continue
        rid += 1
        method = rng.choice(["textDocument/hover", "textDocument/definition", "textDocument/completion", "textDocument/references",
                             "textDocument/documentHighlight", "textDocument/prepareRename", "textDocument/signatureHelp",
                             "textDocument/semanticTokens/full"])
        line = rng.choice([0, 0, 1, 2, 5, 99, 4294967295])
        col = rng.choice([0, 1, 2, 3, 7, 1000, 4294967295])
        seq.append(("req", d, method, line, col, rid))
    return docs, seq, client


DISK = {"f1": "fn disk_a() { 1 }\n", "f2": "fn disk_b() { 2 }\n"}


def encode_for_model(seq, docs=None):
    """the session as the model sees it: messages, file events with the state of the file on disk when the server
    handles them, and the loading of the package's files at the first contact with the package"""
    out = []
    loaded = False
    keyof = {}
    for op in seq:
        if len(op) > 1 and isinstance(op[1], Doc):
            keyof[op[1].uri] = op[1].key
    for d in (docs or []):
        keyof[d.uri] = d.key
    disk = {"f1": DISK["f1"], "f2": DISK["f2"], "f8": None}     # files of the package under src/

    def mk(key):
        # a document addressed under another spelling of its URI: same file, spelling 1 (`f1~1`)
        return key.split("~")[0] + ("~1" if "~" in key else "")

    def load():
        # every .gleam file of the package that is on disk is read into the store (not opened)
        for k in ("f1", "f2", "f8"):
            if disk[k] is not None:
                out.append(f"load:{k}:{hexs(disk[k])}")

    for op in seq:
        if op[0] == "open":
            if (op[1].key.split("~")[0] in ("f1", "f2", "f5", "f6", "f8")) and not loaded:
                # the first didOpen of a file of the package loads every file of the package from disk
                loaded = True
                load()
            out.append(f"open:{mk(op[1].key)}:{hexs(op[2])}")
        elif op[0] == "change":
            cs = []
            for (rng_, ins, _) in op[2]:
                r = "-" if rng_ is None else ",".join(map(str, rng_[:4]))
                cs.append(f"{r}@{hexs(ins)}")
            out.append(f"change:{mk(op[1].key)}:{'|'.join(cs)}")
        elif op[0] == "close":
            out.append(f"close:{mk(op[1].key)}")
        elif op[0] == "watch":
            # the harness changes the disk for all events of a notification first, then sends it
            for (act, uri, typ, text) in [e[:4] for e in op[2]]:
                k = keyof.get(uri) or ("f8" if uri.endswith("/src/c.gleam") else None)
                if k in disk and act != "none":
                    disk[k] = text if act == "write" else None
            for e in op[2]:
                (act, uri, typ, text) = e[:4]
                k = keyof.get(uri) or ("f8" if uri.endswith("/src/c.gleam") else None)
                spell = "~1" if (len(e) > 4 and "~" in (keyof.get(e[4]) or "")) else ""
                if not uri.startswith("file://"):
                    continue                                  # not a file: skipped by the server
                if k in disk:
                    st = "A" if disk[k] is None else "R" + hexs(disk[k])
                elif uri.endswith("/gleam.toml"):
                    st, k = "R" + hexs('name = "p"\n'), "f90"
                elif uri.endswith("/src/ghost.gleam"):
                    st, k = "A", "f91"
                elif k is not None:
                    st = "A"                                  # a document whose file was never written (free-standing, deep, odd names)
                else:
                    continue                                  # directories: not readable as a file, ignored
                # the first CREATED/CHANGED event about an existing regular file of the package loads the package, like the first didOpen
                if typ in (1, 2) and st.startswith("R") and not loaded and k in ("f1", "f2", "f8", "f90"):
                    loaded = True
                    load()
                out.append(f"watch:{k}{spell}:{1 if typ == 3 else 0}:{st}")
        elif op[0] in ("xreq", "xnotif"):
            continue        # no effect on the documents the model tracks; oracle on the implementation only
        else:
            # semantic tokens carry no position
            l, c = (0, 0) if "semanticTokens" in op[2] else (op[3], op[4])
            out.append(f"req:{op[5]}:{mk(op[1].key)}:{l}:{c}")
    return " ".join(out)


def run_sequence(root, docs, seq, offers=None, disk_extra=None, expects=None):
    """drive the real binary; returns observations.  offers: the position encodings the editor offers at initialize
    (LSP 3.17 general.positionEncodings); the sequences count columns in UTF-16, so a session in which the server
    announces another encoding is skipped (obs['skipped'])"""
    os.makedirs(root + "/src", exist_ok=True)
    os.makedirs(root + "/free", exist_ok=True)
    open(root + "/gleam.toml", "w").write('name = "p"\n')
    open(root + "/src/a.gleam", "w").write(DISK["f1"])
    open(root + "/src/b.gleam", "w").write(DISK["f2"])
    for path, text in (disk_extra or {}).items():
        os.makedirs(os.path.dirname(path), exist_ok=True)
        open(path, "w").write(text)
    c = lsp.Lsp(root)
    obs = {"alive": True, "responses": {}, "died_at": None, "texts": {}, "dups": []}
    try:
        if c.initialize(position_encodings=offers) is None:
            obs["alive"] = False
            obs["died_at"] = "initialize"
            return obs
        if c.position_encoding != "utf-16":
            obs["skipped"] = "the server announced " + str(c.position_encoding)
            return obs
        pending = []
        for n, op in enumerate(seq):
            if op[0] == "open":
                c.notify("textDocument/didOpen", {"textDocument": {"uri": op[1].uri, "languageId": "gleam", "version": 1, "text": op[2]}})
            elif op[0] == "change":
                cc = []
                for (r, ins, _) in op[2]:
                    if r is None:
                        cc.append({"text": ins})
                    else:
                        cc.append({"range": {"start": {"line": r[0], "character": r[1]}, "end": {"line": r[2], "character": r[3]}}, "text": ins})
                        if len(r) == 5:
                            cc[-1]["rangeLength"] = r[4]
                c.notify("textDocument/didChange", {"textDocument": {"uri": op[1].uri, "version": n + 2}, "contentChanges": cc})
            elif op[0] == "close":
                c.notify("textDocument/didClose", {"textDocument": {"uri": op[1].uri}})
            elif op[0] == "openclose":
                # opened and closed again at once (a preview, a peek, go-to-definition and back): whatever the open started is
                # still running when the close arrives
                c.notify("textDocument/didOpen", {"textDocument": {"uri": op[1].uri, "languageId": "gleam", "version": 1, "text": op[2]}})
                c.notify("textDocument/didClose", {"textDocument": {"uri": op[1].uri}})
            elif op[0] == "xreq":
                params = dict(op[3]); params["textDocument"] = {"uri": op[1].uri}
                pending.append((op[4], c.send_request(op[2], params)))
            elif op[0] == "xnotif":
                c.notify(op[2], op[3])
            elif op[0] == "watch":
                for (act, uri, typ, text) in [e[:4] for e in op[2]]:
                    path = uri[7:]
                    if act == "write":
                        open(path, "w").write(text)
                    elif act == "delete" and os.path.isfile(path):
                        os.remove(path)
                # an event may name the file under another spelling of its URI than the one used for the disk action (5th element)
                c.notify("workspace/didChangeWatchedFiles", {"changes": [{"uri": (e[4] if len(e) > 4 else e[1]), "type": e[2]} for e in op[2]]})
            else:
                params = {"textDocument": {"uri": op[1].uri}}
                if "semanticTokens" not in op[2]:
                    params["position"] = {"line": op[3], "character": op[4]}
                if op[2] == "textDocument/references":
                    params["context"] = {"includeDeclaration": True}
                i = c.send_request(op[2], params)
                pending.append((op[5], i))
            # liveness probe after every message
            r = c.request("glas/syntaxTree", {"textDocument": {"uri": docs[4].uri}}, timeout=15)
            if r is None and c.alive():
                # a loaded machine: a live process gets one long second chance before it counts as stuck
                r = c.request("glas/syntaxTree", {"textDocument": {"uri": docs[4].uri}}, timeout=90)
            if r is None or not c.alive():
                obs["alive"] = False
                obs["died_at"] = n
                obs["stderr"] = c.stderr_tail()
                return obs
        for rid, i in pending:
            r = c.wait(i, timeout=60)
            obs["responses"][rid] = None if r is None else ("ok" if "error" not in r else "err")
        for d in docs:
            r = c.request("glas/syntaxTree", {"textDocument": {"uri": d.uri}}, timeout=60)
            if r is None:
                obs["texts"][d.key] = "NO-ANSWER"
            elif "error" in r:
                obs["texts"][d.key] = None
            else:
                # (expects: the text the editor holds, only used to fill in token texts of 25 bytes or more, which the tree view abbreviates)
                obs["texts"][d.key] = lsp.text_of_syntax_tree(r["result"], (expects or {}).get(d.key))
        obs["dups"] = list(c.dups)
        obs["alive"] = c.alive()
    finally:
        c.close()
    return obs


def model_tie(res, seq, docs, obs, mline):
    """the model's prediction for a session against what the real binary did: no crash, final texts of the file documents, error answers"""
    outs, _, mdocs = mline.partition(" | ")
    mtexts = {}
    for kv in mdocs.split(" "):
        if "=" in kv:
            k, h = kv.split("=")
            mtexts[k] = common.unhexs(h)
    if "CRASH" in outs:
        res.disagreements.append((encode_for_model(seq, docs)[:200], "alive", "model predicts a crash"))
        return
    for d in docs:
        if d.key.startswith("f"):
            got = obs["texts"].get(d.key)
            if got != mtexts.get(d.key):
                res.disagreements.append((encode_for_model(seq, docs)[:300], f"{d.key}={got!r}", f"{d.key}={mtexts.get(d.key)!r}"))
                break
    mresp = dict(x[1:].split("=") for x in outs.split(" ") if x.startswith("r"))
    for rid, v in obs["responses"].items():
        # the model only predicts errors caused by the document store / position conversion
        if mresp.get(str(rid)) == "err" and v == "ok":
            # a request on an unknown document or beyond the document answered ok?
            res.disagreements.append((encode_for_model(seq, docs)[:300], f"r{rid}=ok", f"r{rid}=err"))


def run_c15(res, tier, seed):
    lsp.build_glas()
    n_seq = 120 if tier == "quick" else 2500
    base = os.path.join(common.ROOT, "work", f"c15-{os.getpid()}")
    shutil.rmtree(base, ignore_errors=True)
    jobs = []
    for i in range(n_seq):
        rng = random.Random(seed * 1000003 + i)
        root = os.path.join(base, f"s{i}")
        docs, seq, client = gen_sequence(rng, root)
        jobs.append((root, docs, seq, client))
    try:
        observations = common.parallel_map(lambda j: run_sequence(j[0], j[1], j[2], expects={k: p_text.strip_cr(v) for k, v in j[3].items() if isinstance(v, str) and v not in ("FORGOTTEN", "VANISHED")}), jobs, workers=min(common.NCPU, 12))
    finally:
        shutil.rmtree(base, ignore_errors=True)
    mreqs = ["server\t" + encode_for_model(j[2], j[1]) for j in jobs]
    mo, rc = common.run_lines(common.DRIVER_BIN, mreqs)
    if len(mo) != len(mreqs):
        raise Broken("Lean driver died", "on server sequences")
    kinds = {}
    distinct = 0
    for (root, docs, seq, client), obs, mline in zip(jobs, observations, mo):
        res.cov["evaluations"] += len(seq)
        for op in seq:
            if op[0] == "change":
                for c in op[2]:
                    kinds[c[2]] = kinds.get(c[2], 0) + 1
            elif op[0] in ("xreq", "xnotif"):
                kinds[op[2]] = kinds.get(op[2], 0) + 1
            else:
                kinds[op[0]] = kinds.get(op[0], 0) + 1
        nchg = sum(1 for op in seq if op[0] == "change")
        if nchg >= 2 and any(op[0] == "req" for op in seq):
            distinct += 1
        replay = {"sequence": [describe(op) for op in seq], "model_request": encode_for_model(seq, docs), "observation": {k: v for k, v in obs.items() if k != "texts"},
                  "texts": obs.get("texts")}
        if not obs["alive"]:
            op = seq[obs["died_at"]] if isinstance(obs["died_at"], int) else None
            what = "initialize" if op is None else (op[2] + "/" + op[1].key[0]) if op[0] in ("xreq", "xnotif") else (op[0] + ("/" + "+".join(sorted({c[2] for c in op[2]})) if op[0] == "change" else "") + ("/" + op[1].key[0] if op is not None else ""))
            res.add_violation("C15/server-died/" + what, f"the server process ended after message {obs['died_at']} ({what}): {obs.get('stderr', '')[-200:]}", replay)
            continue
        for rid, v in obs["responses"].items():
            if v is None:
                res.add_violation("C15/request-unanswered", f"request {rid} got no response", replay)
        if obs["dups"]:
            res.add_violation("C15/request-answered-twice", f"responses repeated for ids {obs['dups']}", replay)
        # the editor-side oracle (C13 black box + "dropped, never applied elsewhere")
        for key, text in client.items():
            got = obs["texts"].get(key)
            if text == "FORGOTTEN":
                if got is not None:
                    res.add_violation("C15/unappliable-edit-not-dropped", f"after an edit that cannot be applied the server still holds {got!r} for {key}", replay)
            elif text == "VANISHED":
                if got is not None:
                    res.add_violation("C15/vanished-file-not-forgotten", f"the file of {key} vanished from disk (the editor did not hold it open) and the server still holds {got!r} for it", replay)
            elif text is not None:
                exp = p_text.strip_cr(text)
                if got != exp:
                    res.add_violation("C15/text-diverged", f"server text {got!r} != editor text {exp!r} for {key}", replay)
        model_tie(res, seq, docs, obs, mline)
    res.cov["distinct_nontrivial"] = distinct
    res.cov["message_distribution"] = kinds
    res.cov["rule"] = (f"{n_seq} seeded message sequences (4-11 messages) over 5 documents (two files of a package, a free-standing file, an "
                       "untitled: document, a never-opened file) driven against the real binary over stdio: didOpen, didChange with 1-3 changes "
                       "(valid, full-text, reversed, line beyond, column beyond, huge values, inside a surrogate pair), didClose, 8 kinds of "
                       "requests at valid and invalid positions, rename / ranged semantic tokens / formatting requests, didSave, didChangeConfiguration, "
                       "didChangeWatchedFiles (a package file rewritten or deleted on disk, a missing file, directories, non-file URIs, files the editor holds open); a liveness probe after every message; final text of every document read back "
                       "through glas/syntaxTree. non-trivial = at least two didChange and one request")
    res.cov["samples"] += [{"sequence": [describe(op) for op in jobs[i][2]][:6], "model": mo[i][:200]} for i in (0, 1)]


def run_vanish_sessions(res, tier, seed):
    """a document is edited, closed, and its file vanishes from disk (the editor tells the server by
    didChangeWatchedFiles); then the editor - or a plugin with a stale buffer - sends another change for it, with no
    other document touched in between, and (in half of the sessions) opens a file the server has never seen.  The server
    stays alive, answers everything, and the new document holds exactly the text it was opened with (oracle only)"""
    lsp.build_glas()
    n = 16 if tier == "quick" else 300
    base = os.path.join(common.ROOT, "work", f"c15v-{os.getpid()}")
    shutil.rmtree(base, ignore_errors=True)
    jobs = []
    for i in range(n):
        rng = random.Random(seed * 7919 + i)
        root = os.path.join(base, f"v{i}")
        docs = gen_sequence(random.Random(1), root)[0]
        fresh = Doc("f7", "file://" + root + "/src/fresh.gleam")
        docs = docs + [fresh]
        a = docs[rng.randrange(2)]                  # a.gleam or b.gleam: files of the package, present on disk
        ta = "pub fn " + rand_text(rng, 3).replace("\r", "").replace("\n", " ") + "\nfn second() { 2 }\n"
        tb = "pub fn fresh_one() { \"" + rng.choice(["x", "é", "💣"]) + "\" }\nfn more() { 3 }\n"
        seq = [("open", a, ta), ("change", a, [((0, 0, 0, 0), "// edited\n", "valid")])]
        if rng.random() < 0.5:
            seq.append(("req", a, "textDocument/hover", 1, 4, 900 + i))
        seq.append(("close", a))
        seq.append(("watch", a, [("delete", a.uri, rng.choice([3, 2]), "")]))
        want_fresh = i % 2 == 0
        later = [("change", a, [((0, 0, 0, rng.choice([0, 3, 6])), rng.choice(["", "zz", "fn "]), "valid")])]
        if want_fresh:
            later.insert(rng.randrange(2), ("open", fresh, tb))
            later.append(("change", a, [((1, 0, 1, 2), "", "valid")]))
            later.append(("req", fresh, "textDocument/hover", 0, 8, 950 + i))
        seq += later
        if i % 4 == 1:
            # previews: documents opened and closed again at once, some of them big enough for their analysis to outlast the close
            big = "".join(f"pub fn f{j}(a: Int, b: Int) {{\n  let c = a + b * {j}\n  [c, a, b]\n}}\n\n" for j in range(rng.choice([1, 40, 400])))
            for d in (docs[0], docs[1], fresh if not want_fresh else docs[2]):
                seq.append(("openclose", d, big + "pub fn last() { 1 }\n"))
            seq.append(("req", docs[0], "textDocument/hover", 0, 8, 970 + i))
        jobs.append((root, docs, seq, {"f7": tb} if want_fresh else {}))
    try:
        observations = common.parallel_map(lambda j: run_sequence(j[0], j[1], j[2]), jobs, workers=min(common.NCPU, 8))
    finally:
        shutil.rmtree(base, ignore_errors=True)
    res.cov["vanish_sessions"] = n
    for (root, docs, seq, client), obs in zip(jobs, observations):
        res.cov["evaluations"] += len(seq)
        replay = {"sequence": [describe(op) for op in seq], "observation": {k: v for k, v in obs.items() if k != "texts"}, "texts": obs.get("texts")}
        if not obs["alive"]:
            kind = seq[obs["died_at"]][0] if isinstance(obs["died_at"], int) and obs["died_at"] < len(seq) else "initialize"
            if any(op[0] == "openclose" for op in seq[: (obs["died_at"] + 1) if isinstance(obs["died_at"], int) else 0]):
                res.add_violation("C15/server-died/opened-and-closed-at-once", f"the server process ended after message {obs['died_at']} ({kind}) of a session in which documents "
                                  f"were opened and closed again at once: {obs.get('stderr', '')[-200:]}", replay)
            else:
                res.add_violation("C15/server-died/change-after-file-vanished", f"the server process ended after message {obs['died_at']} ({kind}) of a session in which a closed "
                                  f"document's file vanished and another change for it arrived: {obs.get('stderr', '')[-200:]}", replay)
            continue
        for rid, v in obs["responses"].items():
            if v is None:
                res.add_violation("C15/request-unanswered", f"request {rid} got no response", replay)
        for key, text in client.items():
            got = obs["texts"].get(key)
            if got != p_text.strip_cr(text):
                res.add_violation("C15/text-diverged", f"server text {got!r} != editor text {p_text.strip_cr(text)!r} for {key} (a document opened after another one's file vanished)", replay)


def respell(uri, rng):
    """another spelling of the same file URI: one character of the last path components percent-encoded (`a.gleam` -> `%61.gleam`,
    `pkg@1` <-> `pkg%401`); editors, file watchers and plugins do not agree on which characters they escape"""
    pre = "file://"
    path = uri[len(pre):]
    idx = [i for i, ch in enumerate(path) if (ch.isascii() and ch.isalnum()) or ch in "._-@"]
    i = rng.choice(idx[-14:])
    return pre + path[:i] + "%%%02X" % ord(path[i]) + path[i + 1:]


def run_respelled_sessions(res, tier, seed):
    """one file reaches the server under TWO spellings of its URI (the editor's, and a file watcher's or plugin's that escapes other
    characters): opened under one, then announced as deleted / changed, closed or edited under the other, then edited again under the
    first; in half of the sessions a never-seen document is opened in between.  The server stays alive, answers every request once, and
    the document opened in between holds exactly the text it was opened with (oracle only: which of the two spellings the server
    takes for "the" document is its choice)."""
    lsp.build_glas()
    n = 15 if tier == "quick" else 300
    base = os.path.join(common.ROOT, "work", f"c15r-{os.getpid()}")
    shutil.rmtree(base, ignore_errors=True)
    jobs = []
    for i in range(n):
        rng = random.Random(seed * 104729 + i)
        root = os.path.join(base, rng.choice(["r", "pkg@1", "a+b", "it's"]) + str(i))
        docs = gen_sequence(random.Random(1), root)[0]
        fresh = Doc("f7", "file://" + root + "/src/fresh.gleam")
        docs = docs + [fresh]
        a = docs[rng.randrange(2)]
        ax = Doc(a.key + "~other-spelling", respell(a.uri, rng))
        ta = "pub fn " + rand_text(rng, 3).replace("\r", "").replace("\n", " ") + "\nfn second() { 2 }\n"
        tb = "pub fn fresh_one() { \"" + rng.choice(["x", "é", "💣"]) + "\" }\nfn more() { 3 }\n"
        variant = i % 5
        first, second = (a, ax) if rng.random() < 0.5 else (ax, a)
        seq = [("open", first, ta)]
        if rng.random() < 0.5:
            seq.append(("change", first, [((0, 0, 0, 0), "// edited\n", "valid")]))
        if variant == 0:
            seq.append(("watch", a, [("delete", a.uri, 3, "", second.uri)]))
        elif variant == 1:
            seq.append(("watch", a, [("write", a.uri, 2, "pub fn on_disk() { 0 }\n", second.uri)]))
        elif variant == 2:
            seq.append(("close", second))
        elif variant == 3:
            seq.append(("change", second, [((0, 0, 0, 0), "// other spelling\n", "valid")]))
        else:
            seq.append(("open", second, ta + "// again\n"))
            seq.append(("watch", a, [("delete", a.uri, 3, "", first.uri)]))
        want_fresh = i % 2 == 0
        if want_fresh:
            seq.append(("open", fresh, tb))
        seq.append(("change", first, [((1, 0, 1, 2), "zz", "valid")]))
        seq.append(("req", first, "textDocument/hover", 1, 4, 900 + i))
        seq.append(("change", first, [((0, 0, 0, rng.choice([0, 3])), rng.choice(["", "fn "]), "valid")]))
        seq.append(("req", second, "textDocument/hover", 0, 4, 930 + i))
        if want_fresh:
            seq.append(("req", fresh, "textDocument/hover", 0, 8, 950 + i))
        jobs.append((root, docs, seq, {"f7": tb} if want_fresh else {}, variant))
    try:
        observations = common.parallel_map(lambda j: run_sequence(j[0], j[1], j[2]), jobs, workers=min(common.NCPU, 8))
    finally:
        shutil.rmtree(base, ignore_errors=True)
    res.cov["respelled_sessions"] = n
    mreqs = ["server\t" + encode_for_model(j[2], j[1]) for j in jobs]
    mo, rc = common.run_lines(common.DRIVER_BIN, mreqs)
    if len(mo) != len(mreqs):
        raise Broken("Lean driver died", "on sessions with one file under two URI spellings")
    for j, obs, mline in zip(jobs, observations, mo):
        if obs["alive"]:
            model_tie(res, j[2], j[1], obs, mline)
    what = ["deleted under the other spelling", "changed on disk under the other spelling", "closed under the other spelling",
            "edited under the other spelling", "opened under both spellings, deleted under the first"]
    for (root, docs, seq, client, variant), obs in zip(jobs, observations):
        res.cov["evaluations"] += len(seq)
        replay = {"sequence": [describe(op) for op in seq], "observation": {k: v for k, v in obs.items() if k != "texts"}, "texts": obs.get("texts")}
        if not obs["alive"]:
            kind = seq[obs["died_at"]][0] if isinstance(obs["died_at"], int) and obs["died_at"] < len(seq) else "initialize"
            res.add_violation("C15/server-died/one-file-under-two-uri-spellings", f"the server process ended after message {obs['died_at']} ({kind}) of a session in which a document "
                              f"was opened under one spelling of its URI and {what[variant]}: {obs.get('stderr', '')[-200:]}", replay)
            continue
        for rid, v in obs["responses"].items():
            if v is None:
                res.add_violation("C15/request-unanswered", f"request {rid} got no response (one file under two URI spellings)", replay)
        for key, text in client.items():
            got = obs["texts"].get(key)
            if got != p_text.strip_cr(text):
                res.add_violation("C15/text-diverged", f"server text {got!r} != editor text {p_text.strip_cr(text)!r} for {key} (a document opened while another one was "
                                  f"addressed under two URI spellings: {what[variant]})", replay)


def run_sibling_package_sessions(res, tier, seed):
    """several packages side by side whose directory names begin like one another (`app`, `app2`, `app-core`, `apps`), below the
    workspace folder: documents of two of them are opened one after the other (both orders), edited and queried.  The server
    stays alive, answers every request once and holds the editor's text for every document (oracle only)."""
    lsp.build_glas()
    n = 8 if tier == "quick" else 120
    base = os.path.join(common.ROOT, "work", f"c15s-{os.getpid()}")
    shutil.rmtree(base, ignore_errors=True)
    names = ["app", "app2", "app-core", "apps", "ap", "application"]
    jobs = []
    for i in range(n):
        rng = random.Random(seed * 15485863 + i)
        root = os.path.join(base, f"w{i}")
        docs = gen_sequence(random.Random(1), root)[0]
        a, b = rng.sample(names, 2)
        if i % 2 == 0 and not (b.startswith(a) or a.startswith(b)):
            a, b = "app", rng.choice(["app2", "apps", "app-core", "application"])
        if i % 4 >= 2:
            a, b = b, a
        extra, sib = {}, []
        for j, nm in enumerate((a, b)):
            extra[f"{root}/{nm}/gleam.toml"] = f'name = "{nm.replace("-", "_")}"\n'
            t = f"pub fn in_{nm.replace('-', '_')}() {{ {j} }}\nfn second() {{ 2 }}\n"
            extra[f"{root}/{nm}/src/m{j}.gleam"] = t
            sib.append((Doc(f"f7{j}", f"file://{root}/{nm}/src/m{j}.gleam"), t))
        docs = docs + [d for d, _ in sib]
        seq = []
        for j, (d, t) in enumerate(sib):
            seq.append(("open", d, t))
            seq.append(("req", d, "textDocument/hover", 0, 8, 800 + 10 * i + j))
        seq.append(("change", sib[1][0], [((0, 0, 0, 0), "// edited\n", "valid")]))
        seq.append(("req", sib[0][0], "textDocument/hover", 0, 8, 805 + 10 * i))
        seq.append(("req", sib[1][0], "textDocument/hover", 1, 8, 806 + 10 * i))
        client = {sib[0][0].key: sib[0][1], sib[1][0].key: "// edited\n" + sib[1][1]}
        jobs.append((root, docs, seq, client, extra, (a, b)))
    try:
        observations = common.parallel_map(lambda j: run_sequence(j[0], j[1], j[2], disk_extra=j[4]), jobs, workers=min(common.NCPU, 8))
    finally:
        shutil.rmtree(base, ignore_errors=True)
    res.cov["sibling_package_sessions"] = n
    for (root, docs, seq, client, extra, (a, b)), obs in zip(jobs, observations):
        res.cov["evaluations"] += len(seq)
        replay = {"packages": [a, b], "sequence": [describe(op) for op in seq], "observation": {k: v for k, v in obs.items() if k != "texts"}, "texts": obs.get("texts")}
        if not obs["alive"]:
            kind = seq[obs["died_at"]][0] if isinstance(obs["died_at"], int) and obs["died_at"] < len(seq) else "initialize"
            res.add_violation("C15/server-died/packages-with-names-that-begin-alike", f"the server process ended after message {obs['died_at']} ({kind}) of a session over the sibling "
                              f"packages `{a}` and `{b}` (opened in this order): {obs.get('stderr', '')[-200:]}", replay)
            continue
        for rid, v in obs["responses"].items():
            if v is None:
                res.add_violation("C15/request-unanswered", f"request {rid} got no response (sibling packages `{a}`, `{b}`)", replay)
        for key, text in client.items():
            got = obs["texts"].get(key)
            if got != p_text.strip_cr(text):
                res.add_violation("C15/text-diverged", f"server text {got!r} != editor text {p_text.strip_cr(text)!r} for {key} (sibling packages `{a}`, `{b}`)", replay)


def run_request_burst(res, tier, seed):
    """more slow requests in flight than the server allows at a time (lib.rs: ConcurrencyLayer::new(available_parallelism)):
    all of them must still be answered, and a message sent afterwards must be handled"""
    lsp.build_glas()
    root = os.path.join(common.ROOT, "work", f"c15-burst-{os.getpid()}")
    shutil.rmtree(root, ignore_errors=True)
    os.makedirs(root + "/src")
    open(root + "/gleam.toml", "w").write('name = "p"\n')
    text = "".join("pub fn f%d(x) {\n  let y = x + %d\n  case y { 1 -> g%d(y) _ -> y * 2 }\n}\nfn g%d(a) { a + 1 }\n" % (i, i, i, i) for i in range(400))
    open(root + "/src/a.gleam", "w").write(text)
    uri = "file://" + root + "/src/a.gleam"
    try:
        limit = len(os.sched_getaffinity(0))
    except Exception:
        limit = os.cpu_count() or 4
    k = limit + 8
    c = lsp.Lsp(root)
    try:
        if c.initialize() is None:
            return
        c.notify("textDocument/didOpen", {"textDocument": {"uri": uri, "languageId": "gleam", "version": 1, "text": text}})
        time.sleep(1.0)
        c.notify("textDocument/didChange", {"textDocument": {"uri": uri, "version": 2},
                                              "contentChanges": [{"range": {"start": {"line": 0, "character": 0}, "end": {"line": 0, "character": 0}}, "text": "// edited\n"}]})
        ids = [c.send_request("textDocument/semanticTokens/full", {"textDocument": {"uri": uri}}) for _ in range(k)]
        t_end = time.time() + 12
        answered = 0
        for i in ids:
            r = c.wait(i, timeout=max(0.1, t_end - time.time()))
            if r is not None:
                answered += 1
        res.cov["evaluations"] += k
        after = c.request("glas/syntaxTree", {"textDocument": {"uri": uri}}, timeout=5) if c.alive() else None
        if answered < k or after is None:
            res.add_violation("C15/request-limit-deadlock",
                              f"{k} slow requests sent at once (the server allows {limit} at a time): {answered} answered after 12 s; a request sent afterwards is "
                              f"{'answered' if after is not None else 'not answered'}; the process is {'alive' if c.alive() else 'gone'}",
                              {"requests_in_flight": k, "limit": limit, "answered": answered, "document": "400 small functions", "method": "textDocument/semanticTokens/full"})
    finally:
        c.close()
        shutil.rmtree(root, ignore_errors=True)


def run_c13_blackbox(res, tier, seed):
    """C13 against the real binary: didOpen, then notifications with 1-4 VALID changes each (ranges refer to the
    document as left by the previous change of the same notification), full-text replacements mixed in"""
    lsp.build_glas()
    n_seq = 40 if tier == "quick" else 1500
    base = os.path.join(common.ROOT, "work", f"c13-{os.getpid()}")
    shutil.rmtree(base, ignore_errors=True)
    jobs = []
    for i in range(n_seq):
        rng = random.Random(seed * 7777 + i)
        root = os.path.join(base, f"s{i}")
        d = Doc("f1", "file://" + root + "/src/a.gleam")
        docs = [d, Doc("f2", "file://" + root + "/src/b.gleam"), Doc("f3", "file://" + root + "/free/c.gleam"),
                Doc("o1", "untitled:Untitled-1"), Doc("f9", "file://" + root + "/src/never.gleam")]
        cur = rand_text(rng, rng.randrange(0, 25))
        disk_extra = None
        if i % 4 == 3:
            # the document is a module outside any project (no gleam.toml above it) that exists on disk with ANOTHER content
            # than the editor's buffer: the server analyses the editor's text
            d = docs[2]
            disk_extra = {root + "/free/c.gleam": "pub fn on_disk() {\n  \"" + rand_text(rng, 6).replace('"', "").replace("\\", "").replace("\r", "").replace("\n", " ") + "\"\n}\n"}
        if i % 8 == 5:
            # the document is a source file of a DEPENDENCY of the project (registry layout build/packages/<dep>, or a path dependency
            # next to the project), opened first in the session, on disk with another content than the editor's buffer
            how = rng.choice(["registry", "path"])
            depdir = root + ("/build/packages/dep" if how == "registry" else "/../dep_of_" + os.path.basename(root))
            d = Doc("f3", "file://" + os.path.normpath(depdir) + "/src/dep.gleam")
            docs = docs[:2] + [d] + docs[3:]
            disk_extra = {root + "/gleam.toml": 'name = "p"\n\n[dependencies]\n' + ('dep = "~> 1.0"\n' if how == "registry" else f'dep = {{ path = "../dep_of_{os.path.basename(root)}" }}\n'),
                          os.path.normpath(depdir) + "/gleam.toml": 'name = "dep"\n',
                          os.path.normpath(depdir) + "/src/dep.gleam": "pub fn on_disk_in_dependency() {\n  1\n}\n"}
        seq = [("open", d, cur)]
        if rng.random() < 0.5 and i % 8 != 5:
            # another file of the package was opened before: the document is already known to the server with the
            # content it has on disk (another text, another line table) when the editor's version arrives
            seq = [("open", docs[1], rand_text(rng, rng.randrange(0, 12))), ("open", d, cur)]
        for _ in range(rng.randrange(1, 6)):
            changes = []
            for _c in range(rng.randrange(1, 5)):
                ins = rand_text(rng, rng.randrange(0, 5))
                if rng.random() < 0.1:
                    new = ins
                    ch = (None, ins, "full")
                else:
                    pos = p_text.client_positions(cur)
                    a = rng.randrange(len(pos)); b = rng.randrange(a, len(pos))
                    new = cur[:pos[a][2]] + ins + cur[pos[b][2]:]
                    ch = ((pos[a][0], pos[a][1], pos[b][0], pos[b][1]) + ((sum(p_text.u16(x) for x in cur[pos[a][2]:pos[b][2]]),) if rng.random() < 0.5 else ()), ins, "valid")
                if not p_text.wf_crlf(new):
                    continue
                changes.append(ch)
                cur = new
            if changes:
                seq.append(("change", d, changes))
        # what the editor offers as position encodings: nothing (a client older than LSP 3.17), UTF-16 only, UTF-16 preferred
        # over others: in all of them the editor ends up counting in UTF-16 unless the server announces something else
        offers = rng.choice([None, None, ["utf-16"], ["utf-16", "utf-8"], ["utf-16", "utf-32", "utf-8"], ["utf-32", "utf-16"]])
        jobs.append((root, docs, seq, cur, offers, d.key, disk_extra))
    try:
        observations = common.parallel_map(lambda j: run_sequence(j[0], j[1], j[2], j[4], j[6], expects={j[5]: p_text.strip_cr(j[3])}), jobs, workers=min(common.NCPU, 12))
    finally:
        shutil.rmtree(base, ignore_errors=True)
    multi = 0
    skipped = 0
    for (root, docs, seq, cur, offers, dkey, disk_extra), obs in zip(jobs, observations):
        if obs.get("skipped"):
            skipped += 1
            continue
        res.cov["evaluations"] += len(seq)
        if any(op[0] == "change" and len(op[2]) >= 2 for op in seq):
            multi += 1
        replay = {"sequence": [describe(op) for op in seq], "offered_position_encodings": offers, "observation": {k: v for k, v in obs.items() if k != "texts"}, "texts": obs.get("texts")}
        if not obs["alive"]:
            res.add_violation("C13/server-died-on-valid-edits", f"the server ended after message {obs['died_at']}", replay)
            continue
        got = obs["texts"].get(dkey)
        exp = p_text.strip_cr(cur)
        if got != exp:
            res.add_violation("C13/blackbox-text-diverged", f"after valid edits the server analyses {got!r}, the editor holds {exp!r}"
                              + (" (a module outside any project, on disk with another content)" if disk_extra else ""), replay)
    res.cov["blackbox_sequences"] = n_seq
    res.cov["blackbox_skipped_other_encoding"] = skipped
    res.cov["blackbox_multi_change_notifications"] = multi


def describe(op):
    if op[0] == "openclose":
        return f"didOpen {op[1].key} {op[2]!r} immediately followed by didClose {op[1].key}"
    if op[0] == "open":
        return f"didOpen {op[1].key} {op[2]!r}"
    if op[0] == "change":
        return f"didChange {op[1].key} " + "; ".join(f"{c[2]} {c[0]} {c[1]!r}" for c in op[2])
    if op[0] == "close":
        return f"didClose {op[1].key}"
    if op[0] == "xreq":
        return f"{op[2]} {op[1].key} {json.dumps(op[3])} id={op[4]}"
    if op[0] == "xnotif":
        return f"{op[2]} {json.dumps(op[3])[:120]}"
    if op[0] == "watch":
        return "didChangeWatchedFiles " + "; ".join(f"{e[0]} {e[1].split('/')[-1] or e[1]} type={e[2]}" + (f" announced as {e[4]}" if len(e) > 4 else "") for e in op[2])
    return f"{op[2]} {op[1].key} ({op[3]},{op[4]}) id={op[5]}"


UNHANDLED_NOTIFICATIONS = [
    ("textDocument/willSave", {"textDocument": {"uri": "%URI%"}, "reason": 1}),
    ("window/workDoneProgress/cancel", {"token": "glas/loading"}),
    ("workspace/didChangeWorkspaceFolders", {"event": {"added": [], "removed": []}}),
    ("workspace/didCreateFiles", {"files": [{"uri": "%URI%"}]}),
    ("workspace/didRenameFiles", {"files": [{"oldUri": "%URI%", "newUri": "%URI%.bak"}]}),
    ("workspace/didDeleteFiles", {"files": [{"uri": "%URI%"}]}),
    ("notebookDocument/didOpen", {"notebookDocument": {"uri": "%URI%", "notebookType": "x", "version": 1, "cells": []}, "cellTextDocuments": []}),
    ("$/setTrace", {"value": "verbose"}),
    ("$/cancelRequest", {"id": 99999}),
    ("glas/noSuchNotification", None),
]

def run_vfs_ids(res, tier, seed):
    """M-vfs-ids vs the real `Vfs` (hooks glas::verif_api::remove_path / file_id_for_path): histories of set_path_content / remove_uri
    over a handful of paths - the id every operation returns and the final table path -> (id, content); the oracle: the
    content held for a path is the last one written since its last removal, two loaded paths never share an id"""
    rng = random.Random(seed * 43 + 15)
    reqs, scripts = [], []
    for _ in range(2000 if tier == "quick" else 40000):
        npaths = rng.randrange(1, 9)
        ops = []
        for _ in range(rng.randrange(1, 40)):
            ops.append(("s" if rng.random() < 0.6 else "r") + str(rng.randrange(npaths)))
        scripts.append(ops)
        reqs.append("vfsids\t" + ",".join(ops))
    io, mo = common.run_both_chunked(reqs)
    res.cov["evaluations"] += len(reqs)
    n_dis = 0
    for ops, rq, a, b in zip(scripts, reqs, io, mo):
        if a != b:
            n_dis += 1
            if n_dis == 1:
                res.add_broken("correspondence model-vs-implementation (M-vfs-ids vs Vfs::set_path_content / remove_uri)", f"first: {rq} impl={a!r} model={b!r}")
        if a.startswith("PANIC") or " # " not in a:
            continue
        want = {}
        for k, op in enumerate(ops):
            if op[0] == "s":
                want[int(op[1:])] = f"c{k}"
            else:
                want.pop(int(op[1:]), None)
        table = [e.split(":") for e in a.split(" # ")[1].split(",") if e]
        got = {int(p): c for p, i, c in table}
        ids = [i for p, i, c in table]
        if got != want or len(set(ids)) != len(ids):
            res.add_violation("C15/document-store-is-not-a-map", f"after the history {','.join(ops)} the store holds {a.split(' # ')[1]!r}; a map path -> content holds {sorted(want.items())}"
                              + (" (two loaded paths share an id)" if len(set(ids)) != len(ids) else ""), {"request": rq, "impl": a, "model": b})
            break


PROOF_MODULES = {"C15": ["Glas.Props.C15", "Glas.Props.C15Ids"]}


def run(prop, res, tier, seed):
    res.assumptions += [
        "the real binary is driven over stdio; tokio/async-lsp scheduling, the OS and the filesystem are not modelled",
        "the `gleam` executable is absent in the sandbox (the server tolerates it: external diagnostics only)",
    ]
    try:
        res.extra.update(common.prove(prop, PROOF_MODULES[prop]))
    except Broken as b:
        res.add_broken(b.what, b.detail)
    run_c15(res, tier, seed)
    run_request_burst(res, tier, seed)
    run_vanish_sessions(res, tier, seed)
    run_respelled_sessions(res, tier, seed)
    run_sibling_package_sessions(res, tier, seed)
    run_vfs_ids(res, tier, seed)
    if res.disagreements:
        rq, a, b = res.disagreements[0]
        res.add_broken("correspondence model-vs-implementation (M-server vs the real binary)",
                       f"{len(res.disagreements)} disagreeing cases; first: {rq} impl={a!r} model={b!r}")


def replay(prop, path):
    print(open(path).read()[:4000])
    return 0
