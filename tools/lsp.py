"""Minimal LSP client over stdio for the real `glas` binary."""
import json, os, queue, subprocess, threading, time
import common

GLAS_TARGET = os.path.join(common.HARNESS, "target", "glasbin")
GLAS_BIN = os.path.join(GLAS_TARGET, "debug", "glas")


GLAS_TARGET_V = os.path.join(common.HARNESS, "target", "glasbin-verif")
GLAS_BIN_V = os.path.join(GLAS_TARGET_V, "debug", "glas")


def build_glas(verif=False):
    """rebuild the real server binary from /repo's working tree (verif=True: with the hook feature,
    which adds the named yield points / event trace of the lock choreography)"""
    env = dict(common.ENV, CARGO_TARGET_DIR=GLAS_TARGET_V if verif else GLAS_TARGET)
    cmd = ["cargo", "build", "--offline", "-q", "-p", "glas", "--bin", "glas"] + (["--features", "verif"] if verif else [])
    rc, out = common.sh(cmd, cwd=common.REPO, timeout=1800, env=env)
    if rc != 0:
        raise common.Broken("build of the real glas binary" + (" (feature verif)" if verif else ""), common.tail(out))


class Lsp:
    def __init__(self, root, env_extra=None, verif=False):
        env = dict(common.ENV, RUST_BACKTRACE="0", GLEAM_LOG="off")
        if env_extra:
            env.update(env_extra)
        self.p = subprocess.Popen([GLAS_BIN_V if verif else GLAS_BIN, "--stdio"], stdin=subprocess.PIPE, stdout=subprocess.PIPE, stderr=subprocess.PIPE,
                                  env=env, cwd=root)
        self.q = queue.Queue()
        self.responses = {}
        self.dups = []
        self.notifications = []
        self.lock = threading.Lock()
        self.next_id = 1
        self.t = threading.Thread(target=self._reader, daemon=True)
        self.t.start()
        self.root = root

    def _reader(self):
        f = self.p.stdout
        try:
            while True:
                headers = {}
                while True:
                    line = f.readline()
                    if not line:
                        return
                    line = line.strip()
                    if not line:
                        break
                    k, _, v = line.partition(b":")
                    headers[k.strip().lower()] = v.strip()
                n = int(headers.get(b"content-length", b"0"))
                body = f.read(n)
                if len(body) < n:
                    return
                msg = json.loads(body.decode("utf-8"))
                with self.lock:
                    if "id" in msg and "method" not in msg:
                        if msg["id"] in self.responses:
                            self.dups.append(msg["id"])
                        self.responses[msg["id"]] = msg
                    elif "id" in msg and "method" in msg:
                        # request from the server (workDoneProgress/create, registerCapability…): answer null
                        self._send({"jsonrpc": "2.0", "id": msg["id"], "result": None})
                    else:
                        self.notifications.append(msg)
        except Exception:
            return

    def _send(self, obj):
        data = json.dumps(obj).encode("utf-8")
        try:
            self.p.stdin.write(b"Content-Length: %d\r\n\r\n" % len(data) + data)
            self.p.stdin.flush()
            return True
        except (BrokenPipeError, OSError):
            return False

    def notify(self, method, params):
        return self._send({"jsonrpc": "2.0", "method": method, "params": params})

    def send_request(self, method, params):
        i = self.next_id
        self.next_id += 1
        self._send({"jsonrpc": "2.0", "id": i, "method": method, "params": params})
        return i

    def wait(self, i, timeout=10.0):
        t0 = time.time()
        while time.time() - t0 < timeout:
            with self.lock:
                if i in self.responses:
                    return self.responses[i]
            if self.p.poll() is not None:
                # drain a little
                time.sleep(0.05)
                with self.lock:
                    return self.responses.get(i)
            time.sleep(0.002)
        return None

    def request(self, method, params, timeout=10.0):
        return self.wait(self.send_request(method, params), timeout)

    def alive(self):
        return self.p.poll() is None

    def initialize(self, position_encodings=None):
        """position_encodings: what the client offers in general.positionEncodings (LSP 3.17); the encoding the server
        announces (utf-16 when it announces none) is kept in self.position_encoding"""
        caps = {}
        if position_encodings:
            caps = {"general": {"positionEncodings": list(position_encodings)}}
        r = self.request("initialize", {"processId": None, "rootUri": "file://" + __import__("urllib.parse").parse.quote(self.root), "capabilities": caps}, timeout=20)
        self.position_encoding = "utf-16"
        try:
            self.position_encoding = r["result"]["capabilities"].get("positionEncoding") or "utf-16"
        except Exception:
            pass
        self.notify("initialized", {})
        return r

    def close(self):
        try:
            if self.alive():
                self.request("shutdown", None, timeout=2)
                self.notify("exit", None)
                try:
                    self.p.wait(timeout=2)
                except subprocess.TimeoutExpired:
                    self.p.kill()
        finally:
            try:
                self.p.kill()
            except Exception:
                pass
            for s in (self.p.stdin, self.p.stdout, self.p.stderr):
                try:
                    s.close()
                except Exception:
                    pass

    def stderr_tail(self):
        try:
            return self.p.stderr.read().decode("utf-8", "replace")[-600:]
        except Exception:
            return ""


def unescape_rust_debug(s):
    out, i = [], 0
    while i < len(s):
        c = s[i]
        if c == "\\" and i + 1 < len(s):
            n = s[i + 1]
            if n == "n":
                out.append("\n"); i += 2
            elif n == "t":
                out.append("\t"); i += 2
            elif n == "r":
                out.append("\r"); i += 2
            elif n in "\"'\\":
                out.append(n); i += 2
            elif n == "0":
                out.append("\0"); i += 2
            elif n == "u":
                j = s.index("}", i)
                out.append(chr(int(s[i + 3:j], 16))); i = j + 1
            else:
                out.append(c); i += 1
        else:
            out.append(c); i += 1
    return "".join(out)


def text_of_syntax_tree(tree, expect=None):
    """reconstruct the document text from the `glas/syntaxTree` answer.  rowan's Debug output abbreviates the text of a token of
    25 bytes or more (`"// a long com ..."`): its range is still exact.  With `expect` (the text the editor holds) such a token is
    taken from `expect` when its range lies inside it and the printed beginning agrees; without it, or when they disagree, the
    abbreviated text is kept (and the comparison with the editor's text fails, as it should)"""
    import re
    parts = []
    eb = expect.encode() if isinstance(expect, str) else None
    for line in tree.split("\n"):
        m = re.match(r'\s*[A-Z_0-9]+@(\d+)\.\.(\d+) "(.*)"$', line)
        if m:
            a, b = int(m.group(1)), int(m.group(2))
            t = unescape_rust_debug(m.group(3))
            tb = t.encode()
            if b - a >= 25 and t.endswith(" ...") and eb is not None and b <= len(eb) and eb[a:a + len(tb) - 4] == tb[:-4]:
                try:
                    t = eb[a:b].decode()
                except UnicodeDecodeError:
                    pass
            parts.append(t)
    return "".join(parts)
