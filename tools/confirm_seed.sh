#!/bin/bash
# usage: confirm_seed.sh <round> <ID>   -- in the agent's scratch worktree /root/scratch/wt<round>-<ID>:
#   suite without / with the patch (sorted per-test lines must be identical), demonstration passes without and fails with the patch.
# Prints one summary line; details in /root/scratch/confirm-<ID>-<round>.log
r=$1; id=$2
wt=/root/scratch/wt$r-$id
d=$wt/seeded/$id-$r
log=/root/scratch/confirm-$id-$r.log
export CARGO_TARGET_DIR=$wt/target CARGO_NET_OFFLINE=true
cd $wt || exit 2
git checkout -q -- crates
suite() { cargo test --workspace --no-fail-fast --offline 2>&1 | grep -E "^test .* \.\.\. (ok|FAILED|ignored)" | sort; }
demo() {
  if [ -f $d/demo/Cargo.toml ]; then (cd $d/demo && timeout 1200 cargo run --offline -q >>$log 2>&1); echo $?
  elif [ -f $d/demo.py ]; then cargo build -p glas --offline -q >>$log 2>&1; (timeout 1200 python3 $d/demo.py $wt/target/debug/glas >>$log 2>&1); echo $?
  else echo "nodemo"; fi
}
: > $log
suite > /root/scratch/suite-$id-$r.base
d0=$(demo)
git apply $d/patch.diff || { echo "$id-$r: patch does not apply"; exit 1; }
b1=$( (cargo build -p glas --offline -q 2>>$log && cargo build -p glas --offline -q --features verif 2>>$log) && echo ok || echo FAIL)
suite > /root/scratch/suite-$id-$r.patched
d1=$(demo)
git checkout -q -- crates
same=$(cmp -s /root/scratch/suite-$id-$r.base /root/scratch/suite-$id-$r.patched && echo identical || echo DIFFERENT)
echo "$id-$r: build=$b1 suite=$same ($(wc -l < /root/scratch/suite-$id-$r.base) lines, $(grep -c FAILED /root/scratch/suite-$id-$r.base) failed) demo_unpatched_rc=$d0 demo_patched_rc=$d1"
