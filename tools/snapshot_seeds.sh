#!/bin/bash
# Run every check's quick tier with several seeds from a `vp run --with-repo` snapshot (own copy of the
# repository in $VP_RUN_REPO): looks for seeds on which a check raises an alarm on the unchanged tree.
# usage (from a vp run): [PROPS="C03 C09"] tools/snapshot_seeds.sh <seed>...      Not a registered command.
set -u
R=${VP_RUN_REPO:?needs vp run --with-repo}
sed -i "s|/repo/crates|$R/crates|g" harness/Cargo.toml
export VERIF_REPO=$R CARGO_NET_OFFLINE=true
./check --setup || exit 1
for s in "$@"; do
  for p in ${PROPS:-C01 C02 C03 C04 C05 C06 C07 C08 C09 C10 C11 C12 C13 C14 C15 C16 C17 C18 C19 C20}; do
    VERIF_SEED=$s timeout 3600 ./check $p --tier quick 2>&1 | grep -E "VIOLATION|^\[$p\]" | cut -c1-220
  done
done
echo finished
