#!/bin/bash
# re-run every stored behaviour-preserving / property-preserving patch against the checks of its area; one summary line per patch
props_for() {
  case "$1" in
    Gsyntax*|Hkind*) echo "C01 C02 C03 C04 C10";;
    Fsyntax*) echo "C01 C02 C03 C04 C10 C20 C05 C19";;
    Gdef*) echo "C05 C06 C07 C08 C18 C09 C11";;
    Hren*) echo "C06 C07 C08 C05";;
    Gty*) echo "C09 C10 C11";;
    Gide*|Hhost*) echo "C10 C20 C19 C18 C11 C12 C16";;
    Fide*) echo "C05 C06 C07 C08 C09 C10 C11 C18 C19 C20";;
    Gglas*|Hserver*|Fglas*) echo "C12 C13 C14 C15 C16 C17 C19 C20";;
  esac
}
for f in /verif/benign/*.diff; do
  b=$(basename $f .diff)
  out=$(/verif/tools/seedtest.sh $f $(props_for $b) 2>&1)
  echo "$b viol=$(echo "$out" | grep -c '^VIOLATION') noapply=$(echo "$out" | grep -c 'does not apply') $(echo "$out" | grep '^VIOLATION' | grep -o 'property=C[0-9]*' | sort | uniq -c | tr '\n' ' ')"
done
