import os
"""C07: rename to a fresh name preserves what every identifier means (oracle on the implementation)."""
import copy, random
import common, gen_scope
from common import hexs, unhexs, Broken
from p_ide import run_workspaces, parse_target
from p_refs import stage1, parse_refs, parse_idents, n_gleam, ws_replay, decl_token


class WsCopy:
    def __init__(self, files):
        self.files = files


def apply_edits(text, edits):
    """edits: [(start, stop, insert)] byte offsets; applied from the last to the first"""
    b = text.encode("utf-8")
    for s, e, ins in sorted(edits, reverse=True):
        b = b[:s] + ins.encode("utf-8") + b[e:]
    return b.decode("utf-8")


def shift(edits, off):
    """new byte offset of an old offset that is not inside an edited range"""
    d = 0
    for s, e, ins in sorted(edits):
        if e <= off:
            d += len(ins.encode("utf-8")) - (e - s)
        elif s <= off < e:
            return None
    return off + d


def newpos(edits, off):
    """new byte offset of an old offset; an offset inside an edited token maps to the token's new start"""
    d = 0
    for s, e, ins in sorted(edits):
        if e <= off:
            d += len(ins.encode("utf-8")) - (e - s)
        elif s <= off < e:
            return s + d
    return off + d


def parse_edits(line):
    out = {}
    body = line[3:]
    if body in ("-", ""):
        return out
    for e in body.split(";"):
        f, rg, ins = e.split(":")
        a, b = rg.split("-")
        out.setdefault(int(f), []).append((int(a), int(b), unhexs(ins)))
    return out


def syntax_errors(line):
    return 0 if line in ("empty", "none") else sum(1 for d in line.split(";") if "Syntax" in d or "Parse" in d)


def import_clash(ws, u, t):
    """is token `u` (in an importing module) the name or alias of an unqualified value import `import m.{X as Y}`
    where m declares both a type X and a value X (constructor, function or constant), and is the renamed
    symbol `t` one of those two declarations of m (so that the rename removes the clash and `u` starts to resolve)?"""
    import re
    if t.goto is None:
        return False
    text = ws.files[u.file][1]
    bypath = {os.path.splitext(os.path.basename(p))[0]: t for p, t in ws.files if p.endswith(".gleam")}
    for m in re.finditer(r"import\s+([a-z0-9_/]+)\s*\.\s*\{([^}]*)\}", text):
        src = bypath.get(m.group(1).split("/")[-1])
        if src is None or ws.files[t.goto[0]][1] is not src:
            continue
        for item in m.group(2).split(","):
            item = item.strip()
            if not item or item.startswith("type "):
                continue
            parts = item.split()
            name = parts[0]
            alias = parts[2] if len(parts) == 3 and parts[1] == "as" else name
            if u.text not in (name, alias) or t.text != name:
                continue
            has_type = re.search(r"\btype\s+" + re.escape(name) + r"\b", src) is not None
            has_value = (re.search(r"(?m)^\s+" + re.escape(name) + r"\b\s*(\(|$)", src) is not None or
                         re.search(r"\b(fn|const)\s+" + re.escape(name) + r"\b", src) is not None)
            if has_type and has_value:
                return True
    return False


def run_c07(res, tier, seed):
    rng = random.Random(seed)
    n_ws = 60 if tier == "quick" else 1000
    per_ws = 5 if tier == "quick" else 12
    wss = [gen_scope.generate(seed * 104729 + i) for i in range(n_ws)]
    from p_refs import record_workspace
    wss += [record_workspace(rng) for _ in range(8 if tier == "quick" else 80)]
    from p_refs import deep_module_workspace
    wss += [deep_module_workspace(rng) for _ in range(4 if tier == "quick" else 40)]
    from p_refs import variant_label_workspace
    wss += [variant_label_workspace(rng) for _ in range(4 if tier == "quick" else 40)]
    from p_refs import lookalike_workspace
    wss += [lookalike_workspace(rng) for _ in range(4 if tier == "quick" else 40)]
    from p_refs import rebind_workspace, local_like_module_workspace
    wss += [local_like_module_workspace(rng) for _ in range(3 if tier == "quick" else 30)]
    wss += [rebind_workspace(rng) for _ in range(3 if tier == "quick" else 30)]
    from p_refs import run_expected_groups
    # the recorded findings' own inputs (workspace + the rename that shows it), replayed on every run
    from p_ide import FilesOnly
    forced = {}
    for f in common.known_findings().get("findings", []):
        ex = (f.get("example") or {}).get("input")
        if f.get("property") == "C07" and isinstance(ex, dict) and "files" in ex and ex.get("query", "").startswith("rename\t"):
            w = FilesOnly(ex["files"])
            q = ex["query"].split("\t")
            forced[id(w)] = (int(q[1]), int(q[2]))
            wss.append(w)
    run_expected_groups(res, "C07", wss)
    all_toks = stage1(wss)
    plans, qs = [], []
    for ws, toks in zip(wss, all_toks):
        cands = [t for t in toks if t.prepare and t.prepare.startswith("ok ")]
        rng.shuffle(cands)
        if id(ws) in forced:
            cands = [t for t in cands if (t.file, t.start) == forced[id(ws)]]
        seen, chosen = set(), []
        for t in cands:
            key = t.goto[:3] if t.goto else None
            if key in seen:
                continue
            seen.add(key)
            chosen.append(t)
            if len(chosen) >= per_ws:
                break
        q = []
        for t in chosen:
            new = "zq9" if (t.text[0].islower() or t.text[0] == "_") else "Zq9"
            q += [f"rename\t{t.file}\t{t.start}\t{hexs(new)}", f"refs\t{t.file}\t{t.start}"]
        q += [f"diag\t{i}" for i in n_gleam(ws)]
        qs.append((ws, q))
        plans.append(chosen)
    ans = run_workspaces(qs)
    res.cov["evaluations"] += sum(len(q) for _, q in qs)
    stage3 = []     # (ws, toks, tok, new, edits, new_ws, old syntax errors)
    kinds = {}
    for ws, toks, chosen, a in zip(wss, all_toks, plans, ans):
        olderr = {i: syntax_errors(x) for i, x in zip(n_gleam(ws), a[2 * len(chosen):])}
        bytok = {(t.file, t.start, t.stop): t for t in toks}
        for k, t in enumerate(chosen):
            r, refs = a[2 * k], parse_refs(a[2 * k + 1])
            new = "zq9" if (t.text[0].islower() or t.text[0] == "_") else "Zq9"
            if not r.startswith("ok"):
                continue        # refusing is C08's subject
            edits = parse_edits(r)
            flat = sorted((f, s, e) for f, es in edits.items() for (s, e, _) in es)
            kinds[t.parent] = kinds.get(t.parent, 0) + 1
            bad = None
            for (f, s, e) in flat:
                tk = bytok.get((f, s, e))
                if tk is None:
                    bad = ("C07/edit-not-a-token", f"edit {f}:{s}-{e} is not a whole identifier token")
                elif tk.text != t.text:
                    bad = ("C07/edit-other-spelling", f"edit {f}:{s}-{e} replaces `{tk.text}`, not `{t.text}`")
            if bad is None and len(set(flat)) != len(flat):
                bad = ("C07/overlapping-edits", f"duplicate edits {flat}")
            if bad is None and refs is not None and sorted(set(refs)) != flat:
                bad = ("C07/edits-differ-from-references", f"edits {flat} != references {sorted(set(refs))}")
            if bad:
                res.add_violation(bad[0], bad[1], ws_replay(ws, f"rename\t{t.file}\t{t.start}\t{hexs(new)}", impl=r[:400]))
                continue
            files = [(p, apply_edits(x, edits.get(i, []))) for i, (p, x) in enumerate(ws.files)]
            stage3.append((ws, toks, t, new, edits, WsCopy(files), olderr))
    # stage 3: analyse the renamed workspace
    q3 = []
    for (ws, toks, t, new, edits, nws, olderr) in stage3:
        q = []
        for u in toks:
            q.append(f"goto\t{u.file}\t{newpos(edits.get(u.file, []), u.start)}")
        q += [f"diag\t{i}" for i in n_gleam(ws)]
        q.append(f"rename\t{t.file}\t{newpos(edits.get(t.file, []), t.start)}\t{hexs(t.text)}")
        q3.append((nws, q))
    ans3 = run_workspaces(q3) if q3 else []
    res.cov["evaluations"] += sum(len(q) for _, q in q3)
    distinct = 0
    for (ws, toks, t, new, edits, nws, olderr), a in zip(stage3, ans3):
        n = len(toks)
        bad = None
        if len(edits.get(t.file, [])) + sum(len(v) for v in edits.values()) >= 3:
            distinct += 1
        # every identifier still resolves to the same (correspondingly moved) declaration
        for u, g in zip(toks, a[:n]):
            ng = parse_target(g)
            og = u.goto
            if og is None:
                exp = None
            else:
                fs = newpos(edits.get(og[0], []), og[1])
                exp = (og[0], fs)
            got = None if ng is None else (ng[0], ng[1])
            if exp != got:
                key = "C07/meaning-changed"
                if exp is None and got is not None and import_clash(ws, u, t):
                    # the recorded value/type import clash (C05/import-value-type-clash): the name does not resolve
                    # while the exporting module also declares a type of that name; a rename that creates or
                    # removes the clash flips it
                    key = "C07/import-value-type-clash"
                bad = (key, f"after the rename `{u.text}` at file {u.file} offset {u.start} resolves to {got}, before (moved) {exp}")
                break
        if bad is None:
            newerr = {i: syntax_errors(x) for i, x in zip(n_gleam(ws), a[n:n + len(n_gleam(ws))])}
            if newerr != olderr:
                bad = ("C07/syntax-errors-changed", f"syntax errors per file {olderr} -> {newerr}")
        if bad is None:
            back = a[-1]
            if not back.startswith("ok"):
                bad = ("C07/rename-back-refused", f"renaming back to `{t.text}` is refused: {back}")
            else:
                e2 = parse_edits(back)
                restored = [(p, apply_edits(x, e2.get(i, []))) for i, (p, x) in enumerate(nws.files)]
                if restored != list(ws.files):
                    bad = ("C07/rename-back-differs", "renaming back does not restore the original text")
        if bad:
            res.add_violation(bad[0], bad[1], ws_replay(ws, f"rename\t{t.file}\t{t.start}\t{hexs(new)}", note=bad[1]))
    res.cov["distinct_nontrivial"] = distinct
    res.cov["renamed_symbol_parents"] = kinds
    res.cov["renames_checked"] = len(stage3)
    res.cov["rule"] = (f"{n_ws} generated multi-module workspaces x up to {per_ws} renameable symbols each (distinct definitions), renamed to a "
                       "fresh lowercase/uppercase name: edits must be whole identifier tokens spelled with the old name, pairwise distinct, equal "
                       "to the references; the edited workspace is re-analysed: every identifier must resolve to the same (moved) declaration, "
                       "syntax-error counts unchanged, renaming back restores the text. non-trivial = at least three edits")
    res.cov["samples"] += [{"renamed": t.text, "to": new, "edits": {str(k): v for k, v in edits.items()}} for (ws, toks, t, new, edits, nws, olderr) in stage3[:3]]
