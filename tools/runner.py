"""./check entry point:  ./check --setup | ./check <ID> --tier quick|thorough | ./check <ID> --replay <file>"""
import importlib, json, os, sys, time, traceback
import common
from common import Broken, Lock, Result, log

# property id -> python module implementing it (module must define run(res, tier, seed, rng) and
# optionally replay(path))
MODULES = {
    "C13": "p_text", "C14": "p_text", "C19": "p_text",
    "C05": "p_ide", "C18": "p_ide",
    "C15": "p_server", "C17": "p_project", "C11": "p_history", "C09": "p_types", "C12": "p_race", "C16": "p_edits",
    "C10": "p_sweep", "C20": "p_sweep",
    "C06": "p_refs", "C07": "p_refs", "C08": "p_refs",
    "C01": "p_syntax", "C02": "p_syntax", "C03": "p_syntax", "C04": "p_syntax",
}


def setup():
    t0 = time.time()
    with Lock():
        common.build_xlate()
        common.run_xlate()
        common.build_harness()
        rc, out = common.lake_build(["Glas", "driver"])
        if rc != 0:
            print(common.tail(out))
            return 1
        common.prepare_baseline_lean()
        common.use_lean("baseline")
        rc, out = common.lake_build(["Glas", "driver"])
        common.use_lean("main")
        if rc != 0:
            print(common.tail(out))
            return 1
    print(f"setup ok in {time.time() - t0:.0f}s")
    return 0


def main(argv):
    if not argv or argv[0] in ("-h", "--help"):
        print(__doc__)
        return 2
    if argv[0] == "--setup":
        return setup()
    prop = argv[0]
    tier = os.environ.get("VERIF_TIER", "quick")
    replay = None
    i = 1
    while i < len(argv):
        if argv[i] == "--tier":
            tier = argv[i + 1]; i += 2
        elif argv[i] == "--replay":
            replay = argv[i + 1]; i += 2
        else:
            i += 1
    seed = int(os.environ.get("VERIF_SEED", "1"))
    if prop not in MODULES:
        print(f"no check for {prop}")
        return 2
    mod = importlib.import_module(MODULES[prop])
    if replay:
        return mod.replay(prop, replay)
    res = Result(prop, tier, seed)
    relevant = common.groups_of(prop)
    fallbacks = {}

    def run_module(r, seeds):
        try:
            for sd in seeds:
                mod.run(prop, r, tier, sd)
                if r.broken or r.has_new_violation():
                    break
        except Broken as b:
            r.add_broken(b.what, b.detail)
        except Exception:
            r.add_broken("check crashed (machinery error)", traceback.format_exc())

    # more inputs whenever a model other than the freshly translated one carries the proof
    more_seeds = [seed, seed + 7919, seed + 15838]
    try:
        # 1. regenerate + rebuild from /repo's working tree (shared, serialised)
        with Lock():
            try:
                common.build_xlate()
                xlog, fallbacks = common.run_xlate()
                res.extra["xlate_log"] = xlog[-2000:]
            except Broken as b:
                if relevant:
                    res.add_broken(b.what, b.detail)
                else:
                    res.extra["xlate_log"] = "translation failed (no generated part in this property's model): " + b.detail[-400:]
            try:
                common.build_harness()
            except Broken as b:
                res.add_broken(b.what, b.detail)
                return res.finish()
    except Exception:
        res.add_broken("check crashed (machinery error)", traceback.format_exc())
        return res.finish()
    pinned = {g: r for g, r in fallbacks.items() if g in relevant and g.startswith("pin_")}
    unread = {g: r for g, r in fallbacks.items() if g in relevant and not g.startswith("pin_")}
    if pinned:
        res.extra["pins"] = {"hand_modelled_code_changed": pinned,
                             "consequence": "the hand-written model was written from another text: correspondence run with three seeds"}
        res.assumptions.append("hand-modelled code differs from the text its model was written from (" + "; ".join(pinned.values())[:400] +
                               "): the model is tied to the changed code by the correspondence run (three seeds) only")
    if unread:
        res.extra["translation"] = {"unreadable_groups": unread,
                                    "model_used": "committed model of the pinned source (xlate/baseline) for these groups, tied by the correspondence run only"}
        res.assumptions.append("the translator could not read " + ", ".join(sorted(unread)) + " in the current source (" + "; ".join(unread.values())[:300] +
                               "): for these parts the committed model of the pinned source carries the proof and the correspondence run (three seeds) is the only tie")
    if not res.broken:
        run_module(res, more_seeds if (unread or pinned) else [seed])
    # 2. the regenerated model was rejected (an obligation about it fails, or it disagrees with the implementation)
    #    and no concrete failing input was found: the committed model of the pinned source is the second candidate —
    #    the property is shown when ONE model is both proved and in correspondence with the implementation
    if relevant and res.broken and not res.has_new_violation() and common.gen_differs_from_baseline():
        first = [w for w, _ in res.broken]
        res2 = Result(prop, tier, seed)
        res2.t0 = res.t0
        try:
            with Lock(".lake.lock"):
                common.prepare_baseline_lean()
            common.use_lean("baseline")
            run_module(res2, more_seeds)
        finally:
            common.use_lean("main")
        res2.extra["translation"] = {"regenerated_model_rejected_by": first, "regenerated_files_differing": common.gen_differs_from_baseline(),
                                     "model_used": "committed model of the pinned source (xlate/baseline), tied by the correspondence run only"}
        if res2.broken or res2.has_new_violation():
            res2.broken = res.broken + res2.broken
        else:
            res2.assumptions.append("the model regenerated from the current source was rejected (" + "; ".join(first)[:300] + "); the committed model of the pinned "
                                    "source is proved and agrees with the implementation on every input of three seeds: the change is taken as a behaviour-preserving rewrite")
            log(f"[{prop}] regenerated model rejected ({'; '.join(first)[:200]}); committed model proved and in correspondence")
        return res2.finish()
    return res.finish()
