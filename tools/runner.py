"""./check entry point:  ./check --setup | ./check <ID> --tier quick|thorough | ./check <ID> --replay <file>"""
import importlib, json, os, sys, time, traceback
import common
from common import Broken, Lock, Result, log

# property id -> python module implementing it (module must define run(res, tier, seed, rng) and
# optionally replay(path))
MODULES = {
    "C13": "p_text", "C14": "p_text", "C19": "p_text",
    "C05": "p_ide", "C18": "p_ide",
    "C15": "p_server", "C17": "p_project", "C11": "p_history", "C09": "p_types", "C12": "p_race", "C16": "p_edits",
    "C10": "p_sweep", "C20": "p_sweep",
    "C06": "p_refs", "C07": "p_refs", "C08": "p_refs",
    "C01": "p_syntax", "C02": "p_syntax", "C03": "p_syntax", "C04": "p_syntax",
}


def setup():
    t0 = time.time()
    with Lock():
        common.build_xlate()
        common.run_xlate()
        common.build_harness()
        rc, out = common.lake_build(["Glas", "driver"])
        if rc != 0:
            print(common.tail(out))
            return 1
    print(f"setup ok in {time.time() - t0:.0f}s")
    return 0


def main(argv):
    if not argv or argv[0] in ("-h", "--help"):
        print(__doc__)
        return 2
    if argv[0] == "--setup":
        return setup()
    prop = argv[0]
    tier = os.environ.get("VERIF_TIER", "quick")
    replay = None
    i = 1
    while i < len(argv):
        if argv[i] == "--tier":
            tier = argv[i + 1]; i += 2
        elif argv[i] == "--replay":
            replay = argv[i + 1]; i += 2
        else:
            i += 1
    seed = int(os.environ.get("VERIF_SEED", "1"))
    if prop not in MODULES:
        print(f"no check for {prop}")
        return 2
    mod = importlib.import_module(MODULES[prop])
    if replay:
        return mod.replay(prop, replay)
    res = Result(prop, tier, seed)
    try:
        # 1. regenerate + rebuild from /repo's working tree (shared, serialised)
        with Lock():
            try:
                common.build_xlate()
                res.extra["xlate_log"] = common.run_xlate()[-2000:]
            except Broken as b:
                res.add_broken(b.what, b.detail)
            try:
                common.build_harness()
            except Broken as b:
                res.add_broken(b.what, b.detail)
                return res.finish()
        mod.run(prop, res, tier, seed)
    except Broken as b:
        res.add_broken(b.what, b.detail)
    except Exception:
        res.add_broken("check crashed (machinery error)", traceback.format_exc())
    return res.finish()
