#!/bin/bash
# usage: seedkeys.sh <seeded-id> <prop>... : run seedtest and print the keys of the violations reported
id=$1; shift
echo "== $id"
out=$(/verif/tools/seedtest.sh /verif/seeded/$id/patch.diff "$@" 2>&1)
echo "$out" | grep -E "^\[|patch does not|uncommitted" | cut -c1-150
for f in $(echo "$out" | grep -o "replay=[^ ]*" | cut -d= -f2); do python3 -c "
import json;d=json.load(open('$f'));print('   ',d.get('key') or ('BROKEN ' + str(d.get('no_longer_checks'))[:160]))"; done | sort | uniq -c
