"""Shared machinery for all checks: building, line-protocol clients, evidence, findings."""
import fcntl, hashlib, json, os, random, re, shutil, subprocess, sys, tempfile, time

ROOT = os.path.dirname(os.path.dirname(os.path.abspath(__file__)))
REPO = os.environ.get("VERIF_REPO", "/repo")
LEAN = os.path.join(ROOT, "lean")
HARNESS = os.path.join(ROOT, "harness")
XLATE = os.path.join(ROOT, "xlate")
EVID = os.path.join(ROOT, "evidence")
REPLAYS = os.path.join(ROOT, "replays")
HARNESS_BIN = os.path.join(HARNESS, "target", "debug", "glas-harness")
DRIVER_BIN = os.path.join(LEAN, ".lake", "build", "bin", "driver")
XLATE_BIN = os.path.join(XLATE, "target", "debug", "glas-xlate")
ALLOWED_AXIOMS = {"propext", "Classical.choice", "Quot.sound"}
ENV = dict(os.environ, CARGO_NET_OFFLINE="true", RUST_BACKTRACE="0")
NCPU = os.cpu_count() or 4


class Broken(Exception):
    """A proof obligation, a translation or a build step no longer checks."""
    def __init__(self, what, detail):
        super().__init__(what)
        self.what, self.detail = what, detail


def log(*a):
    print(*a, file=sys.stderr, flush=True)


def sh(cmd, cwd=None, timeout=None, env=None, input=None):
    p = subprocess.run(cmd, cwd=cwd, env=env or ENV, stdout=subprocess.PIPE, stderr=subprocess.STDOUT,
                       timeout=timeout, input=input, text=True, errors="replace")
    return p.returncode, p.stdout


class Lock:
    def __init__(self, name=".build.lock"):
        self.path = os.path.join(ROOT, name)
    def __enter__(self):
        self.f = open(self.path, "w")
        fcntl.flock(self.f, fcntl.LOCK_EX)
        return self
    def __exit__(self, *a):
        fcntl.flock(self.f, fcntl.LOCK_UN)
        self.f.close()


def write_if_changed(path, content):
    try:
        if open(path).read() == content:
            return False
    except FileNotFoundError:
        pass
    os.makedirs(os.path.dirname(path), exist_ok=True)
    with open(path, "w") as f:
        f.write(content)
    return True


def build_harness():
    """Recompile the /repo crates from the working tree (hook feature on) into the harness."""
    lock_src = os.path.join(REPO, "Cargo.lock")
    try:
        write_if_changed(os.path.join(HARNESS, "Cargo.lock"), open(lock_src).read())
    except FileNotFoundError:
        pass
    rc, out = sh(["cargo", "build", "--offline", "-q"], cwd=HARNESS, timeout=1800)
    if rc != 0:
        raise Broken("harness build (cargo build of /repo crates with feature verif)", tail(out))
    return out


def build_xlate():
    if not os.path.isdir(XLATE):
        return
    rc, out = sh(["cargo", "build", "--offline", "-q"], cwd=XLATE, timeout=1800)
    if rc != 0:
        raise Broken("xlate build", tail(out))


BASELINE = os.path.join(XLATE, "baseline")          # committed model of the pinned source (one file per Gen module)
LEAN_MAIN = LEAN
LEAN_BASE = os.path.join(ROOT, "lean-baseline")     # a second lake workspace whose Gen/ is the committed model
# which properties' models contain generated parts, per translation group
GROUP_PROPS = {"syntax": {"C01", "C02", "C03", "C04", "C10", "C20"}, "rename": {"C08"}, "choreo": {"C12", "C16"}, "highlight": {"C19"},
               # pins of hand-modelled code (xlate/pins.spec): nothing generated; a differing pin means three seeds of correspondence
               "pin_text": {"C13", "C14", "C15", "C19", "C20"}, "pin_vfs": {"C13", "C15", "C20"}, "pin_uf": {"C09"}, "pin_collect": {"C10", "C11"},
               "pin_db": {"C11"}, "pin_project": {"C17"}, "pin_imports": {"C17", "C08"}, "pin_search": {"C06"}, "pin_fields": {"C18"},
               "pin_scope": {"C05", "C06", "C07", "C18"}, "pin_server": {"C13", "C15"}, "pin_graph": {"C17", "C08"}}


def groups_of(prop):
    return {g for g, ps in GROUP_PROPS.items() if prop in ps}


def run_xlate():
    """Regenerate lean/Glas/Gen/*.lean from /repo's working tree.  A group of generated files whose source
    the translator cannot read (a shape outside its subset) is replaced by the committed model of the pinned
    source; the groups for which that happened are returned: {group: reason}."""
    if not os.path.exists(XLATE_BIN):
        return "", {}
    rc, out = sh([XLATE_BIN, REPO, os.path.join(LEAN_MAIN, "Glas", "Gen"), BASELINE], timeout=600)
    if rc != 0:
        raise Broken("translation of /repo sources to Lean (xlate)", tail(out))
    fallbacks = {m.group(1): m.group(2)[:400] for m in re.finditer(r"^FALLBACK (\w+): (.*)$", out, re.M)}
    return out, fallbacks


def gen_differs_from_baseline():
    """names of the generated files that differ from the committed model"""
    out = []
    for f in sorted(os.listdir(BASELINE)):
        if f.endswith(".lean"):
            try:
                if open(os.path.join(BASELINE, f)).read() != open(os.path.join(LEAN_MAIN, "Glas", "Gen", f)).read():
                    out.append(f)
            except FileNotFoundError:
                out.append(f)
    return out


def prepare_baseline_lean():
    """lean-baseline/: the same Lean sources (symlinks) with Gen/ = the committed model; its own .lake"""
    os.makedirs(os.path.join(LEAN_BASE, "Glas", "Gen"), exist_ok=True)
    for f in ("lakefile.toml", "lake-manifest.json"):
        write_if_changed(os.path.join(LEAN_BASE, f), open(os.path.join(LEAN_MAIN, f)).read())
    def link(rel):
        dst = os.path.join(LEAN_BASE, rel)
        src = os.path.join(LEAN_MAIN, rel)
        if os.path.islink(dst) and os.readlink(dst) == src:
            return
        if os.path.lexists(dst):
            os.remove(dst)
        os.symlink(src, dst)
    for f in ("Driver.lean", "Glas.lean"):
        link(f)
    for d in os.listdir(os.path.join(LEAN_MAIN, "Glas")):
        if d != "Gen":
            link(os.path.join("Glas", d))
    for f in os.listdir(BASELINE):
        if f.endswith(".lean"):
            write_if_changed(os.path.join(LEAN_BASE, "Glas", "Gen", f), open(os.path.join(BASELINE, f)).read())


def use_lean(which):
    """switch the lake workspace (and model driver) every later step uses: 'main' or 'baseline'"""
    global LEAN, DRIVER_BIN
    LEAN = LEAN_BASE if which == "baseline" else LEAN_MAIN
    DRIVER_BIN = os.path.join(LEAN, ".lake", "build", "bin", "driver")


def lake_build(targets, timeout=3000):
    rc, out = sh(["lake", "build"] + list(targets), cwd=LEAN, timeout=timeout)
    return rc, out


def tail(s, n=60):
    lines = s.strip().splitlines()
    return "\n".join(lines[-n:])


def lean_errors(out):
    """first error blocks of a lake build log"""
    res, cur = [], None
    for l in out.splitlines():
        if l.startswith("error:") or re.match(r"^error: ", l):
            cur = [l]; res.append(cur)
        elif cur is not None and len(cur) < 25:
            cur.append(l)
    return ["\n".join(c) for c in res[:6]]


def audit(prop):
    """Run `#print axioms` for every property theorem of `prop` (lean/Glas/Audit/<prop>.lean).
    Returns (theorems: list of (name, axioms)), raises Broken when the file does not check."""
    f = os.path.join("Glas", "Audit", prop + ".lean")
    rc, out = sh(["lake", "env", "lean", f], cwd=LEAN, timeout=1800)
    if rc != 0:
        raise Broken("audit of " + prop + " theorems", tail(out))
    thms = []
    for m in re.finditer(r"'([^']+)' depends on axioms: \[([^\]]*)\]", out.replace("\n", " ")):
        axs = [a.strip() for a in m.group(2).split(",") if a.strip()]
        thms.append((m.group(1), axs))
    for m in re.finditer(r"'([^']+)' does not depend on any axioms", out):
        thms.append((m.group(1), []))
    return thms


FORBIDDEN = re.compile(r"\bsorry\b|\badmit\b|^\s*axiom\s|native_decide|bv_decide|implemented_by|\bunsafe\s|maxHeartbeats 0")


def scan_forbidden():
    """grep the Lean sources for forbidden constructs outside comments"""
    hits = []
    for dp, dn, fn in os.walk(os.path.join(LEAN, "Glas"), followlinks=True):
        for f in fn:
            if not f.endswith(".lean"):
                continue
            p = os.path.join(dp, f)
            depth = 0
            for i, line in enumerate(open(p, errors="replace"), 1):
                s = line
                # strip block comments (coarse but conservative: track /- -/ nesting per line)
                out = ""
                j = 0
                while j < len(s):
                    if s.startswith("/-", j):
                        depth += 1; j += 2
                    elif s.startswith("-/", j) and depth > 0:
                        depth -= 1; j += 2
                    else:
                        if depth == 0:
                            out += s[j]
                        j += 1
                out = out.split("--")[0]
                if FORBIDDEN.search(out):
                    hits.append(f"{p}:{i}: {line.strip()}")
    return hits


def build_witnesses(modules):
    """Witness modules state that the CURRENT tree violates part of a property (known findings).
    They are informational: failing to check means the defect no longer reproduces in the model."""
    out = {}
    for m in modules:
        with Lock(".lake.lock"):
            rc, log_ = lake_build([m])
        out[m] = "checks" if rc == 0 else "no longer checks (defect repaired or model changed): " + "; ".join(lean_errors(log_))[:300]
    return out


def prove(prop, modules):
    """Build the property's theorem modules and audit them.  Returns a dict for the evidence.
    Raises Broken(name of what no longer checks, Lean message)."""
    t0 = time.time()
    with Lock(".lake.lock"):
        rc, out = lake_build(modules + ["driver"])
    if rc != 0:
        errs = lean_errors(out)
        raise Broken("lake build " + " ".join(modules), "\n".join(errs) or tail(out))
    hits = scan_forbidden()
    if hits:
        raise Broken("forbidden construct in Lean sources", "\n".join(hits[:10]))
    thms = audit(prop)
    bad = [(n, a) for n, a in thms if not set(a) <= ALLOWED_AXIOMS]
    if bad:
        raise Broken("axiom audit", repr(bad))
    if not thms:
        raise Broken("axiom audit", "no theorems listed for " + prop)
    axioms = sorted({a for _, a in thms for a in a})
    return {
        "obligations": len(thms),
        "discharged": len(thms) - len(bad),
        "theorems": [n for n, _ in thms],
        "checker_cmd": "cd lean && lake build " + " ".join(modules) + " && lake env lean Glas/Audit/" + prop + ".lean",
        "trusted_base": ["Lean 4 kernel"] + ["axiom " + a for a in axioms],
        "prove_wall_s": round(time.time() - t0, 1),
    }


def run_lines(binary, lines, timeout=3600, cwd=None):
    """pipe `lines` to a line-protocol binary, return its output lines"""
    with tempfile.TemporaryFile("w+") as fin:
        for l in lines:
            fin.write(l); fin.write("\n")
        fin.flush(); fin.seek(0)
        p = subprocess.run([binary], stdin=fin, stdout=subprocess.PIPE, stderr=subprocess.DEVNULL,
                           timeout=timeout, env=ENV, cwd=cwd)
    out = p.stdout.decode("utf-8", "replace").split("\n")
    if out and out[-1] == "":
        out.pop()
    return out, p.returncode


def run_both(lines, chunk=None):
    """run the same request lines through the implementation harness and the Lean driver (in
    parallel); returns (impl_lines, model_lines)"""
    import concurrent.futures as cf
    with cf.ThreadPoolExecutor(2) as ex:
        fi = ex.submit(run_lines, HARNESS_BIN, lines)
        fm = ex.submit(run_lines, DRIVER_BIN, lines)
        (io, irc), (mo, mrc) = fi.result(), fm.result()
    if len(io) != len(lines):
        raise Broken("implementation harness died", f"rc={irc}: {len(io)} answers for {len(lines)} requests; next request: {lines[len(io)] if len(io) < len(lines) else ''}")
    if len(mo) != len(lines):
        raise Broken("Lean driver died", f"rc={mrc}: {len(mo)} answers for {len(lines)} requests; next request: {lines[len(mo)] if len(mo) < len(lines) else ''}")
    return io, mo


def run_both_chunked(lines, nchunks=None):
    """as run_both, but splits the request stream over several processes of each binary"""
    n = nchunks or max(1, min(NCPU // 2, len(lines) // 20000 + 1))
    if n <= 1:
        return run_both(lines)
    size = (len(lines) + n - 1) // n
    chunks = [lines[i:i + size] for i in range(0, len(lines), size)]
    res = parallel_map(run_both, chunks, workers=n)
    io, mo = [], []
    for a, b in res:
        io += a; mo += b
    return io, mo


def parallel_map(fn, items, workers=None):
    import concurrent.futures as cf
    with cf.ThreadPoolExecutor(workers or NCPU) as ex:
        return list(ex.map(fn, items))


def hexs(s):
    return s.encode("utf-8").hex() if s else "-"


def unhexs(h):
    return "" if h == "-" else bytes.fromhex(h).decode("utf-8")


def known_findings():
    p = os.path.join(ROOT, "known_findings.json")
    try:
        return json.load(open(p))
    except FileNotFoundError:
        return {"findings": [], "fixed": []}


class Result:
    """Accumulates what one run of a check did, decides the exit status, writes the evidence."""
    def __init__(self, prop, tier, seed):
        self.prop, self.tier, self.seed = prop, tier, seed
        self.t0 = time.time()
        self.cov = {"evaluations": 0, "distinct_nontrivial": 0, "samples": [], "rule": ""}
        self.assumptions = []
        self.violations = []      # (key, description, replay dict)
        self.known_hits = {}
        self.broken = []          # (what, detail)
        self.disagreements = []   # model-vs-impl (request, impl, model)
        self.extra = {}

    def add_violation(self, key, desc, replay):
        """an implementation-vs-oracle failure (a concrete failing input). `key` classifies
        site + cause shape and is what known_findings.json entries match."""
        self.violations.append((key, desc, replay))

    def add_broken(self, what, detail):
        self.broken.append((what, detail))

    def has_new_violation(self):
        """a concrete failing input that known_findings.json does not list"""
        known = {f["key"] for f in known_findings().get("findings", []) if f["property"] == self.prop}
        return any(k not in known for k, _, _ in self.violations)

    def finish(self):
        os.makedirs(EVID, exist_ok=True)
        rdir = os.path.join(REPLAYS, self.prop)
        os.makedirs(rdir, exist_ok=True)
        kf = known_findings()
        known = {f["key"]: f for f in kf.get("findings", []) if f["property"] == self.prop}
        out_lines, status = [], 0
        seen_known, new_viol = {}, {}
        for key, desc, replay in self.violations:
            if key in known:
                seen_known.setdefault(key, (desc, replay))
            else:
                new_viol.setdefault(key, (desc, replay))
        collect = os.environ.get("VERIF_COLLECT_EXAMPLES")
        for key, (desc, replay) in seen_known.items():
            out_lines.append(f"KNOWN-FINDING: property={self.prop} {known[key].get('what', key)} [{key}]")
            if collect:
                # maintenance aid: dump one concrete failing input per listed finding (never at normal run time)
                os.makedirs(collect, exist_ok=True)
                json.dump({"property": self.prop, "key": key, "observed": desc, "replay": replay},
                          open(os.path.join(collect, key.replace("/", "__") + ".json"), "w"), indent=1)
        for key, (desc, replay) in new_viol.items():
            h = hashlib.sha1((key + json.dumps(replay, sort_keys=True)).encode()).hexdigest()[:12]
            path = os.path.join(rdir, h + ".json")
            json.dump({"property": self.prop, "key": key, "what": desc, "seed": self.seed, "tier": self.tier,
                       "replay": replay}, open(path, "w"), indent=1)
            out_lines.append(f"VIOLATION property={self.prop} replay={path}")
            status = 1
        if self.broken and not new_viol:
            # something no longer checks and no concrete failing input was found
            h = hashlib.sha1(json.dumps(self.broken, sort_keys=True).encode()).hexdigest()[:12]
            path = os.path.join(rdir, "broken-" + h + ".json")
            json.dump({"property": self.prop, "no_failing_input_found": True, "seed": self.seed, "tier": self.tier,
                       "no_longer_checks": [{"what": w, "detail": d} for w, d in self.broken]},
                      open(path, "w"), indent=1)
            out_lines.append(f"VIOLATION property={self.prop} replay={path} no-failing-input-found")
            status = 1
        elif self.broken:
            for w, d in self.broken:
                log(f"[{self.prop}] also no longer checks: {w}")
        cov = dict(self.cov)
        cov.update(self.extra)
        cov["model_vs_impl_disagreements"] = len(self.disagreements)
        cov["impl_vs_oracle_failures"] = len(self.violations)
        cov["known_findings_hit"] = sorted(seen_known)
        cov["broken_obligations"] = [w for w, _ in self.broken]
        cov["samples"] = cov["samples"][:12]
        ev = {"property_id": self.prop, "tier": self.tier, "seed": self.seed, "level": "proof",
              "coverage": cov, "assumptions": self.assumptions, "wall_s": round(time.time() - self.t0, 1),
              "violations": len(new_viol) + (1 if (self.broken and not new_viol) else 0)}
        with open(os.path.join(EVID, self.prop + ".json"), "w") as f:
            json.dump(ev, f, indent=1, ensure_ascii=False)
        for l in out_lines:
            print(l)
        print(f"[{self.prop}] tier={self.tier} seed={self.seed} evaluations={cov['evaluations']} "
              f"obligations={cov.get('obligations')} discharged={cov.get('discharged')} "
              f"violations={ev['violations']} known={len(seen_known)} wall={ev['wall_s']}s")
        sys.stdout.flush()
        return status
