"""C13 / C14 / C19: line map, edits, semantic-token encoder.
Theorems: lean/Glas/Props/{C13,C14,C19}.lean about lean/Glas/Model/Text.lean.
Tie: the model (Lean driver) and the real LineMap/Vfs/convert (harness, feature verif) are run on
the same exhaustive small-document domain; independently a Python LSP-client reference evaluates
the property itself on the implementation's answers (the oracle)."""
import itertools, json, os, random
import common
from common import hexs, unhexs, Broken

ALPHA = ["a", "\n", "\r\n", "ß", "ℝ", "💣"]
EXOTIC = ["\ufeff", "\u2028", "\u2029", "\u0085", "\x00", "\u200b", "\x0c", "\x0b", "e\u0301", "\ufffd", "\u00a0", "\x7f"]


def docs(maxlen):
    for n in range(maxlen + 1):
        for t in itertools.product(ALPHA, repeat=n):
            yield "".join(t)


def u16(c):
    return 2 if ord(c) >= 0x10000 else 1


def u8(c):
    return len(c.encode("utf-8"))


def strip_cr(s):
    return s.replace("\r", "")


# ---------------- the LSP client reference ----------------
def client_lines(doc):
    """lines as an LSP client sees them (line break = LF or CRLF; content excludes the break)"""
    out = []
    for l in doc.split("\n"):
        out.append(l[:-1] if l.endswith("\r") else l)
    return out


def client_positions(doc):
    """all valid LSP positions of doc in document order: (line, utf16col, char index in doc)"""
    res, idx = [], 0
    raw = doc.split("\n")
    for li, l in enumerate(raw):
        content = l[:-1] if l.endswith("\r") else l
        col = 0
        res.append((li, 0, idx))
        for k, c in enumerate(content):
            col += u16(c)
            res.append((li, col, idx + k + 1))
        idx += len(l) + 1
    return res


def boundaries(s):
    """byte offsets of the character boundaries of s, with the (line, utf16 col) a client computes"""
    res, off, line, col = [], 0, 0, 0
    for c in s:
        res.append((off, line, col))
        off += u8(c)
        if c == "\n":
            line += 1; col = 0
        else:
            col += u16(c)
    res.append((off, line, col))
    return res


def nontrivial(doc):
    return any(ord(c) > 127 for c in doc) and "\n" in doc


# ---------------- C14 ----------------
def leader_sweep():
    """one character for every UTF-8 leader byte (C2..DF, E0..EF, F0..F4)"""
    out = []
    for lead in range(0xC2, 0xE0):
        out.append(chr(((lead - 0xC0) << 6) | 0x25))
    for lead in range(0xE0, 0xF0):
        out.append(chr(((lead - 0xE0) << 12) | (0x0923 if lead == 0xE0 else 0x0123)))
    for lead in range(0xF0, 0xF5):
        out.append(chr(((lead - 0xF0) << 18) | (0x10123 if lead == 0xF0 else 0x0123)))
    assert all(c.encode()[0] == l for c, l in zip(out, list(range(0xC2, 0xE0)) + list(range(0xE0, 0xF0)) + list(range(0xF0, 0xF5))))
    return out


SWEEP = leader_sweep()


def c14_cases(tier, rng):
    L = 5 if tier == "quick" else 7
    ds = list(docs(L if tier == "quick" else 6))
    # long random documents
    n_long = 300 if tier == "quick" else 5000
    for _ in range(n_long):
        n = rng.randint(8, 120)
        ds.append("".join(rng.choice(ALPHA + ["b", " ", "\n"]) for _ in range(n)))
    # every UTF-8 leader byte: the width table is keyed on it
    for ch in SWEEP:
        ds.append(f"a{ch}b{ch}{ch}\n{ch}c{ch}\r\n{ch}")
    for _ in range(60 if tier == "quick" else 1000):
        n = rng.randint(4, 40)
        ds.append("".join(rng.choice(SWEEP + ["a", "\n", " "]) for _ in range(n)))
    for X in EXOTIC:
        ds += [X, X + "a\nb" + X, "a\n" + X + "b\r\n" + X + X, X + "💣" + X + "\n" + X]
    return ds


def run_c14(res, tier, seed):
    rng = random.Random(seed)
    ds = c14_cases(tier, rng)
    reqs, meta = [], []
    for d in ds:
        s = strip_cr(d)
        b = boundaries(s)
        ml = b[-1][1] + 1
        mc = max(x[2] for x in b) + 2
        h = hexs(d)
        reqs.append(f"lcall\t{h}"); meta.append(("lcall", d))
        reqs.append(f"posall\t{h}\t{ml}\t{mc}"); meta.append(("posall", d, ml, mc))
        reqs.append(f"endcols\t{h}\t{ml}"); meta.append(("endcols", d, ml))
    # ranges as the server sends them (convert::to_range): every ordered pair of boundaries must be
    # the client's positions of both ends
    rreqs, rdocs = [], []
    for d in ds:
        if len(d) <= 40:
            rreqs.append(f"rangeall\t{hexs(d)}"); rdocs.append(d)
    rio, rmo = common.run_both_chunked(rreqs)
    res.cov["evaluations"] += len(rreqs)
    for rq, d, a, b in zip(rreqs, rdocs, rio, rmo):
        if a != b:
            res.disagreements.append((rq, a[:300], b[:300]))
        bs = boundaries(strip_cr(d))
        want = " ".join(f"{l1}:{c1}-{l2}:{c2}" for i, (_, l1, c1) in enumerate(bs) for (_, l2, c2) in bs[i:])
        if a != want:
            got = a.split(" "); exp = want.split(" ")
            k = next((j for j in range(min(len(got), len(exp))) if got[j] != exp[j]), None)
            res.add_violation("C14/to_range", f"a range the server sends is {got[k] if k is not None and k < len(got) else '?'} where the client's positions are {exp[k] if k is not None else '?'}",
                              {"doc_hex": hexs(d), "doc": d})
    # the line table the server KEEPS after an incremental edit must be the one of the new text: ASCII edits in
    # front of / behind / between multi-byte characters, same length and length-changing, with and without line breaks
    ereqs, enew = [], []
    erng = random.Random(seed * 977 + 14)
    edocs = [d for d in ds if 2 <= len(d) <= 30 and wf_crlf(d)]
    erng.shuffle(edocs)
    for d in edocs[: (400 if tier == "quick" else 6000)]:
        pos = client_positions(d)
        for _ in range(3):
            i = erng.randrange(len(pos)); j = erng.randrange(i, min(len(pos), i + 4))
            ins = erng.choice(["", "x", "xy", "label", "\n", "x\ny", "ß", "💣z", " "])
            new = client_apply(d, pos[i][2], pos[j][2], ins)
            if not wf_crlf(new):
                continue
            ereqs.append(f"editlc\t{hexs(d)}\t{pos[i][0]}\t{pos[i][1]}\t{pos[j][0]}\t{pos[j][1]}\t{hexs(ins)}")
            enew.append(new)
    eio, emo = common.run_both_chunked(ereqs)
    res.cov["evaluations"] += len(ereqs)
    for rq, new, a, b in zip(ereqs, enew, eio, emo):
        if a != b:
            res.disagreements.append((rq, a[:300], b[:300]))
        s2 = strip_cr(new)
        bs = boundaries(s2)
        want = {off: f"{l}:{c}" for off, l, c in bs}
        parts = a.split(" ")
        if parts[0] != "ok" or parts[1] != hexs(s2):
            continue        # the text itself is C13's subject
        lcs = parts[2:]
        badoff = next((off for off in want if off < len(lcs) and lcs[off] != want[off]), None)
        if badoff is not None:
            res.add_violation("C14/line-table-after-edit", f"after an incremental edit the server reports {lcs[badoff]} for offset {badoff}, the client computes {want[badoff]}",
                              {"request": rq, "new_text": new})
    io, mo = common.run_both_chunked(reqs)
    res.cov["evaluations"] += len(reqs)
    distinct = set()
    for k, (rq, a, b) in enumerate(zip(reqs, io, mo)):
        if a != b:
            res.disagreements.append((rq, a, b))
    # oracle on the implementation
    for k in range(0, len(reqs), 3):
        d = meta[k][1]
        s = strip_cr(d)
        if nontrivial(d):
            distinct.add(d)
        lc = io[k].split(" ")
        pa = io[k + 1].split(" ")
        ml, mc = meta[k + 1][2], meta[k + 1][3]
        bad = None
        if lc[0] != hexs(s):
            bad = ("normalize", f"normalised text {lc[0]} != {hexs(s)}")
        prev = None
        bs = boundaries(s)
        for off, line, col in bs:
            if bad:
                break
            got = lc[1 + off]
            if got != f"{line}:{col}":
                bad = ("line_col_for_pos", f"offset {off}: server {got}, client {line}:{col}")
                break
            back = pa[line * (mc + 1) + col]
            if back != str(off):
                bad = ("pos_for_line_col", f"({line},{col}) -> {back}, expected {off}")
                break
            if prev is not None and not (prev < (line, col)):
                bad = ("monotone", f"{prev} !< {(line, col)}")
            prev = (line, col)
        if bad:
            res.add_violation("C14/" + bad[0], bad[1], {"doc_hex": hexs(d), "doc": d, "what": bad[1]})
    res.cov["distinct_nontrivial"] = len(distinct)
    res.cov["rule"] = ("all documents over {a, LF, CRLF, ß(2B), ℝ(3B), 💣(4B)} up to length %d (exhaustive) plus seeded long "
                       "documents; for each: line/col of every byte offset 0..len+1, offset of every (line,col) of a grid "
                       "one line and two columns beyond the document, end column of every line; non-trivial = contains a "
                       "multi-byte character and a line break" % (5 if tier == "quick" else 6))
    res.cov["exhaustive"] = True
    res.cov["samples"] = [{"request": reqs[i], "impl": io[i], "model": mo[i]} for i in (3, 301, len(reqs) - 3) if i < len(reqs)]


# ---------------- C13 ----------------
def ins_strings(maxlen):
    for n in range(maxlen + 1):
        for t in itertools.product(ALPHA, repeat=n):
            yield "".join(t)


def client_apply(doc, ps, pe, ins):
    return doc[:ps] + ins + doc[pe:]


def wf_crlf(doc):
    return "\r" not in doc.replace("\r\n", "")


def run_c13(res, tier, seed):
    rng = random.Random(seed)
    L = 4 if tier == "quick" else 5
    inss = list(ins_strings(2))
    reqs, exp = [], []
    distinct = set()
    for d in docs(L):
        h = hexs(d)
        pos = client_positions(d)
        for i in range(len(pos)):
            for j in range(i, len(pos)):
                (sl, sc, si), (el, ec, ei) = pos[i], pos[j]
                for ins in inss:
                    new = client_apply(d, si, ei, ins)
                    if not wf_crlf(new):
                        continue
                    reqs.append(f"edit\t{h}\t{sl}\t{sc}\t{el}\t{ec}\t{hexs(ins)}")
                    exp.append("ok " + hexs(strip_cr(new)))
        if nontrivial(d):
            distinct.add(d)
    n_valid = len(reqs)
    # malformed stream: every position pair of a grid beyond the document (small documents)
    for d in docs(3 if tier == "quick" else 4):
        h = hexs(d)
        s = strip_cr(d)
        b = boundaries(s)
        ml = b[-1][1] + 1
        mc = max(x[2] for x in b) + 2
        grid = [(l, c) for l in range(ml + 1) for c in range(mc + 1)]
        for (sl, sc) in grid:
            for (el, ec) in grid:
                reqs.append(f"edit\t{h}\t{sl}\t{sc}\t{el}\t{ec}\t78")
                exp.append(None)
    # columns near the top of the u32 range on every existing line (LSP: beyond the line end = the line end)
    for d in docs(3 if tier == "quick" else 4):
        h = hexs(d)
        s = strip_cr(d)
        b = boundaries(s)
        nlines = b[-1][1] + 1
        for l in range(nlines):
            on_line = [(off, c) for (off, ll, c) in b if ll == l]
            end_off = max(off for off, _ in on_line)
            for (off0, c0) in on_line:
                for big in (4294967295, 4294967294, 2147483648, 4294967295 - off0, 4294967296 - off0 - 1, 4294967295 - len(s.encode()), 65536):
                    if big <= max(c for _, c in on_line):
                        continue
                    reqs.append(f"edit\t{h}\t{l}\t{c0}\t{l}\t{big}\t78")
                    new = s.encode()[:off0] + b"x" + s.encode()[end_off:]
                    exp.append("ok " + new.hex())
                    reqs.append(f"edit\t{h}\t{l}\t{big}\t{l}\t{big}\t78")
                    new = s.encode()[:end_off] + b"x" + s.encode()[end_off:]
                    exp.append("ok " + new.hex())
    # unusual but legitimate characters (byte order mark, Unicode line/paragraph separators, NEL, NUL, zero-width space,
    # form feed, vertical tab, a combining sequence, the replacement character) at the start, after a line break, inside and
    # at the end: they are text like any other, and only LF / CRLF end a line
    for X in EXOTIC:
        for d in (X, X + X, X + "a\nb", "a\n" + X + "b", "ab" + X, "a" + X + "\r\nß" + X, X + "💣\n" + X):
            h = hexs(d)
            pos = client_positions(d)
            for i in range(len(pos)):
                for j in range(i, len(pos)):
                    (sl, sc, si), (el, ec, ei) = pos[i], pos[j]
                    for ins in ("", "x", X, "\n" + X):
                        new = client_apply(d, si, ei, ins)
                        if not wf_crlf(new):
                            continue
                        reqs.append(f"edit\t{h}\t{sl}\t{sc}\t{el}\t{ec}\t{hexs(ins)}")
                        exp.append("ok " + hexs(strip_cr(new)))
            reqs.append(f"editfull\t61\t{h}")
            exp.append("ok " + hexs(strip_cr(d)))
    # full-text replacement
    for ins in ins_strings(3):
        reqs.append(f"editfull\t61\t{hexs(ins)}")
        exp.append("ok " + hexs(strip_cr(ins)))
    io, mo = common.run_both_chunked(reqs)
    res.cov["evaluations"] += len(reqs)
    for rq, a, b, e in zip(reqs, io, mo, exp):
        if a != b:
            res.disagreements.append((rq, a, b))
        if e is not None and a != e:
            f = rq.split("\t")
            res.add_violation("C13/edit-diverges", f"server text {a} != client text {e}",
                              {"request": rq, "server": a, "client_expected": e})
    # seeded edit sequences (lock-step rounds; the server text of round k is the document of k+1)
    nseq = 300 if tier == "quick" else 3000
    steps = 8
    clients = []
    for _ in range(nseq):
        n = rng.randint(0, 30)
        pool = ALPHA + ["b", " "] + (SWEEP if rng.random() < 0.3 else []) + (EXOTIC if rng.random() < 0.3 else [])
        clients.append("".join(rng.choice(pool) for _ in range(n)))
    servers = [strip_cr(c) for c in clients]
    alive = list(range(nseq))
    seq_evals = 0
    for step in range(steps):
        reqs2, who = [], []
        for k in alive:
            c = clients[k]
            pos = client_positions(c)
            for _try in range(20):
                i = rng.randrange(len(pos)); j = rng.randrange(i, len(pos))
                if rng.random() < 0.1:
                    ins = "".join(rng.choice(ALPHA) for _ in range(rng.randint(0, 6)))
                    newc, rq = ins, f"editfull\t{hexs(servers[k])}\t{hexs(ins)}"
                else:
                    ins = "".join(rng.choice(ALPHA) for _ in range(rng.randint(0, 3)))
                    newc = client_apply(c, pos[i][2], pos[j][2], ins)
                    rq = f"edit\t{hexs(servers[k])}\t{pos[i][0]}\t{pos[i][1]}\t{pos[j][0]}\t{pos[j][1]}\t{hexs(ins)}"
                if wf_crlf(newc):
                    break
            else:
                continue
            clients[k] = newc
            reqs2.append(rq); who.append(k)
        io2, mo2 = common.run_both_chunked(reqs2)
        seq_evals += len(reqs2)
        nxt = []
        for rq, a, b, k in zip(reqs2, io2, mo2, who):
            if a != b:
                res.disagreements.append((rq, a, b))
            e = "ok " + hexs(strip_cr(clients[k]))
            if a != e:
                res.add_violation("C13/edit-diverges", f"step {step}: server {a} != client {e}",
                                  {"request": rq, "server": a, "client_expected": e, "step": step})
            else:
                servers[k] = strip_cr(clients[k]); nxt.append(k)
        alive = nxt
    res.cov["evaluations"] += seq_evals
    res.cov["distinct_nontrivial"] = len(distinct)
    res.cov["rule"] = (f"all documents over {{a, LF, CRLF, ß, ℝ, 💣}} up to length {L} x all ordered pairs of valid LSP positions x "
                       f"all replacement strings up to length 2 (exhaustive, {n_valid} valid single edits), every position pair of a grid "
                       f"beyond the document for small documents (malformed stream, model-vs-implementation only), full-text "
                       f"replacements, and {nseq} seeded sequences of {steps} edits; non-trivial document = has a multi-byte "
                       f"character and a line break")
    res.cov["exhaustive"] = True
    res.cov["valid_single_edits"] = n_valid
    res.cov["sequence_edits"] = seq_evals
    res.cov["samples"] = [{"request": reqs[i], "impl": io[i], "model": mo[i]} for i in (5, n_valid // 2, n_valid + 7) if i < len(reqs)]


def width(ch, enc):
    return u8(ch) if enc == "utf-8" else (1 if enc == "utf-32" else u16(ch))


def client_slice(text, rng_, enc="utf-16"):
    """the text an editor selects for an LSP range in ITS copy of the document (columns in the negotiated encoding,
    UTF-16 unless the server announced another one); None = not a valid range"""
    u16 = lambda ch: width(ch, enc)
    lines = text.split("\n")
    def off(pos):
        l, c = pos["line"], pos["character"]
        if l >= len(lines):
            return None
        o = sum(len(x) + 1 for x in lines[:l])
        k = 0
        for i, ch in enumerate(lines[l]):
            if k == c:
                return o + i
            k += u16(ch)
            if k > c:
                return None
        return o + len(lines[l]) if k == c else None
    a, b = off(rng_["start"]), off(rng_["end"])
    if a is None or b is None or a > b:
        return None
    return text[a:b]


def run_c14_e2e(res, tier, seed, prop="C14"):
    """positions the SERVER sends (handler.rs: locations, highlights, rename edits, prepare-rename ranges) in a project of
    several documents with different line tables: the editor slices its own copy of the named document"""
    import shutil, lsp
    lsp.build_glas()
    rng = random.Random(seed * 31 + 14)
    base = os.path.join(common.ROOT, "work", f"c14-{os.getpid()}")
    shutil.rmtree(base, ignore_errors=True)
    wide = ["ß", "ℝ", "💣", "é", "𝒳", "\u2028", "a", " "]
    def noise(n):
        return "".join(rng.choice(wide) for _ in range(n))
    try:
        import urllib.parse
        for k in range(6 if tier == "quick" else 60):
            # the project may live under a directory whose name needs escaping in a URI (`#`, `?`, `%41`, a blank, a backslash, `é`)
            root = f"{base}/p{k}" + ["", "", " c#app", "what?now", "rate%41b", "back\\slash é"][k % 6]
            os.makedirs(root + "/src")
            open(root + "/gleam.toml", "w").write('name = "p"\n')
            lib = (f"// {noise(rng.randrange(0, 40))}\n" * rng.randrange(0, 4) +
                   f"pub const k = \"{noise(rng.randrange(0, 12))}\" pub fn target() {{ \"{noise(rng.randrange(0, 9))}\" }}\n" +
                   f"// {noise(rng.randrange(0, 60))}\n" * rng.randrange(0, 3) +
                   f"pub fn other() {{ #(\"{noise(rng.randrange(0, 9))}\",target(), \"{noise(3)}\",target()) }}\n")
            main = (f"import lib\n" + f"// {noise(rng.randrange(0, 30))}\n" * rng.randrange(0, 3) +
                    f"pub fn main() {{ #(\"{noise(rng.randrange(0, 15))}\",lib.target(), \"{noise(2)}\",lib.target()) }}\n")
            third = f"import lib\npub fn third() {{ lib.target() }}\n// {noise(8)}\n"
            texts = {"lib": lib, "main": main, "third": third}
            for n, t in texts.items():
                open(f"{root}/src/{n}.gleam", "w").write(t)
            uri = {n: "file://" + urllib.parse.quote(f"{root}/src/{n}.gleam") for n in texts}
            byuri = {f"{root}/src/{n}.gleam": n for n in texts}      # by decoded path
            c = lsp.Lsp(root)
            try:
                # half of the sessions offer UTF-8 positions (LSP 3.17 negotiation): whatever the server announces is what
                # the editor then counts columns in, for the positions it sends and the ranges it receives
                offers = [None, ["utf-8", "utf-16"], ["utf-8"], ["utf-32"], ["utf-16", "utf-8"], ["utf-32", "utf-8"]][(k // 2 + k) % 6]
                if c.initialize(position_encodings=offers) is None:
                    continue
                enc = c.position_encoding
                if enc not in ("utf-8", "utf-16", "utf-32"):
                    res.add_violation(prop + "/unknown-position-encoding", f"the server announces the position encoding {enc!r}", {"offered": ["utf-8", "utf-16"]})
                    continue
                for n in ("main", "lib", "third"):
                    c.notify("textDocument/didOpen", {"textDocument": {"uri": uri[n], "languageId": "gleam", "version": 1, "text": texts[n]}})
                def pos_of(n, needle, nth=0, delta=0):
                    t = texts[n]
                    i = -1
                    for _ in range(nth + 1):
                        i = t.index(needle, i + 1)
                    i += delta
                    line = t.count("\n", 0, i)
                    col = sum(width(ch, enc) for ch in t[t.rfind("\n", 0, i) + 1:i])
                    return {"line": line, "character": col}
                asks = [("main", "lib.target", 0, 4), ("main", "lib.target", 1, 4), ("lib", "fn target", 0, 3), ("lib", "target()", 1, 0), ("third", "lib.target", 0, 4)]
                version = [1]
                def type_edit(n, needle, delta, ins="", delete=0):
                    """one keystroke in the editor: insert `ins` / delete `delete` characters at needle+delta; the server is told
                    by an incremental didChange and the editor's copy changes the same way"""
                    t = texts[n]
                    i = t.index(needle) + delta
                    line = t.count("\n", 0, i)
                    ls = t.rfind("\n", 0, i) + 1
                    col = sum(width(ch, enc) for ch in t[ls:i])
                    cole = col + sum(width(ch, enc) for ch in t[i:i + delete])
                    version[0] += 1
                    c.notify("textDocument/didChange", {"textDocument": {"uri": uri[n], "version": version[0]},
                             "contentChanges": [{"range": {"start": {"line": line, "character": col}, "end": {"line": line, "character": cole}}, "text": ins}]})
                    texts[n] = t[:i] + ins + t[i + delete:]
                def batch_edit(n, edits):
                    """several content changes in ONE didChange (a multi-cursor edit, an applied rename): each is relative to
                    the document as the previous one left it"""
                    cc = []
                    for (needle, delta, ins) in edits:
                        t = texts[n]
                        i = t.index(needle) + delta
                        line = t.count("\n", 0, i)
                        ls = t.rfind("\n", 0, i) + 1
                        col = sum(width(ch, enc) for ch in t[ls:i])
                        cc.append({"range": {"start": {"line": line, "character": col}, "end": {"line": line, "character": col}}, "text": ins})
                        texts[n] = t[:i] + ins + t[i:]
                    version[0] += 1
                    c.notify("textDocument/didChange", {"textDocument": {"uri": uri[n], "version": version[0]}, "contentChanges": cc})
                def ask_all(stage):
                    for (n, needle, nth, delta) in asks:
                        p = {"textDocument": {"uri": uri[n]}, "position": pos_of(n, needle, nth, delta)}
                        got = []        # (what, uri, range)
                        r = c.request("textDocument/definition", p, timeout=30)
                        for loc in ((r or {}).get("result") or []) if isinstance((r or {}).get("result"), list) else ([r["result"]] if (r or {}).get("result") else []):
                            got.append(("definition", loc.get("uri") or loc.get("targetUri"), loc.get("range") or loc.get("targetSelectionRange")))
                        r = c.request("textDocument/references", dict(p, context={"includeDeclaration": True}), timeout=30)
                        for loc in ((r or {}).get("result") or []):
                            got.append(("references", loc["uri"], loc["range"]))
                        r = c.request("textDocument/documentHighlight", p, timeout=30)
                        for h in ((r or {}).get("result") or []):
                            got.append(("documentHighlight", uri[n], h["range"]))
                        r = c.request("textDocument/prepareRename", p, timeout=30)
                        pr = (r or {}).get("result")
                        if isinstance(pr, dict):
                            got.append(("prepareRename", uri[n], pr.get("range") or pr))
                        r = c.request("textDocument/rename", dict(p, newName="zq9"), timeout=30)
                        for u, edits in (((r or {}).get("result") or {}).get("changes") or {}).items():
                            for e in edits:
                                got.append(("rename", u, e["range"]))
                        res.cov["evaluations"] += len(got)
                        for (what, u, rg) in got:
                            name = byuri.get(os.path.normpath(urllib.parse.unquote(u[7:]))) if u.startswith("file://") else None
                            if name is None and u.startswith("file://"):
                                res.add_violation(prop + "/server-names-file-outside-workspace",
                                                  f"{what} asked in {n}.gleam: the answer names {u!r}, which is none of the workspace's files (root {root!r})",
                                                  {"root": root, "asked_in": n, "request": what, "answer_uri": u, "offered_position_encodings": offers})
                                break
                            if name is None or not isinstance(rg, dict) or "start" not in rg:
                                continue
                            sel = client_slice(texts[name], rg, enc)
                            if sel != "target":
                                res.add_violation(prop + "/server-range-selects-other-text",
                                                  f"{what} asked in {n}.gleam: the range {rg['start']['line']}:{rg['start']['character']}-{rg['end']['line']}:{rg['end']['character']} "
                                                  f"in {name}.gleam selects {sel!r} in the editor's copy (columns counted in {enc}), not `target`",
                                                  {"texts": texts, "asked_in": n, "position": p["position"], "request": what, "answer_uri": u, "answer_range": rg})
                                break
                ask_all("opened")
                # typing inside lines that carry wide characters further right, keystroke by keystroke, then deleting again:
                # the line tables the server keeps after incremental edits must still be the editor's
                typed = "abcdefghijkl"
                for j, ch in enumerate(typed):
                    type_edit("main", "pub fn main", len("pub fn main") + j, ins=ch)
                    type_edit("lib", "pub const k", len("pub const k") + j, ins=ch)
                    type_edit("lib", "pub fn other", len("pub fn other") + j, ins=ch)
                ask_all("typed")
                for _ in range(3):
                    type_edit("main", "pub fn main", len("pub fn main"), delete=1)
                    type_edit("lib", "pub const k", len("pub const k"), delete=1)
                    type_edit("lib", "pub fn other", len("pub fn other"), delete=1)
                ask_all("deleted")
                # a mistyped character corrected: a wide character is typed into the string in front of the calls, then replaced by
                # an ASCII one in ONE change (the deleted text is wide, the inserted text ASCII), then typing goes on behind it
                for wch in ("ü", "💣", "ℝ"):
                    type_edit("main", '#("', 3, ins=wch)
                    type_edit("lib", '#("', 3, ins=wch)
                    ask_all("a wide character typed")
                    type_edit("main", '#("', 3, ins="u", delete=1)
                    type_edit("lib", '#("', 3, ins="u", delete=1)
                    ask_all("the wide character replaced by an ASCII one")
                    type_edit("main", '#("', 4, ins="x")
                    type_edit("lib", '#("', 0, ins=" ")
                    ask_all("typed on behind the correction")
                # one notification with several changes: a line inserted above and characters typed in two places
                batch_edit("main", [("import lib", 0, "// first line\n"), ("pub fn main", len("pub fn main"), "QQ"), ("lib.target", 0, " ")])
                batch_edit("lib", [("pub fn other", 0, "\n"), ("pub const k", len("pub const k"), "zz"), ("pub fn other", len("pub fn other"), "W")])
                ask_all("batched")
                # a module goes (closed, deleted on disk, the server told by a watched-files event) and another one comes, with a
                # different line layout: the new document's answers are counted in the new document's lines
                gone = ["main", "third"][k % 2]
                c.notify("textDocument/didClose", {"textDocument": {"uri": uri[gone]}})
                os.remove(f"{root}/src/{gone}.gleam")
                c.notify("workspace/didChangeWatchedFiles", {"changes": [{"uri": uri[gone], "type": 3}]})
                fresh = (f"// {noise(rng.randrange(5, 50))}\n" * rng.randrange(2, 6) + "import lib\n" +
                         f"pub fn fresh() {{ #(\"{noise(rng.randrange(0, 15))}\",lib.target(), \"{noise(2)}\",lib.target()) }}\n")
                texts["fresh"] = fresh
                del texts[gone]
                open(f"{root}/src/fresh.gleam", "w").write(fresh)
                uri["fresh"] = "file://" + urllib.parse.quote(f"{root}/src/fresh.gleam")
                byuri[f"{root}/src/fresh.gleam"] = "fresh"
                byuri.pop(f"{root}/src/{gone}.gleam", None)
                c.notify("textDocument/didOpen", {"textDocument": {"uri": uri["fresh"], "languageId": "gleam", "version": 1, "text": fresh}})
                asks[:] = [a for a in asks if a[0] != gone] + [("fresh", "lib.target", 0, 4), ("fresh", "lib.target", 1, 4)]
                ask_all("a module deleted, another one opened")
            finally:
                c.close()
    finally:
        shutil.rmtree(base, ignore_errors=True)


# ---------------- C19 (encoder half) ----------------
def decode_tokens(s):
    """LSP relative decoding -> [(line, start, length, type)]"""
    if s == "-":
        return []
    out, line, start = [], 0, 0
    for t in s.split(","):
        dl, ds, ln, ty = map(int, t.split(":"))
        if dl != 0:
            line += dl; start = ds
        else:
            start += ds
        out.append((line, start, ln, ty))
    return out


def single_line_ranges(s):
    """all non-empty ranges between character boundaries of s that contain no line break"""
    b = boundaries(s)
    res = []
    for i in range(len(b)):
        for j in range(i + 1, len(b)):
            if b[i][1] != b[j][1]:
                break
            res.append((b[i], b[j]))
    return res


def run_c19(res, tier, seed):
    rng = random.Random(seed)
    L = 4 if tier == "quick" else 5
    maxh = 2 if tier == "quick" else 3
    reqs, exp = [], []
    distinct = set()
    for d in docs(L):
        s = strip_cr(d)
        rs = single_line_ranges(s)
        h = hexs(d)
        for k in range(0, maxh + 1):
            for combo in itertools.combinations(range(len(rs)), k):
                ok = all(rs[combo[i]][1][0] <= rs[combo[i + 1]][0][0] for i in range(k - 1))
                if not ok:
                    continue
                hl, e = [], []
                for n, ci in enumerate(combo):
                    (so, sl, sc), (eo, el, ec) = rs[ci]
                    ty = (n + len(s) + ci) % 3
                    hl.append(f"{so}:{eo}:{ty}")
                    e.append((sl, sc, ec - sc, ty))
                reqs.append(f"semtok\t{h}\t{','.join(hl) if hl else '-'}")
                exp.append(e)
                if k >= 2 and nontrivial(d):
                    distinct.add(reqs[-1])
    n_valid = len(reqs)
    # malformed stream: multi-line, unsorted, overlapping, empty and out-of-range highlights
    for d in docs(3 if tier == "quick" else 4):
        s = strip_cr(d)
        n = len(s.encode()) + 1
        h = hexs(d)
        allr = [(a, b) for a in range(n + 1) for b in range(a, n + 1)]
        for (a, b) in allr:
            reqs.append(f"semtok\t{h}\t{a}:{b}:1"); exp.append(None)
        for _ in range(6):
            (a, b), (c, e) = rng.choice(allr), rng.choice(allr)
            reqs.append(f"semtok\t{h}\t{a}:{b}:0,{c}:{e}:2"); exp.append(None)
    io, mo = common.run_both_chunked(reqs)
    res.cov["evaluations"] += len(reqs)
    for rq, a, b, e in zip(reqs, io, mo, exp):
        if a != b:
            res.disagreements.append((rq, a, b))
        if e is None:
            continue
        bad = None
        if a.startswith("PANIC"):
            bad = "encoder panicked"
        else:
            dec = decode_tokens(a)
            if dec != e:
                bad = f"decoded {dec} != highlighted {e}"
            elif any(not (dec[i][:2] < dec[i + 1][:2]) for i in range(len(dec) - 1)):
                bad = f"not strictly increasing: {dec}"
        if bad:
            res.add_violation("C19/encoder", bad, {"request": rq, "server": a, "expected_decoding": e})
    res.cov["distinct_nontrivial"] = len(distinct)
    res.cov["rule"] = (f"all documents over {{a, LF, CRLF, ß, ℝ, 💣}} up to length {L} x all sorted disjoint lists of at most {maxh} "
                       f"non-empty single-line boundary-aligned highlights ({n_valid} lists, exhaustive) decoded by the LSP rules and "
                       f"compared with the highlighted (line, utf16 start, utf16 length, type); plus a malformed stream (multi-line, "
                       f"unsorted, overlapping, out-of-range) compared model-vs-implementation only; non-trivial = at least two "
                       f"highlights in a document with a multi-byte character and a line break")
    res.cov["exhaustive"] = True
    res.cov["samples"] = [{"request": reqs[i], "impl": io[i], "model": mo[i]} for i in (9, n_valid // 2, n_valid + 3) if i < len(reqs)]


def run_c19_tagging(res, tier, seed):
    """second half of C19: which identifiers get which tag, on the real highlight output"""
    import gen_scope, p_ide
    rng = random.Random(seed + 19)
    n_ws = 120 if tier == "quick" else 2000
    wss = [gen_scope.generate(seed * 65537 + i) for i in range(n_ws)]
    batches = []
    plans = []
    for ws in wss:
        qs, plan = [], []
        for i, (p, t) in enumerate(ws.files):
            if not p.endswith(".gleam"):
                continue
            qs.append(f"sem\t{i}")
            n = len(t.encode())
            rs = []
            import re as _re
            inside = [m.start() + 1 for m in _re.finditer(rb"\b(gg|Bb)\b", t.encode())]
            for j in range(6):
                a = rng.randrange(0, n + 1); b = rng.randrange(a, n + 1)
                if inside and j < 3:
                    # a range that ends (or starts) in the middle of an identifier
                    cut = rng.choice(inside)
                    a, b = (rng.randrange(0, cut + 1), cut) if j % 2 == 0 else (cut, rng.randrange(cut, n + 1))
                rs.append((a, b))
                qs.append(f"semrange\t{i}\t{a}\t{b}")
            plan.append((i, rs))
        batches.append((ws, qs))
        plans.append(plan)
    answers = p_ide.run_workspaces(batches)

    def parse(line):
        out = []
        if line in ("empty", "none") or line.startswith("PANIC"):
            return out
        for h in line.split(";"):
            rg, tag = h.split(":")
            a, b = rg.split("-")
            out.append((int(a), int(b), tag))
        return out

    nmod = 0
    tie_reqs, tie_impl = [], []
    for ws, plan, ans in zip(wss, plans, answers):
        k = 0
        for (fi, rs) in plan:
            full = parse(ans[k]); k += 1
            res.cov["evaluations"] += 1 + len(rs)
            tagged = {(a, b): t for a, b, t in full}
            if len(tagged) != len(full) or full != sorted(full):
                res.add_violation("C19/tagging/unsorted-or-duplicate", f"highlights of file {fi} are not strictly increasing: {full[:8]}", p_ide.replay_ws(ws, ws.occs[0], ans[k - 1][:300], None))
            must, may = {}, set()
            ctx = {}            # key -> (parent, Definition variant, function-typed local) for the model of token_tag
            for o in ws.occs:
                if o.file != fi:
                    continue
                e = o.expect
                key = (o.offset, o.offset + len(o.name.encode()))
                if o.stream != "core":
                    may.add(key)        # streams with known resolution defects (C05): tagging follows resolution
                    continue
                if o.ns in ("value", "qualified-value", "constructor", "pattern-constructor") and e and e[0] == "M":
                    if o.ns == "qualified-value" and e[1].kind == "const":
                        continue
                    if e[1].module != fi and p_ide.clash_known(ws, e[1]):
                        may.add(key); continue      # known value/type import clash (C05)
                    if e[1].kind == "fn":
                        must[key] = "Function"; ctx[key] = ("nameref", "Function", 0)
                    elif e[1].kind == "variant":
                        must[key] = "Constructor"; ctx[key] = ("nameref", "Variant", 0)
                elif o.ns == "value" and e and e[0] == "L":
                    if e[1].is_fn:
                        must[key] = "Function"; ctx[key] = ("nameref", "Local", 1)
                    else:
                        may.add(key)        # a local may be function-typed (parameter, alias of a function)
                elif o.ns == "module":
                    nmod += 1
                    may.add(key)
                elif o.ns in ("import-value",):
                    may.add(key)
            for d in ws.modules[fi].decls:
                if d.kind == "variant":
                    must[(d.offset, d.offset + len(d.name))] = "Constructor"; ctx[(d.offset, d.offset + len(d.name))] = ("variantname", "-", 0)
                elif d.kind == "fn":
                    may.add((d.offset, d.offset + len(d.name)))
            # the model of token_tag (table regenerated from semantic_highlighting.rs, theorems tag_function_iff /
            # tag_constructor_iff) must predict the tag the implementation gives every identifier whose context is known
            for key, (par, kind, isfn) in ctx.items():
                tie_reqs.append(f"hltag\t{par}\t{kind}\t{isfn}")
                tie_impl.append((f"file {fi} token {key}", tagged.get(key) or "none"))
            bad = None
            for key, t in must.items():
                if tagged.get(key) != t:
                    bad = f"identifier at {key} should be tagged {t}, is {tagged.get(key)}"
                    break
            if bad is None:
                for key, t in tagged.items():
                    if key not in must and key not in may:
                        bad = f"token at {key} is tagged {t} but is no function/constructor/module identifier"
                        break
            if bad:
                res.add_violation("C19/tagging/wrong-identifiers", bad, {"files": [{"path": p, "text": t} for p, t in ws.files], "query": f"sem\t{fi}", "impl": ans[k - 1][:500]})
            for (a, b) in rs:
                got = parse(ans[k]); k += 1
                want = [h for h in full if h[0] < b and h[1] > a]
                if a == b:
                    continue
                if got != want:
                    res.add_violation("C19/tagging/range-request", f"highlights for the range {a}-{b} are {got[:6]}, the full answer restricted to it is {want[:6]}",
                                      {"files": [{"path": p, "text": t} for p, t in ws.files], "query": f"semrange\t{fi}\t{a}\t{b}", "impl": ans[k - 1][:300]})
    res.cov["tagging_workspaces"] = n_ws
    if tie_reqs:
        mo, _ = common.run_lines(common.DRIVER_BIN, tie_reqs)
        res.cov["tagging_model_tie"] = len(tie_reqs)
        for rq, (where, impl), m in zip(tie_reqs, tie_impl, mo):
            if impl != m:
                res.disagreements.append((rq + " @ " + where, impl, m))
    # module identifiers are never tagged (HlTag::Module is never produced)
    if nmod:
        any_mod = any(":Module" in a for ans in answers for a in ans)
        if not any_mod:
            res.add_violation("C19/module-identifiers-not-tagged", f"{nmod} module identifiers (import paths, accessors of qualified uses) occur, none is tagged as module",
                              {"note": "HlTag::Module is never produced by ide::ide::semantic_highlighting::highlight"})


def run_c19_tag_corners(res, tier, seed):
    """tagging in the corners of the expression grammar the lowering does not descend into on its own (operands of prefix operators,
    messages of `panic as` / `todo as`): a function-typed local is tagged as a function there as everywhere else, a local that holds a number
    and is spelled like a function of the module is not.  Tags fixed by the construction; byte ranges computed from the text."""
    rng = random.Random(seed * 19 + 7)
    fnames = ["helper", "pred", "apply", "go"]
    for variant in range(8 if tier == "quick" else 64):
        h, pr = rng.sample(fnames, 2)
        pad = rng.choice(["", "  // ßℝ💣\n", "\n"])
        text = (f"pub fn {h}(x: Int) {{ x }}\n\n{pad}"
                f"pub fn check({pr}: fn(Int) -> Bool, n: Int) {{\n"
                f"  let {h} = 3\n"
                f"  let neg = -{h}\n"
                f"  let ok = !{pr}(n)\n"
                f"  let f = fn(y) {{ y }}\n"
                f"  let r = !f(True)\n"
                f"  let plain = {pr}(n)\n"
                f"  let g = f\n"
                f"  #(neg, ok, r, plain, g, {h})\n}}\n")
        def rng_of(needle, delta):
            i = len(text[:text.index(needle) + delta].encode())
            return i
        must = {}      # (start, end) -> tag or None (must be untagged)
        a = rng_of(f"-{h}", 1); must[(a, a + len(h))] = None
        a = rng_of(f"!{pr}(n)", 1); must[(a, a + len(pr))] = "Function"
        a = rng_of("!f(True)", 1); must[(a, a + 1)] = "Function"
        a = rng_of(f"plain = {pr}(n)", 8); must[(a, a + len(pr))] = "Function"
        a = rng_of(f"g, {h})", 3); must[(a, a + len(h))] = None
        lines = ["ws-begin", f"file\t/w/p/src/m1.gleam\t{hexs(text)}", "file\t/w/p/gleam.toml\t" + hexs('name = "p"\n'), "root\t/w/p\t0,1", "pkg\tp\t1\t1\t-", "ws-end", "sem\t0"]
        out, rc = common.run_lines(common.HARNESS_BIN, lines)
        res.cov["evaluations"] += len(must)
        if len(out) != len(lines) or out[-1].startswith("PANIC"):
            continue
        tagged = {}
        if out[-1] not in ("empty", "none"):
            for hl in out[-1].split(";"):
                rg, tag = hl.split(":")
                x, y = rg.split("-")
                tagged[(int(x), int(y))] = tag
        for key, want in must.items():
            got = tagged.get(key)
            if got != want:
                res.add_violation("C19/tagging/under-prefix-operators", f"`{text[key[0]:key[1]] if text.isascii() else key}` at bytes {key}: tagged {got}, should be {want} "
                                  f"(operand of a prefix operator / a local spelled like a module function)",
                                  {"files": [{"path": "/w/p/src/m1.gleam", "text": text}], "query": "sem\t0", "impl": out[-1][:400]})
                break


def run_c19_ranges_e2e(res, tier, seed):
    """the stream the server SENDS for textDocument/semanticTokens/range, asked with LSP positions: whole lines selected the
    way editors do it - end column far beyond the line (it means the line end), start column beyond the line too - on lines
    with wide characters, followed by lines that begin with an identifier.  The decoded answer must be exactly the tokens of
    the full answer that lie on the selected lines."""
    import shutil, lsp
    lsp.build_glas()
    rng = random.Random(seed * 31 + 19)
    base = os.path.join(common.ROOT, "work", f"c19-{os.getpid()}")
    shutil.rmtree(base, ignore_errors=True)
    wide = ["ß", "ℝ", "💣", "é", "𝒳", "a", " "]
    def noise(n):
        return "".join(rng.choice(wide) for _ in range(n))
    BIG = [100000, 4294967295, 1000]
    try:
        for k in range(3 if tier == "quick" else 40):
            root = f"{base}/p{k}"
            os.makedirs(root + "/src")
            open(root + "/gleam.toml", "w").write('name = "p"\n')
            text = ("pub type Shape {\n" + f"  Circle // {noise(rng.randrange(1, 12))}\n" + "Square\n" + f"  Dot // {noise(rng.randrange(1, 30))}\n}}\n"
                    + f"// {noise(rng.randrange(1, 40))}\n" + "pub fn one() {\n" + f"  \"{noise(rng.randrange(1, 9))}\"\n" + "one()\n" + f"  Circle // {noise(5)}\n" + f"  one(Circle(\"{noise(rng.randrange(1, 4))}\"), one)\n}}\n"
                    + f"pub fn area(s) {{ // {noise(rng.randrange(1, 20))}\n" + "  case s {\n" + f"    Circle -> one() // {noise(3)}\nSquare -> one()\n    Dot -> 2\n  }}\n}}\n")
            open(root + "/src/m.gleam", "w").write(text)
            uri = f"file://{root}/src/m.gleam"
            nlines = text.count("\n")
            c = lsp.Lsp(root)
            try:
                if c.initialize() is None:
                    continue
                c.notify("textDocument/didOpen", {"textDocument": {"uri": uri, "languageId": "gleam", "version": 1, "text": text}})
                r = c.request("textDocument/semanticTokens/full", {"textDocument": {"uri": uri}}, timeout=30)
                data = ((r or {}).get("result") or {}).get("data")
                if data is None:
                    continue
                def decode(d):
                    out, line, col = [], 0, 0
                    for i in range(0, len(d) - 4, 5):
                        dl, dc, ln, ty = d[i], d[i + 1], d[i + 2], d[i + 3]
                        line += dl
                        col = dc if dl else col + dc
                        out.append((line, col, ln, ty))
                    return out
                full = decode(data)
                res.cov["evaluations"] += 1
                asks = []
                for _ in range(10 if tier == "quick" else 40):
                    l1 = rng.randrange(0, nlines); l2 = rng.randrange(l1, nlines)
                    big = rng.choice(BIG)
                    asks.append(((l1, 0, l2, big), [t for t in full if l1 <= t[0] <= l2], "whole lines, end column beyond the line"))
                    if l2 > l1:
                        asks.append(((l1, big, l2, big), [t for t in full if l1 < t[0] <= l2], "start and end column beyond their lines"))
                        asks.append(((l1, 0, l2, 0), [t for t in full if l1 <= t[0] < l2], "up to the start of a line"))
                for (l1, c1, l2, c2), want, what in asks:
                    rr = c.request("textDocument/semanticTokens/range", {"textDocument": {"uri": uri}, "range": {"start": {"line": l1, "character": c1}, "end": {"line": l2, "character": c2}}}, timeout=30)
                    res.cov["evaluations"] += 1
                    if rr is None or "error" in rr:
                        got = None
                    else:
                        got = decode(((rr.get("result") or {}).get("data")) or [])
                    if got != want:
                        res.add_violation("C19/range-request-over-lsp", f"semanticTokens/range {l1}:{c1}-{l2}:{c2} ({what}) decodes to {got if got is None else got[:6]}; the tokens of the full answer on those lines are {want[:6]}",
                                          {"text": text, "range": [l1, c1, l2, c2], "answer": rr if rr is None or "error" in rr else got, "expected": want})
                        break
                # the same document after it was TYPED INTO: single-character ASCII insertions (and some deletions) on lines that carry
                # wide characters behind the caret; the stream of the edited session must be the stream of a fresh session on the final text
                lines = text.split("\n")
                cur = text
                ver = 1
                cands = [i for i, l in enumerate(lines) if any(ord(ch) > 127 for ch in l)]
                typed_line = rng.choice([i for i in cands if "one(Circle(" in lines[i]] or cands)
                for _ in range(rng.randrange(4, 14)):
                    # mostly one line, the way a word is typed
                    li = typed_line if rng.random() < 0.8 else rng.choice(cands)
                    l = lines[li]
                    firstwide = next(i for i, ch in enumerate(l) if ord(ch) > 127)
                    col = rng.randrange(0, firstwide + 1)          # ASCII before it: UTF-16 column == character index
                    if rng.random() < 0.8 or col == 0:
                        ins = rng.choice(["x", " ", "q", "_", "1"])
                        chg = {"range": {"start": {"line": li, "character": col}, "end": {"line": li, "character": col}}, "text": ins}
                        lines[li] = l[:col] + ins + l[col:]
                    else:
                        chg = {"range": {"start": {"line": li, "character": col - 1}, "end": {"line": li, "character": col}}, "text": ""}
                        lines[li] = l[:col - 1] + l[col:]
                    ver += 1
                    c.notify("textDocument/didChange", {"textDocument": {"uri": uri, "version": ver}, "contentChanges": [chg]})
                cur = "\n".join(lines)
                r2 = c.request("textDocument/semanticTokens/full", {"textDocument": {"uri": uri}}, timeout=30)
                l1 = rng.randrange(0, nlines); l2 = rng.randrange(l1, nlines)
                rq = {"textDocument": {"uri": uri}, "range": {"start": {"line": l1, "character": 0}, "end": {"line": l2, "character": 100000}}}
                r3 = c.request("textDocument/semanticTokens/range", rq, timeout=30)
                c2 = lsp.Lsp(root)
                try:
                    if c2.initialize() is not None:
                        c2.notify("textDocument/didOpen", {"textDocument": {"uri": uri, "languageId": "gleam", "version": 1, "text": cur}})
                        f2 = c2.request("textDocument/semanticTokens/full", {"textDocument": {"uri": uri}}, timeout=30)
                        f3 = c2.request("textDocument/semanticTokens/range", rq, timeout=30)
                        res.cov["evaluations"] += 2
                        for what, a, b in (("full", r2, f2), ("range", r3, f3)):
                            da = ((a or {}).get("result") or {}).get("data")
                            db = ((b or {}).get("result") or {}).get("data")
                            if da != db:
                                res.add_violation("C19/stream-after-typing", f"semanticTokens/{what} of a document that was typed into (single ASCII characters before a wide character of the line) "
                                                  f"decodes to {None if da is None else decode(da)[:8]}; a fresh session on the same final text answers {None if db is None else decode(db)[:8]}",
                                                  {"text": text, "final": cur, "edited_session": da, "fresh_session": db})
                                break
                finally:
                    c2.close()
            finally:
                c.close()
    finally:
        shutil.rmtree(base, ignore_errors=True)


PROOF_MODULES = {"C13": ["Glas.Props.C13"], "C14": ["Glas.Props.C14"], "C19": ["Glas.Props.C19", "Glas.Props.C19Tags"]}


def run(prop, res, tier, seed):
    res.assumptions += [
        "u32 arithmetic modelled as checked (dev-profile overflow checks); file length < 2^32 (MAX_FILE_LEN = 128 MiB)",
        "client documents use LF or CRLF line breaks only (no lone CR), as the property states",
        "LineMap/Vfs/convert reached through the `verif` wrappers of crate glas; FxHashMap modelled as a total map",
    ]
    try:
        res.extra.update(common.prove(prop, PROOF_MODULES[prop]))
    except Broken as b:
        res.add_broken(b.what, b.detail)
        if not os.path.exists(common.DRIVER_BIN):
            return
    {"C13": run_c13, "C14": run_c14, "C19": run_c19}[prop](res, tier, seed)
    if prop == "C14":
        run_c14_e2e(res, tier, seed)
    if prop == "C19":
        run_c19_tagging(res, tier, seed)
        run_c19_tag_corners(res, tier, seed)
        run_c19_ranges_e2e(res, tier, seed)
    if prop == "C13":
        import p_server
        p_server.run_c13_blackbox(res, tier, seed)
    if res.disagreements:
        rq, a, b = res.disagreements[0]
        res.add_broken("correspondence model-vs-implementation (M-text)",
                       f"{len(res.disagreements)} disagreeing cases; first: request={rq!r} impl={a!r} model={b!r}")


def replay(prop, path):
    r = json.load(open(path))
    rq = r.get("replay", {}).get("request")
    if not rq:
        print(json.dumps(r, indent=1))
        return 0
    common.build_harness()
    io, mo = common.run_both([rq])
    print("request:", rq)
    print("impl :", io[0])
    print("model:", mo[0])
    print("oracle expected:", r["replay"].get("client_expected") or r["replay"].get("expected_decoding"))
    return 0
