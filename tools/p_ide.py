"""C05 / C18 (and helpers shared with C06, C07, C20): scope resolution through `ide::Analysis`.
Theorems: lean/Glas/Props/{C05,C18}.lean about lean/Glas/Model/Scope.lean.
Tie: the hand model (Lean driver command `scope`) and the implementation (go-to-definition,
completion through the harness) are run on the same generated functions; independently the
generator's binding-by-construction is the oracle evaluated on the implementation's answers."""
import json, os, random, re
import common, gen_scope
from common import hexs, Broken


def ws_lines(ws):
    lines = ["ws-begin"] + [f"file\t{p}\t{hexs(t)}" for p, t in ws.files]
    if getattr(ws, "roots", None):
        # several source roots / packages with their direct dependencies (indices into the package list)
        for (path, idxs) in ws.roots:
            lines.append(f"root\t{path}\t{','.join(str(i) for i in idxs)}")
        for (name, toml, local, deps) in ws.pkgs:
            lines.append(f"pkg\t{name}\t{toml}\t{local}\t{','.join(str(d) for d in deps) if deps else '-'}")
    else:
        lines.append(f"root\t/w/p\t{','.join(str(i) for i in range(len(ws.files)))}")
        lines.append(f"pkg\tp\t{len(ws.files) - 1}\t1\t-")
    lines.append("ws-end")
    return lines


def run_workspaces(batches):
    """batches: list of (ws, [query lines]) -> list of [answers]; keeps each workspace in one process"""
    def run_chunk(chunk):
        lines, spans = [], []
        for ws, qs in chunk:
            pre = ws_lines(ws)
            lines += pre
            spans.append((len(lines), len(qs)))
            lines += qs
        out, rc = common.run_lines(common.HARNESS_BIN, lines)
        if len(out) != len(lines):
            raise Broken("implementation harness died",
                         f"rc={rc}, answered {len(out)} of {len(lines)}; next: {lines[len(out)][:300] if len(out) < len(lines) else ''}")
        return [out[a:a + n] for a, n in spans]
    n = max(1, min(common.NCPU, len(batches) // 8 + 1))
    size = (len(batches) + n - 1) // n
    chunks = [batches[i:i + size] for i in range(0, len(batches), size)]
    res = common.parallel_map(run_chunk, chunks, workers=n)
    return [x for r in res for x in r]


def parse_target(s):
    """goto answer -> (file, focus_start, focus_end, full_start, full_end) or None"""
    if s in ("none", "targets-empty") or s.startswith("path") or s.startswith("PANIC"):
        return None
    first = s.split(";")[0]
    f, full, focus = first.split(":")
    a, b = focus.split("-")
    c, d = full.split("-")
    return (int(f), int(a), int(b), int(c), int(d))


def expected_target(o):
    e = o.expect
    if e is None:
        return None
    if e[0] == "L":
        return (e[1].file, e[1].offset)
    if e[0] == "M":
        return (e[1].file, e[1].offset)
    return "other"


def module_decl_list(gen_ws, m):
    """the module's value table inserts in `module_scope_with_map_query` order, as (name, index or 'T') and
    index -> Decl.  An unqualified value import inserts EVERY public declaration of that name of the
    exporting module (functions, constants, then per type in source order: the type, its constructors)."""
    decls, table = [], []
    def add(name, d):
        table.append(d)
        decls.append((name, len(table) - 1))
    for (ti, alias, unq) in m.imports:
        t = gen_ws.modules[ti]
        for (name, al, is_type, d) in unq:
            if is_type:
                continue
            local = al or name
            for x in t.decls:
                if x.kind == "fn" and x.name == name and x.pub:
                    add(local, x)
            for x in t.decls:
                if x.kind == "const" and x.name == name and x.pub:
                    add(local, x)
            for ty in getattr(t, "render_order", []):
                if ty.kind != "type" or not ty.pub:
                    continue
                if ty.name == name:
                    decls.append((local, "T"))
                for v in t.decls:
                    if v.kind == "variant" and v.parent is ty and v.name == name:
                        add(local, v)
    for d in m.decls:
        if d.kind == "fn":
            add(d.name, d)
    for d in m.decls:
        if d.kind == "const":
            add(d.name, d)
    for ty in getattr(m, "render_order", []):
        if ty.kind == "type":
            for v in m.decls:
                if v.kind == "variant" and v.parent is ty:
                    add(v.name, v)
    return decls, table


CORE_GOTO_NS = {"value", "constructor", "pattern-constructor", "type", "qualified-type", "qualified-value",
                "import-value", "import-type"}


def run_c05(res, tier, seed, want_c18=False):
    n_ws = 400 if tier == "quick" else 6000
    batches, metas = [], []
    for i in range(n_ws):
        ws = gen_scope.generate(seed * 100003 + i, guards=(i % 5 == 0))
        occs = [o for o in ws.occs if o.ns in CORE_GOTO_NS]
        qs = [f"goto\t{o.file}\t{o.offset}" for o in occs]
        vocc = [o for o in ws.occs if o.ns == "value" and o.visible is not None and o.stream == "core"]
        if want_c18:
            qs += [f"complete\t{o.file}\t{o.offset}\t-" for o in vocc]
        batches.append((ws, qs))
        metas.append((ws, occs, vocc))
    answers = run_workspaces(batches)
    # model side: one `scope` request per function
    mreqs, mmeta = [], []
    for ws, occs, vocc in metas:
        for m in ws.modules:
            decls, table = module_decl_list(ws, m)
            ds = ",".join(f"{n}:{i}" for n, i in decls) or "-"
            for (d, sx) in m.funcs:
                mreqs.append(f"scope\t{ds}\t{sx}")
                mmeta.append((ws, m, table))
    mo, mrc = common.run_lines(common.DRIVER_BIN, mreqs)
    if len(mo) != len(mreqs):
        raise Broken("Lean driver died", f"rc={mrc} on scope requests")
    model = {}      # (ws id, occ id) -> (answer, names)
    for (ws, m, table), line in zip(mmeta, mo):
        if line in ("-", "bad-op"):
            if line == "bad-op":
                res.add_broken("Lean driver rejected a scope term", line)
            continue
        for part in line.split(" "):
            mm = re.match(r"(\d+)=([^\[]*)\[(.*)\]$", part)
            if not mm:
                continue
            names = {}
            if mm.group(3):
                for kv in mm.group(3).split(","):
                    k, v = kv.split("=")
                    names[k] = v
            model[(id(ws), int(mm.group(1)))] = (mm.group(2), names, table)
    res.cov["evaluations"] += sum(len(q) for _, q in batches) + len(mreqs)
    dist = {}
    distinct = 0
    samples = []
    for (ws, occs, vocc), ans in zip(metas, answers):
        binders_by_pos = {(b.file, b.offset): b for b in ws.binders}
        for o, a in zip(occs, ans[:len(occs)]):
            dist[o.ns] = dist.get(o.ns, 0) + 1
            if a.startswith("PANIC"):
                continue        # panics are C10's subject
            got = parse_target(a)
            exp = expected_target(o)
            shadowed = o.visible is not None and sum(1 for b in ws.binders if b.name == o.name) >= 2
            if shadowed:
                distinct += 1
            gotpos = None if got is None else (got[0], got[1])
            # the focus range may be wider than the name token (`..rest`, a whole variant): the declaration
            # reached is the one whose name lies inside the focus range (range precision is C20's subject)
            if got is not None and exp not in (None, "other") and got[0] == exp[0] and got[1] <= exp[1] < got[2]:
                gotpos = exp
            if exp != "other" and gotpos != exp:
                key = classify_c05(o, got, exp, ws)
                res.add_violation(key, f"go-to-definition from `{o.name}` ({o.ns}) lands on {gotpos}, Gleam binds it to {exp}",
                                  replay_ws(ws, o, a, exp))
            # model tie for value occurrences inside function bodies
            mk = model.get((id(ws), o.id))
            if mk is not None and o.ns == "value" and o.stream == "core" and not a.startswith("PANIC"):
                ans_m, names, table = mk
                if ans_m.startswith("L"):
                    pid = int(ans_m[1:])
                    b = next(b for b in ws.binders if b.pid == pid)
                    mpos = (b.file, b.offset)
                elif ans_m.startswith("M"):
                    d = table[int(ans_m[1:])]
                    mpos = (d.file, d.offset)
                else:
                    mpos = None
                if mpos != gotpos:
                    res.disagreements.append((f"ws seed {o.id} `{o.name}` at file {o.file} offset {o.offset}", a, ans_m))
            if len(samples) < 4 and o.ns == "value" and shadowed:
                samples.append({"file": ws.files[o.file][1][:300], "occurrence": o.name, "offset": o.offset, "impl": a,
                                "expected": exp, "model": mk[0] if mk else None})
        if want_c18:
            for o, a in zip(vocc, ans[len(occs):]):
                check_completion(res, ws, o, a, model.get((id(ws), o.id)))
    res.cov["distinct_nontrivial"] = distinct
    res.cov["occurrence_distribution"] = dist
    res.cov["samples"] += samples
    res.cov["rule"] = (f"{n_ws} generated workspaces of 1-3 modules (tools/gen_scope.py): names from pools of 3-4 per namespace, shuffled "
                       "top-level items, let/use/case/lambda/block binders, tuple/list/spread/constructor/as patterns, unqualified and aliased "
                       "imports, qualified uses, type annotations; go-to-definition asked at every identifier occurrence; the binding recorded "
                       "at emission is the oracle. non-trivial = value occurrence whose name has at least two binders in the workspace")


def clash_known(ws, d):
    """the recorded value/type import clash: the exporting module declares a type named like the imported value
    whose declaration is inserted AFTER it (functions and constants always precede types; a constructor precedes
    every type that comes after its own type in source order)"""
    m = ws.modules[d.module]
    order = [t for t in getattr(m, "render_order", []) if t.kind == "type"]
    clash = [t for t in order if t.name == d.name]
    if not clash:
        return False
    if d.kind in ("fn", "const"):
        return True
    if d.kind == "variant" and d.parent in order:
        return any(order.index(t) > order.index(d.parent) for t in clash)
    return False


def classify_c05(o, got, exp, ws=None):
    if ws is not None and o.expect and o.expect[0] == "M" and o.ns in ("value", "constructor", "pattern-constructor", "import-value"):
        d = o.expect[1]
        if d.module != o.file and clash_known(ws, d):
            return "C05/import-value-type-clash"
    if o.stream == "guard":
        return "C05/guard-not-lowered"
    if o.stream == "let-wild":
        return "C05/let-wild-initialiser"
    if o.ns == "qualified-value" and o.expect and o.expect[0] == "M" and o.expect[1].kind == "const" and got is None:
        return "C05/qualified-constant"
    if got is None:
        return f"C05/no-target/{o.ns}"
    return f"C05/wrong-target/{o.ns}"


def replay_ws(ws, o, answer, exp):
    return {"files": [{"path": p, "text": t} for p, t in ws.files], "query": f"goto\t{o.file}\t{o.offset}",
            "name": o.name, "namespace": o.ns, "impl": answer, "expected": exp}


def check_completion(res, ws, o, a, mk):
    if a.startswith("PANIC"):
        return
    m = ws.modules[o.file]
    labels = {}
    if a not in ("none", "empty"):
        for it in a.split(";"):
            lab, kind, rng, rep = it.split("|")
            if kind in ("Keyword",):
                continue
            labels.setdefault(lab, []).append((kind, rng))
    exp = set(o.visible)
    # accessors of imported modules are offered too
    acc = {(alias or ws.modules[ti].name) for (ti, alias, unq) in m.imports}
    want = exp | acc
    got = set(labels)
    if got != want:
        missing, extra = sorted(want - got), sorted(got - want)
        aliased = {(al or name): d.name for (ti, alias, unq) in m.imports for (name, al, is_type, d) in unq
                   if not is_type and al and d.kind in ("fn", "variant")}
        clash = {(al or name) for (ti, alias, unq) in m.imports for (name, al, is_type, d) in unq
                 if not is_type and clash_known(ws, d)}
        causes = {}
        text_b = ws.files[o.file][1].encode("utf-8")
        # inside the operand of a prefix operator: `!name` or an argument of `!name(a, b)`
        line_b = text_b[text_b.rfind(b"\n", 0, o.offset) + 1:o.offset]
        bang = line_b.rfind(b"!")
        under_prefix = bang >= 0 and re.fullmatch(rb"[A-Za-z0-9_(), ]*", line_b[bang + 1:]) is not None
        for x in missing:
            k = ("C18/aliased-import-offered-under-original-name" if x in aliased else
                 "C18/import-value-type-clash" if x in clash else
                 ("C18/no-completions-under-prefix-operator" if (not got and under_prefix) else
                  "C18/empty-answer" if not got else "C18/missing-names"))
            causes.setdefault(k, []).append(x)
        for x in extra:
            k = "C18/aliased-import-offered-under-original-name" if x in aliased.values() else "C18/extra-names"
            causes.setdefault(k, []).append(x)
        for key, names in causes.items():
            res.add_violation(key, f"completion at `{o.name}` offers {sorted(got)}; visible: {sorted(want)} (affected: {names})",
                              {"files": [{"path": p, "text": t} for p, t in ws.files], "query": f"complete\t{o.file}\t{o.offset}\t-",
                               "impl": a[:600], "expected": sorted(want)})
    # replacement range = the identifier being typed
    for lab, lst in labels.items():
        for kind, rng in lst:
            if rng != f"{o.offset}-{o.offset + len(o.name.encode())}":
                res.add_violation("C18/source-range", f"completion `{lab}` replaces {rng}, the identifier is {o.offset}-{o.offset + len(o.name)}",
                                  {"files": [{"path": p, "text": t} for p, t in ws.files], "query": f"complete\t{o.file}\t{o.offset}\t-", "impl": a[:300]})
                break
    # model tie: `values_names_in_scope` is keyed by the LOCAL name; completion renders each entry with the
    # definition's own name (render.rs) - predict the labels from the model's (name -> definition) map
    if mk is not None and got:
        predicted = set()
        for n, dref in mk[1].items():
            if dref.startswith("M") and mk[2][int(dref[1:])].kind in ("fn", "variant"):
                # render_fn / render_variant use the definition's own name; constants keep the table key
                predicted.add(mk[2][int(dref[1:])].name)
            else:
                predicted.add(n)
        if predicted != got - acc:
            res.disagreements.append((f"complete `{o.name}` at file {o.file} offset {o.offset}", sorted(got - acc), sorted(predicted)))


PROOF_MODULES = {"C05": ["Glas.Props.C05"], "C18": ["Glas.Props.C18", "Glas.Props.C18Dot"]}


def run_dot_completion(res, tier, seed):
    """after `value.` the fields offered are the accessors of the value's type: the labels every constructor has
    with the same type (oracle only; record types with 1-3 constructors, shared / partial / differently typed labels,
    generic parameters, values from parameters, let bindings and across modules)"""
    import random as _r
    rng = _r.Random(seed * 31 + 18)
    labels = ["size", "name", "id", "tag", "item", "next_one"]
    tys = ["Int", "Float", "String", "Bool", "List(Int)", "a"]
    batches, plans, mreqs = [], [], []
    for k in range(60 if tier == "quick" else 1500):
        ncons = rng.randrange(1, 4)
        generic = rng.random() < 0.4
        cons = []
        for c in range(ncons):
            fs = {}
            for l in rng.sample(labels, rng.randrange(1, 5)):
                t = rng.choice(tys if generic else tys[:5])
                fs[l] = t
            cons.append(fs)
        # make sharing likely: copy some fields of the first constructor into the others
        for fs in cons[1:]:
            for l, t in cons[0].items():
                if rng.random() < 0.6:
                    fs[l] = t if rng.random() < 0.7 else rng.choice(tys[:5])
        # a constructor without any labelled field (written without parentheses, with empty ones, or with positional fields only):
        # the type then has no accessor at all
        bare = {}
        for i in range(ncons):
            if rng.random() < (0.3 if i else 0.1):
                cons[i] = {}
                bare[i] = rng.choice(["", "()", "(Int)", "(String, Int)"]) if i or True else ""
        common_fields = sorted(l for l, t in cons[0].items() if all(fs.get(l) == t for fs in cons[1:]))
        head = "pub type Rec" + ("(a)" if generic else "") + " {\n" + "".join(
            (f"  K{i}{bare[i]}\n" if i in bare else
             f"  K{i}(" + ", ".join(([f"{rng.choice(['Int', 'String'])}"] if rng.random() < 0.3 else []) + [f"{l}: {t}" for l, t in fs.items()]) + ")\n")
            for i, fs in enumerate(cons)) + "}\n"
        # unlabelled positional fields must come first in Gleam; they are no accessors
        ann = "Rec(Int)" if generic else "Rec"
        two = rng.random() < 0.4
        if two:
            m1 = head
            m2 = f"import m1\npub fn use_it(v: m1.{ann}) {{\n  let w = v\n  w.\n}}\n"
            files = [("/w/p/src/m1.gleam", m1), ("/w/p/src/m2.gleam", m2), ("/w/p/gleam.toml", 'name = "p"\n')]
            fi, text = 1, m2
        else:
            m1 = head + f"pub fn use_it(v: {ann}) {{\n  let w = v\n  w.\n}}\n"
            files = [("/w/p/src/m1.gleam", m1), ("/w/p/gleam.toml", 'name = "p"\n')]
            fi, text = 0, m1
        off = len(text[:text.index("  w.") + 4].encode())
        class W: pass
        ws = W(); ws.files = files
        batches.append((ws, [f"complete\t{fi}\t{off}\t."]))
        plans.append((files, common_fields, f"complete\t{fi}\t{off}\t."))
        mreqs.append("fields\t" + ";".join((",".join(f"{l}:{hexs(t)}" for l, t in fs.items()) or "-") for fs in cons))
    ans = run_workspaces(batches)
    mo, _ = common.run_lines(common.DRIVER_BIN, mreqs)
    res.cov["evaluations"] += len(batches)
    for (files, want, q), a, mline in zip(plans, ans, mo):
        line = a[0]
        if line.startswith("PANIC"):
            continue
        got = sorted(it.split("|")[0] for it in line.split(";") if "|Field|" in it) if line not in ("none", "empty") else []
        # the model of lower_custom_type (M-fields, theorem accessor_iff) must predict what the implementation offers
        if (",".join(got) or "empty") != mline:
            res.disagreements.append((q, ",".join(got) or "empty", mline))
        if got != want:
            res.add_violation("C18/dot-completion-fields", f"after `w.` the fields offered are {got}, the accessors of the type are {want}",
                              {"files": [{"path": p, "text": t} for p, t in files], "query": q, "impl": line[:300], "expected": want})


def run_module_dot_completion(res, tier, seed):
    """after `module.` exactly the module's public functions and the constructors of its public types are offered -
    whatever else the module declares under the same names (a private type whose constructor is called like a public
    type, a public type whose constructor is called like a private type, private functions, constants); the module may
    be imported under an alias or live some directories deep (oracle only)"""
    import random as _r
    rng = _r.Random(seed * 37 + 5)
    fnames = ["make", "size_of", "render", "to_list", "helper", "step"]
    tnames = ["Token", "Shape", "Internal", "Box", "Node", "Mode"]
    batches, plans, mreqs = [], [], []
    for k in range(60 if tier == "quick" else 1500):
        want = set()
        text = ""
        decls = []
        for f in rng.sample(fnames, rng.randrange(1, 5)):
            pub = rng.random() < 0.5
            text += ("pub " if pub else "") + f"fn {f}(" + rng.choice(["", "x", "x: Int, y"]) + ") { 1 }\n"
            decls.append(f"{f}:fn:{int(pub)}")
            if pub:
                want.add(f)
        for c in rng.sample(["limit", "default_mode", "zero"], rng.randrange(0, 3)):
            cpub = rng.random() < 0.5
            text += ("pub " if cpub else "") + f"const {c} = 1\n"
            decls.append(f"{c}:const:{int(cpub)}")
        types = rng.sample(tnames, rng.randrange(1, 5))
        used = set()
        for t in types:
            pub = rng.random() < 0.55
            cons = []
            for _ in range(rng.randrange(1, 4)):
                # a constructor may be called like its own type, like another (public or private) type of the module,
                # or have a name of its own; a name is declared as a constructor once
                c = rng.choice([t, rng.choice(types), rng.choice(types), t + "Of", "Mk" + t, rng.choice(["Leaf", "Dot", "Wide"])])
                if c in used:
                    continue
                used.add(c)
                cons.append(c)
            if not cons:
                continue
            text += ("pub " if pub else "") + f"type {t} {{\n" + "".join(
                f"  {c}" + rng.choice(["", "(Int)", "(size: Int, name: String)"]) + "\n" for c in cons) + "}\n"
            decls.append(f"{t}:adt:{int(pub)}")
            decls += [f"{c}:variant:{int(pub)}" for c in cons]
            if pub:
                want |= set(cons)
        mreqs.append("moddot\t" + (";".join(decls) or "-"))
        how = rng.randrange(3)
        if how == 0:
            lib_path, imp, q = "/w/p/src/lib.gleam", "import lib", "lib"
        elif how == 1:
            lib_path, imp, q = "/w/p/src/lib.gleam", "import lib as tool", "tool"
        else:
            lib_path, imp, q = "/w/p/src/kit/inner/lib.gleam", "import kit/inner/lib", "lib"
        # what stands BEFORE the accessor in the same block must not matter: references to constructors (plain enum members,
        # records, generic ones) of another module, qualified, imported unqualified or in a pattern - a module that has its own
        # idea of what the accessor's name means
        pre, extra_imp, extra_files = "", "", []
        if k % 2 == 1:
            other = "pub fn drop() { 1 }\npub fn pick() { 2 }\n"
            color = (f"import other as {q}\n\npub type Color {{\n  Red\n  Green\n}}\n\npub type Pt {{\n  Pt(x: Int)\n}}\n\npub type Opt(a) {{\n  Nope\n  Just(a)\n}}\n\n"
                     f"pub fn use_it() {{\n  {q}.drop()\n}}\n")
            extra_files = [("/w/p/src/other.gleam", other), ("/w/p/src/color.gleam", color)]
            extra_imp = "import color.{Green, Nope}\n"
            pre = rng.choice(["  let c = color.Red\n", "  let c = Green\n", "  let c = case color.Red {\n    color.Green -> 1\n    _ -> 2\n  }\n",
                              "  let c = color.Pt(1)\n", "  let c = Nope\n", "  let c = #(color.Red, color.Just(1))\n", "  let color.Red = color.Green\n"])
        main = f"{imp}\n{extra_imp}pub fn main() {{\n{pre}  {q}.\n}}\n"
        files = [(lib_path, text), ("/w/p/src/main.gleam", main)] + extra_files + [("/w/p/gleam.toml", 'name = "p"\n')]
        off = len(main[:main.index(f"  {q}.\n") + 3 + len(q)].encode())
        class W: pass
        ws = W(); ws.files = files
        qline = f"complete\t1\t{off}\t."
        batches.append((ws, [qline])); plans.append((files, sorted(want), qline))
    ans = run_workspaces(batches)
    res.cov["evaluations"] += len(batches)
    res.cov["module_dot_completions"] = len(batches)
    mo, _ = common.run_lines(common.DRIVER_BIN, mreqs)
    for (files, want, q), a, mline in zip(plans, ans, mo):
        line = a[0]
        if line.startswith("PANIC"):
            continue
        got = sorted({it.split("|")[0] for it in line.split(";") if "|Field|" not in it}) if line not in ("none", "empty") else []
        # the model of complete_dot (M-fields, theorem moduleDot_iff) must predict what the implementation offers
        if (",".join(got) or "empty") != mline:
            res.disagreements.append((q, ",".join(got) or "empty", mline))
        if got != want:
            extra, missing = sorted(set(got) - set(want)), sorted(set(want) - set(got))
            res.add_violation("C18/module-dot-completion",
                              f"after `module.` the items offered are {got}; the module's public functions and constructors of public types are {want} "
                              f"(not public: {extra}; missing: {missing})",
                              {"files": [{"path": p, "text": t} for p, t in files], "query": q, "impl": line[:400], "expected": want})


def run_prefix_completion(res, tier, seed):
    """the word being typed may spell a keyword (`use` on the way to `user`): the names in scope that extend it are
    still offered, and accepting one replaces exactly the typed word (oracle only)"""
    # (keywords that start a new top-level item - pub, type, import, const, if - end the function body for the parser:
    # what is in scope behind them is not defined by the text, they are left out)
    pairs = [("use", "user"), ("let", "letter"), ("fn", "fnord"), ("todo", "todo_list"), ("case", "case_x"),
             ("as", "asset"), ("panic", "panicky"), ("assert", "asserted"), ("opaque", "opaqueness"),
             ("us", "user"), ("le", "letter"), ("x", "xylo")]
    batches, plans = [], []
    for kw, name in pairs:
        for shape in ("param", "let", "fn"):
            if shape == "param":
                text = f"pub fn main({name}) {{\n  {kw}\n}}\n"
            elif shape == "let":
                text = f"pub fn main() {{\n  let {name} = 1\n  {kw}\n}}\n"
            else:
                text = f"pub fn {name}() {{\n  1\n}}\npub fn main() {{\n  {kw}\n}}\n"
            off = text.rindex("  " + kw + "\n") + 2 + len(kw)
            class W: pass
            ws = W(); ws.files = [("/w/p/src/m1.gleam", text), ("/w/p/gleam.toml", 'name = "p"\n')]
            q = f"complete\t0\t{off}\t-"
            batches.append((ws, [q])); plans.append((ws.files, kw, name, off, q))
    ans = run_workspaces(batches)
    res.cov["evaluations"] += len(batches)
    for (files, kw, name, off, q), a in zip(plans, ans):
        line = a[0]
        if line.startswith("PANIC"):
            continue
        items = [it.split("|") for it in line.split(";")] if line not in ("none", "empty") else []
        mine = [it for it in items if it[0] == name]
        rp = {"files": [{"path": p, "text": t} for p, t in files], "query": q, "impl": line[:300], "expected": f"{name} replacing {off - len(kw)}-{off}"}
        if not mine:
            is_let = "let " + name in files[0][1]
            key = "C18/let-binder-not-offered-behind-keyword-prefix" if is_let else "C18/prefix-name-not-offered"
            res.add_violation(key, f"typing `{kw}` with `{name}` in scope: `{name}` is not offered", rp)
        elif mine[0][2] != f"{off - len(kw)}-{off}":
            res.add_violation("C18/prefix-replacement-range", f"typing `{kw}`: accepting `{name}` replaces {mine[0][2]}, the typed word is {off - len(kw)}-{off}", rp)


def run(prop, res, tier, seed):
    res.assumptions += [
        "pattern/expression forms that scope.rs treats identically are collapsed in the model (Pat.node, Expr.node)",
        "salsa, parsing and lowering are exercised through the real Analysis API; only ExprScopes/Resolver are modelled",
    ]
    try:
        res.extra.update(common.prove(prop, PROOF_MODULES[prop]))
    except Broken as b:
        res.add_broken(b.what, b.detail)
        if not os.path.exists(common.DRIVER_BIN):
            return
    replay_known(res, prop)
    if prop == "C05":
        # occurrences known by construction (records across modules, modules several path segments deep): each leads to its declaration
        import p_refs
        grng = random.Random(seed * 5 + 3)
        p_refs.run_expected_groups(res, "C05", [p_refs.record_workspace(grng) for _ in range(6 if tier == "quick" else 60)] +
                                   [p_refs.deep_module_workspace(grng) for _ in range(8 if tier == "quick" else 80)] +
                                   [p_refs.variant_label_workspace(grng) for _ in range(4 if tier == "quick" else 40)] +
                                   [p_refs.accessor_clash_workspace(grng) for _ in range(3 if tier == "quick" else 30)] +
                                   [p_refs.namespace_clash_workspace(grng) for _ in range(4 if tier == "quick" else 30)] +
                                   [p_refs.local_like_module_workspace(grng) for _ in range(3 if tier == "quick" else 30)])
    run_c05(res, tier, seed, want_c18=(prop == "C18"))
    if prop == "C18":
        run_dot_completion(res, tier, seed)
        run_module_dot_completion(res, tier, seed)
        run_prefix_completion(res, tier, seed)
        # C18 only reports completion findings
        res.violations = [v for v in res.violations if v[0].startswith("C18/")]
    else:
        res.violations = [v for v in res.violations if v[0].startswith("C05/")]
    if res.disagreements:
        rq, a, b = res.disagreements[0]
        res.add_broken("correspondence model-vs-implementation (M-scope vs go-to-definition/completion)",
                       f"{len(res.disagreements)} disagreeing cases; first: {rq} impl={a!r} model={b!r}")


class FilesOnly:
    """a workspace given by its files alone (a recorded example)"""
    def __init__(self, files):
        self.files = [(f["path"], f["text"]) for f in files]


def replay_known(res, prop):
    """The recorded findings' own inputs are replayed on every run, before anything is generated: a finding whose
    example still fails is printed as KNOWN-FINDING whatever the seed; one that stops failing is not."""
    todo = []
    for f in common.known_findings().get("findings", []):
        ex = (f.get("example") or {}).get("input")
        if f.get("property") == prop and isinstance(ex, dict) and "files" in ex and "query" in ex and "expected" in ex:
            if ex["query"].split("\t")[0] in ("goto", "complete"):
                todo.append((f, ex))
    if not todo:
        return
    answers = run_workspaces([(FilesOnly(ex["files"]), [ex["query"]]) for _, ex in todo])
    res.cov["evaluations"] += len(todo)
    for (f, ex), ans in zip(todo, answers):
        a = ans[0]
        kind = ex["query"].split("\t")[0]
        if kind == "goto":
            t = parse_target(a)
            got = None if t is None else [t[0], t[1]]
            exp = None if ex["expected"] is None else list(ex["expected"])[:2]
            if got != exp:
                res.add_violation(f["key"], f"recorded example: go-to-definition lands on {got}, Gleam binds the name to {exp}", dict(ex, impl=a[:300]))
        else:
            got = set()
            if a not in ("none", "empty") and not a.startswith("PANIC"):
                for it in a.split(";"):
                    parts = it.split("|")
                    if len(parts) >= 2 and parts[1] != "Keyword":
                        got.add(parts[0])
            if got != set(ex["expected"]):
                res.add_violation(f["key"], f"recorded example: completion offers {sorted(got)}; visible: {sorted(ex['expected'])}", dict(ex, impl=a[:300]))


def replay(prop, path):
    r = json.load(open(path))
    rp = r.get("replay", {})
    if "files" not in rp:
        print(json.dumps(r, indent=1)[:3000])
        return 0
    common.build_harness()
    lines = ["ws-begin"] + [f"file\t{f['path']}\t{hexs(f['text'])}" for f in rp["files"]]
    lines.append(f"root\t/w/p\t{','.join(str(i) for i in range(len(rp['files'])))}")
    lines.append(f"pkg\tp\t{len(rp['files']) - 1}\t1\t-")
    lines += ["ws-end", rp["query"]]
    out, _ = common.run_lines(common.HARNESS_BIN, lines)
    print("query   :", rp["query"])
    print("impl    :", out[-1] if out else "<died>")
    print("expected:", rp.get("expected"))
    return 0
