#!/bin/bash
# usage: seedin.sh <round> <ID> <prop>... : store the deliverables of /root/scratch/wt<round>-<ID> under seeded/<ID>-<round> and run the checks on the patch
r=$1; id=$2; shift 2
d=/root/scratch/wt$r-$id/seeded/$id-$r
t=/verif/seeded/$id-$r
mkdir -p $t
cp $d/patch.diff $d/meta.json $t/ || exit 1
[ -d $d/demo ] && cp -r $d/demo $t/ && rm -rf $t/demo/target
for f in $d/*.py $d/*.sh $d/*.gleam; do [ -f "$f" ] && cp "$f" $t/; done
echo "== $id-$r"
/verif/tools/seedtest.sh $t/patch.diff "$@" 2>&1 | grep -E "VIOLATION|patch does not|uncommitted|^\[" | cut -c1-130
