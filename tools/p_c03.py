"""C03: a syntax error inside one definition does not disturb the others (oracle on the implementation,
differential of the generated parser model on the same damaged files)."""
import random, re
import common, gen_gleam, p_syntax
from common import hexs, Broken

NON_OPENING = ["x", "X", "_x", "1", "1.5", '"s"', ")", "]", ">>", ",", ":", ".", "..", "->", "<-", "=", "|", "|>", "@", "/",
               "||", "&&", "==", "<", "<>", "+", "*", "-", "!", "as", "assert", "case", "const", "external", "fn", "if", "import",
               "let", "opaque", "panic", "pub", "todo", "type", "use", "xY", "é", "$", "&"]
BRACES = {"{", "}"}
STARTERS = ["x", "X", "_x", "1", '"s"', "-", "..", "!"]


def build_file(rng, n_items):
    g = gen_gleam.Gen(rng, max_depth=3)
    items = []
    while len(items) < n_items:
        it = g.item()
        items.append(it)
    return items


def damage(rng, toks, k):
    """k token edits strictly inside the outer braces of the victim; braces stay balanced, no opener introduced"""
    lo = toks.index("{") + 1
    hi = len(toks) - 1 - toks[::-1].index("}")
    toks = list(toks)
    log = []
    for _ in range(k):
        op = rng.randrange(3)
        if hi <= lo:
            op = 0
        if op == 0:
            i = rng.randrange(lo, hi + 1)
            t = rng.choice(NON_OPENING)
            toks.insert(i, t)
            hi += 1
            log.append(f"insert {t!r} at {i}")
        elif op == 1:
            cand = [i for i in range(lo, hi) if toks[i] not in BRACES]
            if not cand:
                continue
            i = rng.choice(cand)
            log.append(f"delete {toks[i]!r} at {i}")
            del toks[i]
            hi -= 1
        else:
            cand = [i for i in range(lo, hi) if toks[i] not in BRACES]
            if not cand:
                continue
            i = rng.choice(cand)
            t = rng.choice(NON_OPENING)
            log.append(f"replace {toks[i]!r} by {t!r} at {i}")
            toks[i] = t
    return toks, log


def render_tokens(toks):
    return " ".join(toks)


def run_c03(res, tier, seed):
    rng = random.Random(seed)
    n_files = 250 if tier == "quick" else 4000
    per_file = 6 if tier == "quick" else 12
    kmax = 1 if tier == "quick" else 3
    sys_budget = 45000 if tier == "quick" else 400000
    cases = []
    for _ in range(n_files):
        items = build_file(rng, rng.randrange(2, 5))
        texts = [render_tokens(gen_gleam.tokens(it)) for it in items]
        victims = [i for i, it in enumerate(items) if it[1] in ("FUNCTION", "ADT")]
        if not victims:
            continue
        for _ in range(per_file):
            v = rng.choice(victims)
            vt, log = damage(rng, gen_gleam.tokens(items[v]), rng.randrange(1, kmax + 1))
            new_texts = list(texts)
            new_texts[v] = render_tokens(vt)
            cases.append((items, texts, new_texts, v, log))
        # systematic single edits on one victim: delete every non-brace token of the body, and replace / insert a
        # representative of a few non-opening classes at every position
        if len(cases) < sys_budget:
            v = rng.choice(victims)
            toks = gen_gleam.tokens(items[v])
            lo = toks.index("{") + 1
            hi = len(toks) - 1 - toks[::-1].index("}")
            for i in range(lo, hi):
                if toks[i] in BRACES:
                    continue
                edits = [(toks[:i] + toks[i + 1:], f"delete {toks[i]!r} at {i}")]
                for t in rng.sample(NON_OPENING, 2):
                    edits.append((toks[:i] + [t] + toks[i + 1:], f"replace {toks[i]!r} by {t!r} at {i}"))
                    edits.append((toks[:i] + [t] + toks[i:], f"insert {t!r} at {i}"))
                # every token class that can START a pattern or an expression, inserted at every position (a stray operand
                # next to `case x`, `let`, a call ... must not let an inner construct take a closer it never opened)
                for t in STARTERS:
                    edits.append((toks[:i] + [t] + toks[i:], f"insert {t!r} at {i}"))
                for vt, lg in edits:
                    new_texts = list(texts)
                    new_texts[v] = render_tokens(vt)
                    cases.append((items, texts, new_texts, v, [lg]))
    # long victims: one early edit in a body of 18-150 statements (or a type of as many variants) makes the parser report
    # hundreds of errors inside the victim - the definitions behind it must still stand
    for _ in range(40 if tier == "quick" else 600):
        n = rng.choice([18, 25, 40, 80, 150])
        if rng.random() < 0.7:
            body = []
            for i in range(n):
                body += ["let", f"v{i}", "=", (f"v{i - 1}" if i else "x")]
            toks = ["pub", "fn", "big", "(", "x", ")", "{"] + body + [f"v{n - 1}", "}"]
            victim = ("N", "FUNCTION", [("T", t) for t in toks])
        else:
            toks = ["pub", "type", "Big", "{"]
            for i in range(n):
                toks += [f"V{i}", "(", "a", ":", "Int", ",", "Int", ")"]
            toks += ["}"]
            victim = ("N", "ADT", [("T", t) for t in toks])
        others = build_file(rng, rng.randrange(2, 5))
        k = rng.randrange(0, len(others))
        items = others[:k] + [victim] + others[k:]
        texts = [render_tokens(gen_gleam.tokens(it)) for it in items]
        lo = toks.index("{") + 1
        i = lo + rng.randrange(0, 9)
        t = rng.choice(["type", "const", "import", "pub", "if", "fn", ")", "]", "->", "=", "opaque", "use", "é"])
        op = rng.randrange(3)
        if op == 0 or toks[i] in BRACES:
            vt, lg = toks[:i] + [t] + toks[i:], f"insert {t!r} at {i}"
        elif op == 1:
            vt, lg = toks[:i] + toks[i + 1:], f"delete {toks[i]!r} at {i}"
        else:
            vt, lg = toks[:i] + [t] + toks[i + 1:], f"replace {toks[i]!r} by {t!r} at {i}"
        new_texts = list(texts)
        new_texts[k] = render_tokens(vt)
        cases.append((items, texts, new_texts, k, [lg, f"long victim ({n} statements/variants)"]))
    # calls whose last argument is a brace construct that ends in a call (lambda, block, case): every single deletion of a
    # non-brace token - a missing `)` puts the `}` of the inner construct in front of the outer call's `)`
    NESTED = [
        "pub fn nest ( xs ) { map ( xs , fn ( x ) { twice ( x ) } ) }",
        "pub fn nest ( a ) { scale ( { let b = a half ( b ) } ) }",
        "pub fn nest ( n ) { show ( case n { 0 -> zero ( ) _ -> other ( n ) } ) }",
        "pub fn nest ( xs ) { xs |> each ( fn ( x ) { io . debug ( x ) } ) }",
        "pub fn nest ( r ) { use v <- try ( parse ( r ) ) wrap ( fn ( ) { done ( v ) } ) }",
    ]
    for _ in range(6 if tier == "quick" else 60):
        toks = rng.choice(NESTED).split(" ")
        victim = ("N", "FUNCTION", [("T", t) for t in toks])
        others = build_file(rng, rng.randrange(2, 5))
        k = rng.randrange(0, len(others))
        items = others[:k] + [victim] + others[k:]
        texts = [render_tokens(gen_gleam.tokens(it)) for it in items]
        lo = toks.index("{") + 1
        hi = len(toks) - 1
        for i in range(lo, hi):
            if toks[i] in BRACES:
                continue
            new_texts = list(texts)
            new_texts[k] = render_tokens(toks[:i] + toks[i + 1:])
            cases.append((items, texts, new_texts, k, [f"delete {toks[i]!r} at {i}", "call ending a brace construct that is the last argument of a call"]))
    # a deeply (but properly) nested definition stands behind the victim: whatever the damage leaves behind in the parser
    # (a counter, a flag, a mode) must not reach it.  Depths just below powers of two.
    for _ in range(10 if tier == "quick" else 120):
        d = rng.choice([30, 31, 62, 63, 126, 127])
        o, c = rng.choice([(["["], ["]"]), (["#", "("], [")"]), (["f", "("], [")"]), (["{"], ["}"]), (["fn", "(", ")", "{"], ["}"])])
        deep = ("N", "FUNCTION", [("T", t) for t in ["pub", "fn", "deep", "(", ")", "{"] + o * d + ["1"] + c * d + ["}"]])
        others = build_file(rng, rng.randrange(2, 4))
        fvs = [i for i, it in enumerate(others) if it[1] == "FUNCTION"]
        if not fvs:
            continue
        k = rng.choice(fvs)
        items = others + [deep]
        texts = [render_tokens(gen_gleam.tokens(it)) for it in items]
        toks = gen_gleam.tokens(items[k])
        lo = toks.index("{") + 1
        hi = len(toks) - 1 - toks[::-1].index("}")
        for i in list(range(lo, min(hi, lo + 12))) + [hi]:
            for t in ["!", "-", "as", ":", ",", "todo", "..", "|>", "+"]:
                new_texts = list(texts)
                new_texts[k] = render_tokens(toks[:i] + [t] + toks[i:])
                cases.append((items, texts, new_texts, k, [f"insert {t!r} at {i}", f"a definition nested {d} deep stands behind the victim"]))
            if i < hi and toks[i] not in BRACES:
                new_texts = list(texts)
                new_texts[k] = render_tokens(toks[:i] + toks[i + 1:])
                cases.append((items, texts, new_texts, k, [f"delete {toks[i]!r} at {i}", f"a definition nested {d} deep stands behind the victim"]))
    # the victim is nested just below a round number (where a nesting limit would sit) and the damage adds one or two levels; the definition
    # behind it begins with an attribute, `opaque`, or `pub` (whatever gives up on the victim must stop at the victim's end)
    for lim in ((64, 256, 1024) if tier == "quick" else (32, 64, 100, 128, 200, 256, 500, 512, 1000, 1024, 2048)):
        for (o, c) in [(["!"], []), (["-"], []), (["["], ["]"]), (["#", "("], [")"]), (["{"], ["}"])]:
            for below in (1, 2):
                d = lim - below
                vic = ("N", "FUNCTION", [("T", t) for t in ["pub", "fn", "deepv", "(", "v", ")", "{"] + o * d + ["v"] + c * d + ["}"]])
                nxt_toks = rng.choice([["@", "external", "(", "erlang", ",", '"m"', ",", '"f"', ")", "pub", "fn", "after", "(", ")", "{", "1", "}"],
                                       ["@", "target", "(", "erlang", ")", "fn", "after", "(", ")", "{", "1", "}"],
                                       ["pub", "fn", "after", "(", ")", "{", "1", "}"]])
                nxt = ("N", "FUNCTION", [("T", t) for t in nxt_toks])
                before = build_file(rng, 1)
                items = before + [vic, nxt]
                k = len(before)
                texts = [render_tokens(gen_gleam.tokens(it)) for it in items]
                toks = gen_gleam.tokens(items[k])
                lo = toks.index("{") + 1
                hi = len(toks) - 1          # the closing brace of the body
                for extra in (1, 2):
                    # (balanced: a level is added with its opener AND its closer - an unclosed opener legitimately takes what follows)
                    new_texts = list(texts)
                    new_texts[k] = render_tokens(toks[:lo] + o * extra + toks[lo:hi] + c * extra + toks[hi:])
                    cases.append((items, texts, new_texts, k, [f"insert {extra} level(s) {' '.join(o)!r} .. {' '.join(c)!r}", f"the victim is nested {d} deep, the next definition begins with {nxt_toks[0]!r}"]))
    # the recorded findings' own inputs, replayed on every run (a finding that stops failing stops being printed)
    for f in common.known_findings().get("findings", []):
        ex = (f.get("example") or {}).get("input") or {}
        if f.get("property") == "C03" and isinstance(ex, dict) and "original" in ex and "text_hex" in ex and "victim" in ex:
            otexts = ex["original"].split("\n")
            ntexts = common.unhexs(ex["text_hex"]).split("\n")
            if len(otexts) == len(ntexts) and 0 <= ex["victim"] < len(otexts) and len(ex["original"]) < 1490:
                cases.append((None, otexts, ntexts, ex["victim"], ["replay of the recorded example of " + f["key"]] + list(ex.get("damage", []))))
    reqs = []
    for (items, texts, new_texts, v, log) in cases:
        reqs.append("defs\t" + hexs("\n".join(texts)))
        reqs.append("defs\t" + hexs("\n".join(new_texts)))
    out, rc = common.run_lines(common.HARNESS_BIN, reqs)
    if len(out) != len(reqs):
        raise Broken("implementation harness died", "during the C03 definitions oracle")
    res.cov["evaluations"] += len(reqs)
    follow = []
    distinct = set()
    stats = {"damaged_files": 0, "victim_function": 0, "victim_type": 0, "contained": 0}
    for idx, (items, texts, new_texts, v, log) in enumerate(cases):
        a0, a1 = out[2 * idx], out[2 * idx + 1]
        if a0.startswith("PANIC") or a1.startswith("PANIC"):
            continue        # C02's subject
        if items is None:
            # a replayed example: the kinds of its definitions are those the intact file parses to
            kinds0 = [nd.split(":")[0] for nd in a0.partition(" | ")[0].split(";") if nd]
            if len(kinds0) != len(texts):
                continue
            items = [("N", k, []) for k in kinds0]
            cases[idx] = (items, texts, new_texts, v, log)
        stats["damaged_files"] += 1
        stats["victim_function" if items[v][1] == "FUNCTION" else "victim_type"] += 1
        # expected ranges of the untouched items in the damaged file
        offs, o = [], 0
        for t in new_texts:
            b = len(t.encode())
            offs.append((o, o + b))
            o += b + 1
        nodes = []
        head, _, errs = a1.partition(" | ")
        for nd in head.split(";"):
            if nd:
                k, rg = nd.split(":")
                s, e = rg.split("-")
                nodes.append((k, int(s), int(e)))
        want = [(items[i][1], offs[i][0], offs[i][1]) for i in range(len(items)) if i != v]
        got_others = [n for n in nodes if not (offs[v][0] <= n[1] and n[2] <= offs[v][1])]
        err_ranges = []
        for e in errs.split(";"):
            if e:
                s, t = e.split("-")
                err_ranges.append((int(s), int(t)))
        bad = None
        if got_others != want:
            bad = f"other definitions changed: expected {want}, top-level nodes outside the victim: {got_others}"
        else:
            outside = [r for r in err_ranges if not (offs[v][0] <= r[0] and r[1] <= offs[v][1])]
            if outside:
                bad = f"syntax errors reported outside the damaged definition {offs[v]}: {outside}"
        if len(items) - 1 >= 1 and v < len(items) - 1:
            distinct.add("\n".join(new_texts))
        if bad is None:
            stats["contained"] += 1
        else:
            follow.append((idx, bad, offs))
    # the item-wise view of the module loop (Lean `Items.parseItems`: every item parsed from a fresh state - the subject of
    # item_suffix_local, item_prefix_det and C03_conditional) against the implementation's top-level nodes, on damaged and
    # undamaged files: same number of items, each from the same first to the same last token
    tie_texts = []
    for idx in range(0, len(cases), max(1, len(cases) // (400 if tier == "quick" else 6000))):
        items, texts, new_texts, v, log = cases[idx]
        tie_texts.append("\n".join(new_texts))
        if idx % 3 == 0:
            tie_texts.append("\n".join(texts))
    tk, _ = common.run_lines(common.DRIVER_BIN, ["trivia-kinds"])
    trivia = set(int(x) for x in tk[0].split()) if tk and tk[0] and tk[0] != "bad-op" else None
    if trivia is not None:
        mo, _ = common.run_lines(common.DRIVER_BIN, ["items\t" + hexs(t) for t in tie_texts])
        io, _ = common.run_lines(common.HARNESS_BIN, ["parse\t" + hexs(t) for t in tie_texts])
        res.cov["evaluations"] += len(tie_texts)
        res.cov["item_view_tie"] = len(tie_texts)
        for t, m, a in zip(tie_texts, mo, io):
            if not a.startswith("ok (") or m == "none":
                if a.startswith("ok (") and m == "none":
                    res.disagreements.append(("items\t" + hexs(t), "parses", "the item-wise loop fails"))
                continue
            tree = a[3:].split(" | ")[0]
            # top-level children of the root: byte range from the first to the last non-trivia token of each node
            depth, off, cur, got = 0, 0, None, []
            for tokn in tree.replace("(", " ( ").replace(")", " ) ").split():
                if tokn == "(":
                    depth += 1
                    if depth == 2:
                        cur = [None, None]
                elif tokn == ")":
                    if depth == 2 and cur is not None:
                        if cur[0] is not None:
                            got.append(f"{cur[0]}-{cur[1]}")
                        cur = None
                    depth -= 1
                elif ":" in tokn:
                    k, ln = tokn.split(":")
                    if depth >= 2 and cur is not None and int(k) not in trivia:
                        if cur[0] is None:
                            cur[0] = off
                        cur[1] = off + int(ln)
                    off += int(ln)
            want_m = m.split()[1:]
            if got != want_m:
                res.disagreements.append(("items\t" + hexs(t), " ".join(got), " ".join(want_m)))
    # classify each failure by where the victim's closing brace and the next definition's first token ended up
    areqs = []
    for (idx, bad, offs) in follow:
        items, texts, new_texts, v, log = cases[idx]
        text = "\n".join(new_texts)
        areqs.append(f"ancestors\t{hexs(text)}\t{offs[v][1] - 1}")
        nxt = offs[v + 1][0] if v + 1 < len(offs) else offs[v][1]
        areqs.append(f"ancestors\t{hexs(text)}\t{nxt}")
    # the cause rather than the consequence: the first `}` of the victim that some construct took without having opened it
    sreqs = []
    for (idx, bad, offs) in follow:
        items, texts, new_texts, v, log = cases[idx]
        sreqs.append(f"swallowed\t{hexs(chr(10).join(new_texts))}\t{offs[v][0]}\t{offs[v][1] - 1}")
    sout, _ = common.run_lines(common.HARNESS_BIN, sreqs) if sreqs else ([], 0)
    aout, _ = common.run_lines(common.HARNESS_BIN, areqs) if areqs else ([], 0)
    for j, (idx, bad, offs) in enumerate(follow):
        items, texts, new_texts, v, log = cases[idx]
        # (`~` = the node has no `{` of its own: for the brace-delimited kinds that is a different cause than the recorded ones)
        def clean(path):
            out = []
            for k in path.split("/"):
                base = k.rstrip("~")
                if base == "ERROR":
                    continue
                out.append(base + ("-without-own-opener" if k.endswith("~") and base in ("CASE", "BLOCK", "ADT") else ""))
            return out
        brace = clean(aout[2 * j].split(" ")[-1])
        nxt = clean(aout[2 * j + 1].split(" ")[-1])
        # site = the construct that swallowed the victim's closing brace (first non-ERROR ancestor), or, when the
        # brace still closes the victim, the construct that swallowed the first token of the next definition
        proper = brace[:2] in (["BLOCK", "FUNCTION"], ["ADT", "SOURCE_FILE"])
        key = f"C03/next-definition-in/{nxt[0] if nxt else 'none'}" if proper else f"C03/closing-brace-in/{brace[0] if brace else 'none'}"
        inner = sout[j].split(" ")[0] if j < len(sout) else "none"
        if inner not in ("none", "") and not proper:
            # an inner `}` was taken by a construct that never opened it: that construct is the site
            key = f"C03/closing-brace-in/{inner}"
        res.add_violation(key, bad[:500], {"text_hex": hexs("\n".join(new_texts)), "text": "\n".join(new_texts)[:1500],
                                           "original": "\n".join(texts)[:1500], "victim": v, "damage": log,
                                           "closing_brace_ancestors": aout[2 * j], "next_definition_ancestors": aout[2 * j + 1]})
    # model tie: the generated parser model agrees with parse_module on the damaged files
    preqs = ["parse\t" + hexs("\n".join(c[2])) for c in cases[: (600 if tier == "quick" else 8000)] + cases[-(40 if tier == "quick" else 600):]]
    io, mo = common.run_both_chunked(preqs)
    res.cov["evaluations"] += len(preqs)
    for rq, a, b in zip(preqs, io, mo):
        if p_syntax.canon_panic(a) != b:
            res.disagreements.append((rq, a, b))
    res.cov["distinct_nontrivial"] = len(distinct)
    res.cov["containment_statistics"] = stats
    res.cov["rule"] = (f"{n_files} files of 2-4 well-formed top-level definitions from the reference grammar x {per_file} damages of a victim "
                       f"function or custom type: up to {kmax} token edits (insert / delete / replace) strictly inside its outer braces, drawn from "
                       "the non-opening classes (keywords incl. fn/pub/type/const/import, identifiers, literals, operators, closers, separators, "
                       "lexer-error characters), braces kept balanced; every other definition must keep its kind and exact range, every "
                       "syntax error must lie inside the victim. non-trivial = victim followed by at least one definition")
    res.cov["samples"] += [{"damage": c[4], "text": "\n".join(c[2])[:300]} for c in cases[:3]]
