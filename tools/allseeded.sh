#!/bin/bash
# re-run every seeded change against its own property's check; summary per change
cd /verif/seeded
for d in $(ls -d C*/ | tr -d / | sort); do
  p=${d%%-*}
  out=$(/verif/tools/seedtest.sh /verif/seeded/$d/patch.diff $p 2>&1)
  nv=$(echo "$out" | grep -c "^VIOLATION")
  nf=$(echo "$out" | grep "^VIOLATION" | grep -vc "no-failing-input-found")
  na=$(echo "$out" | grep -c "patch does not apply")
  echo "$d violations=$nv concrete=$nf noapply=$na $(echo "$out" | grep -E "^\[$p\] tier" | grep -o 'wall=.*')"
done
