#!/bin/bash
# usage: benigntest.sh <patch> <prop>...
patch=$1; shift
echo "== $(basename $patch)"
out=$(/verif/tools/seedtest.sh $patch "$@" 2>&1)
echo "$out" | grep -E "^\[|patch does not|uncommitted|VIOLATION" | cut -c1-170
for f in $(echo "$out" | grep -o "replay=[^ ]*" | cut -d= -f2); do python3 -c "
import json;d=json.load(open('$f'));print('   ',d.get('key') or ('BROKEN ' + str(d.get('no_longer_checks'))[:400]))"; done | sort | uniq -c
