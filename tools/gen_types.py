"""Type-directed generator of well-typed Gleam programs for C09: every expression is built against a
chosen target type, so the type of each binder and function is known by construction.  Emits the Gleam
text of 1-2 modules, the binders (name, module, expected type), the functions (name, expected scheme)
and the program in the s-expression encoding of the Lean checker (Glas/Model/TySpec.lean)."""
import random, re

INT, FLOAT, STRING, BOOL, NIL = ("int",), ("float",), ("string",), ("bool",), ("nil",)
def L(t): return ("list", t)
def T(*ts): return ("tuple", list(ts))
def R(a, b): return ("result", a, b)
def F(ps, r): return ("fn", list(ps), r)
def A(n, *args): return ("adt", n, list(args))
def G(n): return ("gen", n)

ADTS = {
    "Shape": ([], [("Circle", [("r", INT)]), ("Rect", [("w", INT), ("h", INT)])]),
    "Color": ([], [("Red", []), ("Green", []), ("Blue", [])]),
    "Point": ([], [("Point", [("x", FLOAT), ("y", FLOAT)])]),
    "Box": (["a"], [("Box", [("value", G("a"))])]),
    "Pair": (["a", "b"], [("Pair", [("first", G("a")), ("second", G("b"))])]),
    "Maybe": (["a"], [("Just", [(None, G("a"))]), ("Nothing", [])]),
}
ADT_TEXT = """pub type Shape {
  Circle(r: Int)
  Rect(w: Int, h: Int)
}

pub type Color {
  Red
  Green
  Blue
}

pub type Point {
  Point(x: Float, y: Float)
}

pub type Box(a) {
  Box(value: a)
}

pub type Pair(a, b) {
  Pair(first: a, second: b)
}

pub type Maybe(a) {
  Just(a)
  Nothing
}
"""


def show(t):
    k = t[0]
    if k == "int": return "Int"
    if k == "float": return "Float"
    if k == "string": return "String"
    if k == "bool": return "Bool"
    if k == "nil": return "Nil"
    if k == "list": return f"List({show(t[1])})"
    if k == "tuple": return "#(" + ", ".join(show(x) for x in t[1]) + ")"
    if k == "result": return f"Result({show(t[1])}, {show(t[2])})"
    if k == "fn": return "fn(" + ", ".join(show(x) for x in t[1]) + ") -> " + show(t[2])
    if k == "adt": return t[1] + ("(" + ", ".join(show(x) for x in t[2]) + ")" if t[2] else "")
    if k == "gen": return t[1]
    raise ValueError(t)


def sx(t):
    k = t[0]
    if k == "int": return "I"
    if k == "float": return "F"
    if k == "string": return "S"
    if k == "bool": return "B"
    if k == "nil": return "N"
    if k == "list": return f"(L {sx(t[1])})"
    if k == "tuple": return "(T" + "".join(" " + sx(x) for x in t[1]) + ")"
    if k == "result": return f"(R {sx(t[1])} {sx(t[2])})"
    if k == "fn": return "(Fn (" + " ".join(sx(x) for x in t[1]) + ") " + sx(t[2]) + ")"
    if k == "adt": return f"(A {t[1]}" + "".join(" " + sx(x) for x in t[2]) + ")"
    if k == "gen": return f"(G {t[1]})"
    raise ValueError(t)


def subst(s, t):
    k = t[0]
    if k == "gen": return s.get(t[1], t)
    if k == "list": return L(subst(s, t[1]))
    if k == "tuple": return ("tuple", [subst(s, x) for x in t[1]])
    if k == "result": return R(subst(s, t[1]), subst(s, t[2]))
    if k == "fn": return F([subst(s, x) for x in t[1]], subst(s, t[2]))
    if k == "adt": return ("adt", t[1], [subst(s, x) for x in t[2]])
    return t


def parse_type(s):
    """parser for the types glas displays"""
    s = s.strip()
    pos = [0]
    def ws():
        while pos[0] < len(s) and s[pos[0]] in " \n": pos[0] += 1
    def lst(close):
        out = []
        ws()
        if s[pos[0]] == close:
            pos[0] += 1
            return out
        while True:
            out.append(ty()); ws()
            if s[pos[0]] == ",":
                pos[0] += 1; continue
            if s[pos[0]] == close:
                pos[0] += 1
                return out
            raise ValueError(s)
    def ty():
        ws()
        if s.startswith("#(", pos[0]):
            pos[0] += 2
            return ("tuple", lst(")"))
        if s.startswith("fn(", pos[0]):
            pos[0] += 3
            ps = lst(")"); ws()
            if not s.startswith("->", pos[0]): raise ValueError(s)
            pos[0] += 2
            return F(ps, ty())
        j = pos[0]
        while j < len(s) and (s[j].isalnum() or s[j] == "_" or s[j] == "?"): j += 1
        name = s[pos[0]:j]
        if not name: raise ValueError(s)
        pos[0] = j
        args = []
        if pos[0] < len(s) and s[pos[0]] == "(":
            pos[0] += 1
            args = lst(")")
        prim = {"Int": INT, "Float": FLOAT, "String": STRING, "Bool": BOOL, "Nil": NIL}
        if name in prim and not args: return prim[name]
        if name == "List" and len(args) == 1: return L(args[0])
        if name == "Result" and len(args) == 2: return R(args[0], args[1])
        if name[0].isupper(): return ("adt", name, args)
        return G(name)
    t = ty(); ws()
    if pos[0] != len(s): raise ValueError(s)
    return t


def canon_gens(t):
    """rename type variables in order of first occurrence"""
    m = {}
    def go(t):
        k = t[0]
        if k == "gen":
            if t[1] not in m: m[t[1]] = "t%d" % len(m)
            return G(m[t[1]])
        if k == "list": return L(go(t[1]))
        if k == "tuple": return ("tuple", [go(x) for x in t[1]])
        if k == "result": return R(go(t[1]), go(t[2]))
        if k == "fn": return F([go(x) for x in t[1]], go(t[2]))
        if k == "adt": return ("adt", t[1], [go(x) for x in t[2]])
        return t
    return go(t)


PRIMS = [INT, FLOAT, STRING, BOOL]


class Fn:
    def __init__(self, name, module, params, ret, labels=None, poly=False):
        self.name, self.module, self.params, self.ret = name, module, params, ret   # params: [(pname, ty)]
        self.labels = labels or [None] * len(params)
        self.poly = poly
        self.ret_ann = True
        self.ann = None          # per parameter: annotated in the source?
        self.text = None
        self.sexp = None
        self.param_ids = []
    def ty(self): return F([p[1] for p in self.params], self.ret)


class Gen:
    def __init__(self, seed, nfun=8, two_modules=True):
        self.r = random.Random(seed)
        self.nid = 0
        self.binders = []        # (id, name, module, type, hoverable)
        self.fns = []
        self.two = two_modules
        self.nfun = nfun
        self.cur_module = "m1"
        self.depth_budget = 0
        self.features = {}
        self.late = set()          # binder ids whose type only a surrounding call determines (lambda / use parameters)
        self.alias = {}            # let-bound id -> id it is a plain alias of
        self.cur_fn = None
        self.fn_flags = {}         # function name -> set of recorded shapes
        self.anchors = {}          # binder id -> regex whose group 1 is the binder's token (names that are not unique)

    def feat(self, k): self.features[k] = self.features.get(k, 0) + 1

    def fresh(self, ty, hover=True, prefix="v"):
        self.nid += 1
        name = f"{prefix}{self.nid}"
        self.binders.append((self.nid, name, self.cur_module, ty, hover))
        return self.nid, name

    def rand_type(self, depth=2, nofn=False):
        r = self.r
        k = r.randrange((11 if nofn else 12) if depth > 0 else 5)
        if k < 4: return PRIMS[k]
        if k == 4: return r.choice([A("Shape"), A("Color"), A("Point"), NIL])
        if k == 5: return L(self.rand_type(depth - 1, nofn))
        if k == 6: return ("tuple", [self.rand_type(depth - 1, nofn) for _ in range(r.randrange(2, 4))])
        if k == 7: return R(self.rand_type(depth - 1, nofn), self.rand_type(depth - 1, nofn))
        if k == 8: return A("Box", self.rand_type(depth - 1, nofn))
        if k == 9: return A("Pair", self.rand_type(depth - 1, nofn), self.rand_type(depth - 1, nofn))
        if k == 10: return A("Maybe", self.rand_type(depth - 1, nofn))
        return F([self.rand_type(0) for _ in range(r.randrange(1, 3))], self.rand_type(depth - 1, nofn))

    @staticmethod
    def atom(txt):
        """operands of operators and of `|>` are wrapped in a block unless they are a single token or a plain call"""
        import re as _re
        if _re.fullmatch(r'[A-Za-z0-9_."]+', txt) or _re.fullmatch(r'[A-Za-z0-9_.]+\([A-Za-z0-9_.", ]*\)', txt):
            return txt
        return "{ " + txt + " }"

    # ---------- expressions: return (text, sexp) ----------
    def ref(self, f):
        txt = f.name if f.module == self.cur_module else f"{f.module}.{f.name}"
        return txt, f"(fr {f.name})"

    def callable_fns(self):
        # a module may call its own functions and, from m2, those of m1
        return [f for f in self.fns if f.module == self.cur_module or (self.cur_module == "m2" and f.module == "m1")]

    def gen_args(self, f, env, depth):
        args = [self.expr(p[1], env, depth - 1, True) for p in f.params]
        items = []
        for (lab, (t, s)) in zip(f.labels, args):
            items.append((lab, t, s))
        if any(l is not None for l in f.labels) and self.r.random() < 0.7:
            self.feat("labelled-call")
            lab_items = [(l, t, s) for (l, t, s) in items if l is not None]
            pos_items = [(l, t, s) for (l, t, s) in items if l is None]
            self.r.shuffle(lab_items)
            items = pos_items + lab_items
            txt = ", ".join((f"{l}: {t}" if l else t) for (l, t, s) in items)
            sxp = "".join(f" ({l if l else '_'} {s})" for (l, t, s) in items)
        else:
            txt = ", ".join(t for (_, t, _) in items)
            sxp = "".join(f" (_ {s})" for (_, _, s) in items)
        return txt, sxp, items

    def expr(self, ty, env, depth, det=False):
        """env: list of (name, id, type) visible locals.  det: the context determines the type of this
        expression (annotated return, argument of a monomorphic parameter, operand); when it does not,
        only forms whose type can be read off bottom-up are produced, so that every binder's type is
        determined by the program and known by construction."""
        r = self.r
        opts = []
        k = ty[0]
        locs = [e for e in env if e[2] == ty]
        if locs:
            opts += ["var"] * 3
        if depth > 0:
            if k == "int": opts += ["arith", "arith", "index", "field", "len"]
            if k == "float": opts += ["farith", "field"]
            if k == "string": opts += ["concat"]
            if k == "bool": opts += ["cmp", "eq"]
            # where nothing else determines the type, only functions that declare their result type
            fs = [f for f in self.callable_fns() if not f.poly and f.ret == ty and (det or f.ret_ann)]
            if fs: opts += ["call"] * 3
            opts += ["case", "block", "block", "ident", "apply", "pipe", "or_default", "lambda_call"]
            if k == "tuple" and len(ty[1]) == 2: opts += ["swap"]
            if fs: opts += ["use"]
        opts += ["lit"] * 2
        c = r.choice(opts)
        if c == "var":
            e = r.choice(locs)
            return e[0], f"(v {e[1]})"
        if c == "lit":
            return self.literal(ty, env, depth, det)
        if c == "arith":
            a, b = self.expr(INT, env, depth - 1, True), self.expr(INT, env, depth - 1, True)
            op = r.choice(["+", "-", "*", "/", "%"])
            return f"{self.atom(a[0])} {op} {self.atom(b[0])}", f"(op ia {a[1]} {b[1]})"
        if c == "farith":
            a, b = self.expr(FLOAT, env, depth - 1, True), self.expr(FLOAT, env, depth - 1, True)
            op = r.choice(["+.", "-.", "*.", "/."])
            return f"{self.atom(a[0])} {op} {self.atom(b[0])}", f"(op fa {a[1]} {b[1]})"
        if c == "concat":
            a, b = self.expr(STRING, env, depth - 1, True), self.expr(STRING, env, depth - 1, True)
            return f"{self.atom(a[0])} <> {self.atom(b[0])}", f"(op cc {a[1]} {b[1]})"
        if c == "cmp":
            if r.random() < 0.5:
                a, b = self.expr(INT, env, depth - 1, True), self.expr(INT, env, depth - 1, True)
                return f"{self.atom(a[0])} {r.choice(['<', '>', '<=', '>='])} {self.atom(b[0])}", f"(op ic {a[1]} {b[1]})"
            a, b = self.expr(FLOAT, env, depth - 1, True), self.expr(FLOAT, env, depth - 1, True)
            return f"{self.atom(a[0])} {r.choice(['<.', '>.', '<=.', '>=.'])} {self.atom(b[0])}", f"(op fc {a[1]} {b[1]})"
        if c == "eq":
            t = r.choice(PRIMS)
            a, b = self.expr(t, env, depth - 1, True), self.expr(t, env, depth - 1, True)
            return f"{self.atom(a[0])} == {self.atom(b[0])}", f"(op eq {a[1]} {b[1]})"
        if c == "index":
            # index into a tuple built around the target
            self.feat("tuple-index")
            ts = [self.rand_type(0, True) for _ in range(r.randrange(1, 3))]
            i = r.randrange(len(ts) + 1)
            ts.insert(i, ty)
            tt = ("tuple", ts)
            vid, vn = self.fresh(tt)
            init = self.expr(tt, env, depth - 1)
            self.note_access(init[1])
            return f"{{\n let {vn} = {init[0]}\n {vn}.{i}\n}}", f"(blk (let (pv {vid}) {init[1]}) (x (ix (v {vid}) {i})))"
        if c == "field":
            self.feat("field-access")
            if k == "int":
                adt, label = r.choice([(A("Box", INT), "value"), (A("Shape"), None), (A("Pair", INT, self.rand_type(0)), "first")])
                if label is None:
                    adt, label = A("Pair", self.rand_type(0), INT), "second"
            else:
                adt, label = r.choice([(A("Point"), r.choice(["x", "y"])), (A("Box", FLOAT), "value")])
            vid, vn = self.fresh(adt)
            init = self.expr(adt, env, depth - 1)
            self.note_access(init[1])
            return f"{{\n let {vn} = {init[0]}\n {vn}.{label}\n}}", f"(blk (let (pv {vid}) {init[1]}) (x (fld (v {vid}) {label})))"
        if c == "len":
            t = self.rand_type(0, True)
            a = self.expr(L(t), env, depth - 1)
            lf = self.fn_named("len")
            rt, rs = self.ref(lf)
            return f"{rt}({a[0]})", f"(call {rs} (_ {a[1]}))"
        if c == "call":
            f = r.choice(fs)
            self.feat("call")
            at, asx, _ = self.gen_args(f, env, depth)
            rt, rs = self.ref(f)
            return f"{rt}({at})", f"(call {rs}{asx})"
        if c == "ident":
            self.feat("polymorphic-call")
            f = self.fn_named(r.choice(["identity", "ident2"]))
            a = self.expr(ty, env, depth - 1, det)
            rt, rs = self.ref(f)
            return f"{rt}({a[0]})", f"(call {rs} (_ {a[1]}))"
        if c == "apply":
            self.feat("polymorphic-call"); self.feat("lambda")
            f = self.fn_named("apply")
            t1 = self.rand_type(1, True)
            a = self.expr(t1, env, depth - 1)
            pid, pn = self.fresh(t1)
            self.late.add(pid)
            body = self.expr(ty, env + [(pn, pid, t1)], depth - 1, det)
            rt, rs = self.ref(f)
            return f"{rt}({a[0]}, fn({pn}) {{ {body[0]} }})", f"(call {rs} (_ {a[1]}) (_ (lam ({pid}) {body[1]})))"
        if c == "pipe":
            self.feat("pipeline")
            f = self.fn_named("apply")
            t1 = self.rand_type(1, True)
            a = self.expr(t1, env, depth - 1)
            pid, pn = self.fresh(t1)
            self.late.add(pid)
            body = self.expr(ty, env + [(pn, pid, t1)], depth - 1, det)
            rt, rs = self.ref(f)
            return f"{self.atom(a[0])} |> {rt}(fn({pn}) {{ {body[0]} }})", f"(pipe {a[1]} (call {rs} (_ (lam ({pid}) {body[1]}))))"
        if c == "or_default":
            self.feat("polymorphic-call")
            f = self.fn_named("or_default")
            d = self.expr(ty, env, depth - 1, det)
            m = self.expr(A("Maybe", ty), env, depth - 1, True)
            rt, rs = self.ref(f)
            if r.random() < 0.5:
                return f"{rt}({m[0]}, {d[0]})", f"(call {rs} (_ {m[1]}) (_ {d[1]}))"
            self.feat("labelled-call")
            return f"{rt}(default: {d[0]}, maybe: {m[0]})", f"(call {rs} (default {d[1]}) (maybe {m[1]}))"
        if c == "swap":
            f = self.fn_named("swap")
            a = self.expr(("tuple", [ty[1][1], ty[1][0]]), env, depth - 1, det)
            rt, rs = self.ref(f)
            return f"{rt}({a[0]})", f"(call {rs} (_ {a[1]}))"
        if c == "lambda_call":
            self.feat("lambda")
            t1 = self.rand_type(1, True)
            fid, fname = self.fresh(F([t1], ty))
            pid, pn = self.fresh(t1)
            self.late.add(pid)
            body = self.expr(ty, env + [(pn, pid, t1)], depth - 1, det)
            a = self.expr(t1, env, depth - 1)
            return (f"{{\n let {fname} = fn({pn}) {{ {body[0]} }}\n {fname}({a[0]})\n}}",
                    f"(blk (let (pv {fid}) (lam ({pid}) {body[1]})) (x (call (v {fid}) (_ {a[1]}))))")
        if c == "use":
            # use x <- apply(arg)  ; rest   ==  apply(arg, fn(x) { rest })
            self.feat("use")
            f = self.fn_named("apply")
            t1 = self.rand_type(1, True)
            a = self.expr(t1, env, depth - 1)
            pid, pn = self.fresh(t1)
            self.late.add(pid)
            body = self.expr(ty, env + [(pn, pid, t1)], depth - 1, det)
            rt, rs = self.ref(f)
            return (f"{{\n use {pn} <- {rt}({a[0]})\n {body[0]}\n}}", f"(call {rs} (_ {a[1]}) (_ (lam ({pid}) {body[1]})))")
        if c == "block":
            return self.block(ty, env, depth, det)
        if c == "case":
            return self.case(ty, env, depth, det)
        raise AssertionError(c)

    def fn_named(self, n):
        return next(f for f in self.fns if f.name == n)

    def note_access(self, init_sexp):
        """a field access / tuple index whose base is (an alias of) a lambda or use parameter: glas looks the base
        type up before the surrounding call's arguments are unified (recorded finding)"""
        import re as _re
        m = _re.fullmatch(r"\(v (\d+)\)", init_sexp)
        if m:
            i = int(m.group(1))
            while i in self.alias:
                i = self.alias[i]
            if i in self.late and self.cur_fn is not None:
                self.fn_flags.setdefault(self.cur_fn, set()).add("access-on-late-bound-parameter")

    def literal(self, ty, env, depth, det=False):
        r = self.r
        k = ty[0]
        d = max(depth - 1, 0)
        if k == "int": return str(r.randrange(100)), "i"
        if k == "float": return f"{r.randrange(100)}.{r.randrange(10)}", "f"
        if k == "string": return '"s%d"' % r.randrange(100), "s"
        if k == "bool":
            b = r.choice(["True", "False"])
            return b, f"(c {b})"
        if k == "nil": return "Nil", "(c Nil)"
        if k == "list":
            n = r.randrange(0 if det else 1, 3)
            es = [self.expr(ty[1], env, d, det) for _ in range(n)]
            locs = [e for e in env if e[2] == ty]
            if locs and r.random() < 0.4 and n > 0:
                self.feat("list-spread")
                t = r.choice(locs)
                return "[" + ", ".join(e[0] for e in es) + f", ..{t[0]}]", "(lt (" + " ".join(e[1] for e in es) + f") (v {t[1]}))"
            if n == 0: self.feat("empty-list")
            return "[" + ", ".join(e[0] for e in es) + "]", "(l (" + " ".join(e[1] for e in es) + "))"
        if k == "tuple":
            es = [self.expr(t, env, d, det) for t in ty[1]]
            return "#(" + ", ".join(e[0] for e in es) + ")", "(t" + "".join(" " + e[1] for e in es) + ")"
        if k == "result":
            if not det:
                # both parameters must be determined: a case with an Ok and an Error branch
                self.feat("result-both-branches")
                c = self.expr(BOOL, env, d, True)
                a, b = self.expr(ty[1], env, d), self.expr(ty[2], env, d)
                return (f"case {c[0]} {{\n  True -> Ok({a[0]})\n  False -> Error({b[0]})\n}}",
                        f"(case ({c[1]}) (((pc True)) (call (c Ok) (_ {a[1]}))) (((pc False)) (call (c Error) (_ {b[1]}))))")
            if r.random() < 0.5:
                e = self.expr(ty[1], env, d, det)
                return f"Ok({e[0]})", f"(call (c Ok) (_ {e[1]}))"
            e = self.expr(ty[2], env, d, det)
            return f"Error({e[0]})", f"(call (c Error) (_ {e[1]}))"
        if k == "fn":
            self.feat("lambda")
            assert det, "lambda literal in an undetermined context"
            ps = [self.fresh(t) for t in ty[1]]
            for (i, _) in ps: self.late.add(i)
            body = self.expr(ty[2], env + [(n, i, t) for ((i, n), t) in zip(ps, ty[1])], d, det)
            return ("fn(" + ", ".join(n for (_, n) in ps) + ") { " + body[0] + " }",
                    "(lam (" + " ".join(str(i) for (i, _) in ps) + ") " + body[1] + ")")
        if k == "adt":
            name, args = ty[1], ty[2]
            params, variants = ADTS[name]
            s = dict(zip(params, args))
            # avoid unbounded recursion: prefer constant variants at depth 0
            cands = variants if depth > 0 else ([v for v in variants if not v[1]] or variants)
            if not det and params:
                # the variant must mention every type parameter
                def mentions(t, n): return t == G(n) or any(mentions(x, n) for x in (t[1:] if t[0] in ("list",) else (t[1] if t[0] == "tuple" else [])))
                cands = [v for v in variants if all(any(mentions(ft, pn) for (_, ft) in v[1]) for pn in params)]
            vn, fields = r.choice(cands)
            if not fields:
                return vn, f"(c {vn})"
            vals = [(lab, self.expr(subst(s, ft), env, d, det)) for (lab, ft) in fields]
            if all(l is not None for (l, _) in vals) and r.random() < 0.5:
                self.feat("labelled-constructor")
                sh = vals[:]
                r.shuffle(sh)
                return (f"{vn}(" + ", ".join(f"{l}: {e[0]}" for (l, e) in sh) + ")",
                        f"(call (c {vn})" + "".join(f" ({l} {e[1]})" for (l, e) in sh) + ")")
            return (f"{vn}(" + ", ".join(e[0] for (_, e) in vals) + ")",
                    f"(call (c {vn})" + "".join(f" (_ {e[1]})" for (_, e) in vals) + ")")
        raise AssertionError(ty)

    def block(self, ty, env, depth, det=False):
        r = self.r
        self.feat("block")
        env2 = list(env)
        stm_t, stm_s = [], []
        for _ in range(r.randrange(1, 3)):
            t = self.rand_type(1, True)
            if r.random() < 0.25 and t[0] == "tuple":
                # destructuring let
                self.feat("let-pattern")
                pt, ps, binds = self.pattern(t, allow_refutable=False)
                e = self.expr(t, env2, depth - 1)
                stm_t.append(f"let {pt} = {e[0]}"); stm_s.append(f"(let {ps} {e[1]})")
                env2 += binds
                continue
            e = self.expr(t, env2, depth - 1)
            vid, vn = self.fresh(t)
            import re as _re
            m_al = _re.fullmatch(r"\(v (\d+)\)", e[1])
            if m_al:
                self.alias[vid] = int(m_al.group(1))
            stm_t.append(f"let {vn} = {e[0]}"); stm_s.append(f"(let (pv {vid}) {e[1]})")
            env2.append((vn, vid, t))
        tail = self.expr(ty, env2, depth - 1, det)
        return "{\n " + "\n ".join(stm_t) + f"\n {tail[0]}\n}}", "(blk " + " ".join(stm_s) + f" (x {tail[1]}))"

    def pattern(self, ty, allow_refutable=True, depth=2):
        """(text, sexp, binders introduced [(name, id, type)])"""
        r = self.r
        k = ty[0]
        c = r.randrange(10)
        if c < 3 or depth == 0:
            vid, vn = self.fresh(ty)
            return vn, f"(pv {vid})", [(vn, vid, ty)]
        if c == 3:
            return "_", "pd", []
        if k == "tuple":
            subs = [self.pattern(t, allow_refutable, depth - 1) for t in ty[1]]
            return "#(" + ", ".join(x[0] for x in subs) + ")", "(pt" + "".join(" " + x[1] for x in subs) + ")", sum((x[2] for x in subs), [])
        if not allow_refutable:
            vid, vn = self.fresh(ty)
            return vn, f"(pv {vid})", [(vn, vid, ty)]
        if k == "int": return str(r.randrange(10)), "pi", []
        if k == "float": return f"{r.randrange(10)}.0", "pf", []
        if k == "string": return '"k%d"' % r.randrange(5), "ps", []
        if k == "bool":
            b = r.choice(["True", "False"])
            return b, f"(pc {b})", []
        if k == "nil": return "Nil", "(pc Nil)", []
        if k == "list":
            n = r.randrange(0, 3)
            subs = [self.pattern(ty[1], True, depth - 1) for _ in range(n)]
            binds = sum((x[2] for x in subs), [])
            tail = r.randrange(3)
            if tail == 0:
                return "[" + ", ".join(x[0] for x in subs) + "]", "(pl (" + " ".join(x[1] for x in subs) + ") n)", binds
            if tail == 1:
                return "[" + ", ".join([x[0] for x in subs] + [".."]) + "]", "(pl (" + " ".join(x[1] for x in subs) + ") d)", binds
            self.feat("list-tail-binder")
            vid, vn = self.fresh(ty)
            return ("[" + ", ".join([x[0] for x in subs] + [".." + vn]) + "]", "(pl (" + " ".join(x[1] for x in subs) + f") (b {vid}))", binds + [(vn, vid, ty)])
        if k == "result":
            if r.random() < 0.5:
                s = self.pattern(ty[1], True, depth - 1)
                return f"Ok({s[0]})", f"(pc Ok (_ {s[1]}))", s[2]
            s = self.pattern(ty[2], True, depth - 1)
            return f"Error({s[0]})", f"(pc Error (_ {s[1]}))", s[2]
        if k == "adt":
            name, args = ty[1], ty[2]
            params, variants = ADTS[name]
            sb = dict(zip(params, args))
            vn, fields = r.choice(variants)
            if not fields:
                return vn, f"(pc {vn})", []
            subs = [(lab, self.pattern(subst(sb, ft), True, depth - 1)) for (lab, ft) in fields]
            binds = sum((x[1][2] for x in subs), [])
            if all(l is not None for (l, _) in subs) and r.random() < 0.5:
                self.feat("labelled-pattern")
                sh = subs[:]
                r.shuffle(sh)
                return (f"{vn}(" + ", ".join(f"{l}: {x[0]}" for (l, x) in sh) + ")", f"(pc {vn}" + "".join(f" ({l} {x[1]})" for (l, x) in sh) + ")", binds)
            return (f"{vn}(" + ", ".join(x[0] for (_, x) in subs) + ")", f"(pc {vn}" + "".join(f" (_ {x[1]})" for (_, x) in subs) + ")", binds)
        vid, vn = self.fresh(ty)
        return vn, f"(pv {vid})", [(vn, vid, ty)]

    def case(self, ty, env, depth, det=False):
        r = self.r
        self.feat("case")
        nsub = 1 if r.random() < 0.7 else 2
        if nsub == 2: self.feat("case-multi-subject")
        sts = [r.choice([self.rand_type(1, True), A("Shape"), A("Maybe", INT), L(INT), R(INT, STRING), BOOL, A("Color")]) for _ in range(nsub)]
        subs = [self.expr(t, env, depth - 1) for t in sts]
        cl_t, cl_s = [], []
        for _ in range(r.randrange(1, 4)):
            pats = [self.pattern(t) for t in sts]
            binds = sum((p[2] for p in pats), [])
            body = self.expr(ty, env + binds, depth - 1, det)
            cl_t.append(", ".join(p[0] for p in pats) + " -> " + body[0])
            cl_s.append("((" + " ".join(p[1] for p in pats) + ") " + body[1] + ")")
        # a catch-all clause keeps the case total
        body = self.expr(ty, env, depth - 1, det)
        cl_t.append(", ".join("_" for _ in sts) + " -> " + body[0])
        cl_s.append("((" + " ".join("pd" for _ in sts) + ") " + body[1] + ")")
        return ("case " + ", ".join(s[0] for s in subs) + " {\n  " + "\n  ".join(cl_t) + "\n}",
                "(case (" + " ".join(s[1] for s in subs) + ") " + " ".join(cl_s) + ")")

    # ---------- functions and modules ----------
    def helpers(self):
        """polymorphic helpers of module m1, written by hand with their encodings"""
        hs = []
        def h(name, params, ret, labels, text, body_sx_fn):
            f = Fn(name, "m1", params, ret, labels, poly=True)
            self.cur_module = "m1"
            ids = []
            for (pn, pt) in params:
                self.nid += 1
                self.binders.append((self.nid, pn, "m1", pt, False))
                ids.append(self.nid)
            f.param_ids = ids
            f.text = text
            f.sexp = body_sx_fn(ids)
            f.ann = [(pn + ":") in text for (pn, _) in params]
            f.ret_src = ") ->" in text.split("{")[0]
            hs.append(f)
        a, b, c = G("a"), G("b"), G("c")
        h("identity", [("hx1", a)], a, None, "pub fn identity(hx1: a) -> a {\n  hx1\n}", lambda i: f"(v {i[0]})")
        h("ident2", [("hx2", a)], a, None, "pub fn ident2(hx2) {\n  hx2\n}", lambda i: f"(v {i[0]})")
        h("apply", [("hv3", a), ("hf3", F([a], b))], b, None, "pub fn apply(hv3: a, hf3: fn(a) -> b) -> b {\n  hf3(hv3)\n}",
          lambda i: f"(call (v {i[1]}) (_ (v {i[0]})))")
        h("swap", [("hp4", T(a, b))], T(b, a), None, "pub fn swap(hp4: #(a, b)) -> #(b, a) {\n  #(hp4.1, hp4.0)\n}",
          lambda i: f"(t (ix (v {i[0]}) 1) (ix (v {i[0]}) 0))")
        # or_default binds a pattern variable
        self.nid += 1
        jv = self.nid
        self.binders.append((jv, "hj5", "m1", a, False))
        h("or_default", [("hm5", A("Maybe", a)), ("hd5", a)], a, ["maybe", "default"],
          "pub fn or_default(maybe hm5: Maybe(a), default hd5: a) -> a {\n  case hm5 {\n    Just(hj5) -> hj5\n    Nothing -> hd5\n  }\n}",
          lambda i: f"(case ((v {i[0]})) (((pc Just (_ (pv {jv})))) (v {jv})) (((pc Nothing)) (v {i[1]})))")
        self.nid += 1
        rest = self.nid
        self.binders.append((rest, "hr6", "m1", L(a), False))
        h("len", [("hl6", L(a))], INT, None,
          "pub fn len(hl6: List(a)) -> Int {\n  case hl6 {\n    [] -> 0\n    [_, ..hr6] -> 1 + len(hr6)\n  }\n}",
          lambda i: f"(case ((v {i[0]})) (((pl () n)) i) (((pl (pd) (b {rest}))) (op ia i (call (fr len) (_ (v {rest}))))))")
        h("map_box", [("hb7", A("Box", a)), ("hf7", F([a], c))], A("Box", c), None,
          "pub fn map_box(hb7: Box(a), hf7: fn(a) -> c) -> Box(c) {\n  Box(hf7(hb7.value))\n}",
          lambda i: f"(call (c Box) (_ (call (v {i[1]}) (_ (fld (v {i[0]}) value)))))")
        # a local binder that shadows a top-level function which (transitively) calls back: the parameter `shg` of
        # shf is NOT the function shg, so shf and shg are separate inference groups and shf stays generic
        ids = {}
        for nm, ty in (("shn", INT), ("shs", STRING), ("shr", STRING)):
            self.nid += 1
            ids[nm] = self.nid
            self.binders.append((self.nid, nm, "m1", ty, False))
        h("shf", [("shg", F([a], b)), ("shx", a)], b, None, "pub fn shf(shg, shx) {\n  shg(shx)\n}",
          lambda i: f"(call (v {i[0]}) (_ (v {i[1]})))")
        self.anchors[hs[-1].param_ids[0]] = r"pub fn shf\((shg)\b"
        h("shg", [], INT, None, "pub fn shg() {\n  shf(fn(shn) { shn + 1 }, 1)\n}",
          lambda i: f"(call (fr shf) (_ (lam ({ids['shn']}) (op ia (v {ids['shn']}) i))) (_ i))")
        h("shout", [], STRING, None, 'pub fn shout() {\n  let shr = shf(fn(shs) { shs <> "!" }, "a")\n  shr\n}',
          lambda i: f"(blk (let (pv {ids['shr']}) (call (fr shf) (_ (lam ({ids['shs']}) (op cc (v {ids['shs']}) s))) (_ s))) (x (v {ids['shr']})))")
        self.feat("local-shadows-toplevel-function")
        # a generic recursion group of three with a type variable that only one member has (`rlog: List(c)`, fed with []
        # inside the group), and a caller outside the group using it at other types; definition order is shuffled
        h("rwalk", [("rx", a), ("rn", INT)], a, None, "pub fn rwalk(rx, rn) {\n  case rn {\n    0 -> rx\n    _ -> rstep(rx, rn - 1)\n  }\n}",
          lambda i: f"(case ((v {i[1]})) ((pi) (v {i[0]})) ((pd) (call (fr rstep) (_ (v {i[0]})) (_ (op ia (v {i[1]}) i)))))")
        h("rstep", [("ry", a), ("rm", INT)], a, None, "pub fn rstep(ry, rm) {\n  remit([], ry, rm)\n}",
          lambda i: f"(call (fr remit) (_ (l ())) (_ (v {i[0]})) (_ (v {i[1]})))")
        h("remit", [("rlog", L(c)), ("ru", a), ("rk", INT)], a, None, "pub fn remit(rlog, ru, rk) {\n  rwalk(ru, rk)\n}",
          lambda i: f"(call (fr rwalk) (_ (v {i[1]})) (_ (v {i[2]})))")
        self.nid += 1
        rr = self.nid
        self.binders.append((rr, "rres", "m1", STRING, False))
        h("rmain", [], STRING, None, 'pub fn rmain() {\n  let rres = remit([1], "s", 3)\n  rres\n}',
          lambda i: f"(blk (let (pv {rr}) (call (fr remit) (_ (l (i))) (_ s) (_ i))) (x (v {rr})))")
        self.feat("generic-recursion-group-of-three")
        # two generic functions calling each other with swapped arguments: three independent type variables in one group
        h("rfa", [("ra1", a), ("ra2", b)], c, None, "pub fn rfa(ra1, ra2) {\n  rfb(ra2, ra1)\n}", lambda i: f"(call (fr rfb) (_ (v {i[1]})) (_ (v {i[0]})))")
        h("rfb", [("rb1", b), ("rb2", a)], c, None, "pub fn rfb(rb1, rb2) {\n  rfa(rb2, rb1)\n}", lambda i: f"(call (fr rfa) (_ (v {i[1]})) (_ (v {i[0]})))")
        # partially annotated generic function: a compound annotation, a named type variable, then unannotated parameters
        self.nid += 1
        tp = self.nid
        self.binders.append((tp, "tpair", "m1", T(a, c), False))
        self.nid += 1
        tres = self.nid
        self.binders.append((tres, "tres", "m1", T(STRING, FLOAT), False))
        h("tag", [("tl", L(INT)), ("ta", a), ("tb", b), ("tc", c)], T(a, c), None,
          "pub fn tag(tl: List(Int), ta: a, tb, tc) {\n  let tpair = #(ta, tc)\n  tpair\n}",
          lambda i: f"(blk (let (pv {tp}) (t (v {i[1]}) (v {i[3]}))) (x (v {tp})))")
        h("use_tag", [], T(STRING, FLOAT), None, 'pub fn use_tag() {\n  let tres = tag([1], "s", 2, 1.5)\n  tres\n}',
          lambda i: f"(blk (let (pv {tres}) (call (fr tag) (_ (l (i))) (_ s) (_ i) (_ f))) (x (v {tres})))")
        self.feat("partially-annotated-generic")
        return hs

    FORCE = {"int": ("{} + 0", "(op ia (v {}) i)"), "float": ("{} +. 0.0", "(op fa (v {}) f)"), "string": ('{} <> ""', "(op cc (v {}) s)")}

    def gen_fn(self, f):
        """body of a monomorphic generated function (signature already chosen)"""
        r = self.r
        self.cur_module = f.module
        self.cur_fn = f.name
        f.ann = []
        f.ret_src = f.ret_ann
        env, ids, ptxt = [], [], []
        forced_t, forced_s = [], []
        for (lab, (pn, pt)) in zip(f.labels, f.params):
            self.nid += 1
            pid = self.nid
            self.binders.append((pid, pn, f.module, pt, True))
            ids.append(pid)
            env.append((pn, pid, pt))
            annotate = r.random() < 0.6 or pt[0] not in self.FORCE
            f.ann.append(annotate)
            ptxt.append((f"{lab} " if lab else "") + pn + (f": {show(pt)}" if annotate else ""))
            if not annotate:
                self.feat("unannotated-param")
                ft, fs = self.FORCE[pt[0]]
                did, dn = self.fresh(pt, prefix="u")
                forced_t.append(f"let {dn} = " + ft.format(pn))
                forced_s.append(f"(let (pv {did}) " + fs.format(pid) + ")")
        f.param_ids = ids
        ret_ann = f.ret_ann
        body = self.expr(f.ret, env, 3, ret_ann)
        if not ret_ann: self.feat("unannotated-return")
        head = f"pub fn {f.name}(" + ", ".join(ptxt) + ")" + (f" -> {show(f.ret)}" if ret_ann else "")
        f.text = head + " {\n " + "\n ".join(forced_t + [body[0]]) + "\n}"
        f.sexp = "(blk " + " ".join(forced_s + [f"(x {body[1]})"]) + ")"

    def build(self):
        r = self.r
        self.fns = self.helpers()
        sigs = []
        mods = ["m1", "m2"] if self.two else ["m1"]
        for i in range(self.nfun):
            m = "m1" if i < self.nfun // 2 or not self.two else "m2"
            nparams = r.choice([0, 1, 2, 3, 3, 4, 5])
            params = [(f"p{i}_{j}", self.rand_type(1)) for j in range(nparams)]
            nlab = r.choice([0, 0, 1, 2, 3])         # Gleam: unlabelled parameters come first
            labels = [(f"lab{j}" if j >= nparams - nlab else None) for j in range(nparams)]
            if any(labels): self.feat("labelled-params")
            sigs.append(Fn(f"g{i}", m, params, self.rand_type(2), labels))
            sigs[-1].ret_ann = r.random() < 0.5 or "'fn'" in repr(sigs[-1].ret)
            # (a function returning a function value must say so or build it from determined parts)
        # a mutually recursive pair with identical signatures
        rec_t = self.rand_type(1, True)
        ra = Fn("reca", "m1", [("pra", INT)], rec_t, [None])
        rb = Fn("recb", "m1", [("prb", INT)], rec_t, [None])
        ra.ret_ann = rb.ret_ann = False
        self.fns += sigs + [ra, rb]
        for f in sigs:
            self.gen_fn(f)
        for (f, g) in ((ra, rb), (rb, ra)):
            self.cur_module = "m1"
            self.nid += 1
            pid = self.nid
            pn = f.params[0][0]
            self.binders.append((pid, pn, "m1", INT, True))
            f.param_ids = [pid]
            base = self.expr(rec_t, [(pn, pid, INT)], 1)
            ann = f is ra
            f.ann = [ann]
            f.ret_src = ann and r.random() < 0.5
            f.text = (f"pub fn {f.name}({pn}" + (": Int" if ann else "") + ")" + (f" -> {show(rec_t)}" if f.ret_src else "") +
                      f" {{\n case {pn} {{\n  0 -> {base[0]}\n  _ -> {g.name}({pn} - 1)\n }}\n}}")
            f.sexp = f"(case ((v {pid})) ((pi) {base[1]}) ((pd) (call (fr {g.name}) (_ (op ia (v {pid}) i)))))"
        self.feat("recursion-group")
        # wrappers: unannotated parameters passed on to a generated function with the leading arguments by
        # position and the remaining (labelled) ones by label in any order - their types come from the callee alone
        for f in list(sigs):
            n = len(f.params)
            if n == 0 or r.random() < 0.4:
                continue
            nun = sum(1 for l in f.labels if l is None)
            m = r.randrange(nun, n + 1)                # arguments given by position
            w = Fn("w_" + f.name, f.module, [(f"q{f.name}_{j}", f.params[j][1]) for j in range(n)], f.ret, [None] * n)
            w.ret_ann = False
            self.cur_module = f.module
            self.cur_fn = w.name
            ids = []
            for (pn, pt) in w.params:
                self.nid += 1
                self.binders.append((self.nid, pn, f.module, pt, True))
                ids.append(self.nid)
            w.param_ids = ids
            w.ann = [False] * n
            w.ret_src = False
            pos = [(None, w.params[j][0], ids[j]) for j in range(m)]
            lab = [(f.labels[j], w.params[j][0], ids[j]) for j in range(m, n)]
            r.shuffle(lab)
            items = pos + lab
            if lab: self.feat("mixed-positional-labelled-call")
            rt, rs = self.ref(f)
            w.text = (f"pub fn {w.name}(" + ", ".join(p[0] for p in w.params) + ") {\n " + f"{rt}(" +
                      ", ".join((f"{l}: {nm}" if l else nm) for (l, nm, _) in items) + ")\n}")
            w.sexp = f"(call {rs}" + "".join(f" ({l if l else '_'} (v {i}))" for (l, _, i) in items) + ")"
            self.fns.append(w)
        texts = {}
        for m in mods:
            items = [f.text for f in self.fns if f.module == m]
            r.shuffle(items)            # definition order is irrelevant
            head = ADT_TEXT if m == "m1" else "import m1.{type Shape, type Color, type Point, type Box, type Pair, type Maybe, Circle, Rect, Red, Green, Blue, Point, Box, Pair, Just, Nothing}\n"
            texts[m] = head + "\n" + "\n\n".join(items) + "\n"
        return texts

    def program_sexp(self, all_ann=False):
        adts = []
        for name, (params, variants) in ADTS.items():
            vs = " ".join("(variant " + vn + "".join(f" ({l if l else '_'} {sx(t)})" for (l, t) in fields) + ")" for (vn, fields) in variants)
            adts.append(f"(adt {name} (" + " ".join(params) + f") {vs})")
        fns = []
        for f in self.fns:
            mono = all_ann or not f.poly
            anns = " ".join((sx(p[1]) if (mono and f.ann and f.ann[j]) else "_") for j, p in enumerate(f.params))
            ret = sx(f.ret) if (mono and getattr(f, "ret_src", False)) else "_"
            fns.append(f"(fn {f.name} (" + " ".join(l if l else "_" for l in f.labels) + ") (" + " ".join(str(i) for i in f.param_ids) + f") ({anns}) {ret} {f.sexp})")
        return "(adts " + " ".join(adts) + ") (fns " + " ".join(fns) + ")"

    def expected_assignment(self):
        return ({f.name: f.ty() for f in self.fns}, {b[0]: b[3] for b in self.binders})


def groups_sexp(g):
    """strongly connected components of the call graph (references to top-level functions), callees first"""
    names = [f.name for f in g.fns]
    edges = {f.name: sorted(set(re.findall(r"\(fr (\w+)\)", f.sexp))) for f in g.fns}
    index, low, on, stack, out, counter = {}, {}, set(), [], [], [0]
    import sys
    sys.setrecursionlimit(10000)
    def strong(v):
        index[v] = low[v] = counter[0]; counter[0] += 1
        stack.append(v); on.add(v)
        for w in edges.get(v, []):
            if w not in index:
                strong(w); low[v] = min(low[v], low[w])
            elif w in on:
                low[v] = min(low[v], index[w])
        if low[v] == index[v]:
            comp = []
            while True:
                w = stack.pop(); on.discard(w); comp.append(w)
                if w == v: break
            out.append(comp)
    for n in names:
        if n not in index:
            strong(n)
    return " ".join("(g " + " ".join(c) + ")" for c in out)      # Tarjan emits callees first


def assignment_sexp(fn_tys, locals_):
    return " ".join(f"(fnty {n} {sx(t)})" for n, t in fn_tys.items()) + " " + " ".join(f"(loc {i} {sx(t)})" for i, t in locals_.items())


def generate(seed, nfun=8, two=True):
    g = Gen(seed, nfun, two)
    texts = g.build()
    return g, texts
