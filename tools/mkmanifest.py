#!/usr/bin/env python3
"""Regenerates /verif/MANIFEST.json from the table below (run after adding a check)."""
import json, os
ROOT = os.path.dirname(os.path.dirname(os.path.abspath(__file__)))

TB = ("Trusted base: Lean 4.33 kernel; axioms propext, Classical.choice, Quot.sound only (audited per theorem by #print axioms; "
      "no native_decide, no bv_decide, no sorry); the correspondence check (tools/*.py + harness/) that ties the hand model to "
      "the code; rustc. ")

CHECKS = {
 "C13": dict(
  technique="Lean 4 proof over hand model M-text + exhaustive small-domain correspondence with the real Vfs/convert",
  text=("Lean theorems about the model of LineMap/from_range/change_file_content (lean/Glas/Model/Text.lean): a valid LSP position "
        "is converted to the byte offset of the same character, one ranged change yields the editor's text without CRs, and by "
        "induction any history of valid ranged/full changes keeps server text = stripCR(editor text) (Props/C13.lean; all sizes, "
        "all Unicode). The model is tied to the code on every run by running model and implementation on every document up to "
        "length 4 (5 thorough) over {a, LF, CRLF, 2-,3-,4-byte char} x all valid position pairs x all insertions up to length 2, "
        "a malformed-position stream, and seeded edit sequences; a Python LSP-client reference is the oracle."),
  note=TB + "Modelled, not verified: u32 arithmetic as checked, FxHashMap as a total map, String slicing as split at a char boundary; "
       "the on_did_change closure is re-enacted by the harness (from_range then change_file_content) - the real closure is exercised by the stdio tie of C15.",
  ref="5.C13, 4.2"),
 "C14": dict(
  technique="Lean 4 proof over hand model M-text + exhaustive small-domain correspondence with the real LineMap",
  text=("Lean theorems for every text and every character boundary: line_col_for_pos equals the LSP client's (line, UTF-16 column), "
        "pos_for_line_col inverts it, the conversion is strictly monotone, and to_range reports both ends as the client's positions "
        "(Props/C14.lean). Tie: model vs real LineMap on all documents up to length 5 (6 thorough) over {a, LF, CRLF, 2-,3-,4-byte} "
        "at every byte offset and every grid position, plus long random documents; Python client reference as oracle."),
  note=TB + "Modelled, not verified: u32 arithmetic as checked, partition_point as takeWhile on the sorted line starts, FxHashMap as a total map.",
  ref="5.C14, 4.2"),
 "C19": dict(
  technique="Lean 4 proof of the relative encoder over M-text + exhaustive correspondence; tagging half by differential on real highlights",
  text=("Lean theorems: for sorted, disjoint, single-line, boundary-aligned highlights the encoder never fails and the LSP decoding of "
        "its output is exactly (line, UTF-16 start, UTF-16 length, type), strictly increasing and inside the line (Props/C19.lean). Tie: "
        "model vs real to_semantic_tokens on all documents up to length 4 x all lists of <= 2 (3 thorough) highlights, plus malformed "
        "lists. Which identifiers get which tag is checked on the implementation's real highlight output only (partial)."),
  note=TB + "Modelled, not verified: token type indices as numbers (order of SEMANTIC_TOKEN_TYPES), u32 subtraction as checked. The tagging "
       "half (function/constructor/module identifiers) is tie-only.",
  ref="5.C19, 4.2"),
}

def main():
    props = [json.loads(l) for l in open(os.path.join(ROOT, "properties.jsonl"))]
    hooks_commits = []
    try:
        hooks_commits = [l.strip() for l in open(os.path.join(ROOT, "hooks_commits.txt")) if l.strip()]
    except FileNotFoundError:
        pass
    checks, na = [], []
    for p in props:
        i = p["id"]
        if i in CHECKS:
            c = CHECKS[i]
            checks.append({
                "property_id": i,
                "quick_cmd": f"./check {i} --tier quick",
                "thorough_cmd": f"./check {i} --tier thorough",
                "evidence_file": f"evidence/{i}.json",
                "replay_cmd_template": f"./check {i} --replay {{path}}",
                "engine": "lean-proof+correspondence",
                "level_claimed": {"category": "proof", "text": c["text"], "design_ref": "DESIGN.md " + c["ref"]},
                "level_note": c["note"],
                "technique": c["technique"],
            })
        else:
            na.append({"property_id": i, "reason": "check not built yet (planned: Lean proof + correspondence, DESIGN.md section 5)"})
    m = {
        "version": 1,
        "setup_cmd": "./check --setup",
        "hooks": {
            "guard": "cargo feature `verif` on crate glas",
            "enable": "harness/Cargo.toml depends on glas with features = [\"verif\"]; checks run `cargo build --offline` in harness/",
            "baseline_off_cmd": "cd /repo && cargo test --workspace --no-fail-fast --offline",
            "source_commits": hooks_commits,
            "add_only": True,
        },
        "engines": [
            {"name": "lean-proof+correspondence", "path": "lean/ + harness/ + tools/",
             "serves_properties": sorted(CHECKS),
             "kind_free_text": "Lean 4 theorems about models of the code (lean/Glas), tied to /repo's working tree on every run by "
                               "translation (xlate/) and by model-vs-implementation correspondence through a line protocol (harness/, lean/Driver.lean)"}
        ],
        "checks": checks,
        "notes": "See DESIGN.md. All checks: ./check <ID> --tier quick|thorough; VERIF_SEED honoured.",
        "not_applicable": na,
    }
    json.dump(m, open(os.path.join(ROOT, "MANIFEST.json"), "w"), indent=1)
    print("checks:", [c["property_id"] for c in checks], "not yet:", [n["property_id"] for n in na])

if __name__ == "__main__":
    main()
