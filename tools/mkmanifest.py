#!/usr/bin/env python3
"""Regenerates /verif/MANIFEST.json from the table below (run after adding a check)."""
import json, os
ROOT = os.path.dirname(os.path.dirname(os.path.abspath(__file__)))

TB = ("Trusted base: Lean 4.33 kernel; axioms propext, Classical.choice, Quot.sound only (audited per theorem by #print axioms; "
      "no native_decide, no bv_decide, no sorry); the correspondence check (tools/*.py + harness/) that ties the hand model to "
      "the code; rustc. The source text of the hand-modelled functions is pinned (xlate/pins.spec, pins.expected): when one differs from the text its "
      "model was written from, the correspondence runs with three seeds and the evidence names the function. ")

SYN = ("Modelled, not verified: logos' derived automaton as longest match + rule priority + one-char error tokens (rule table, priorities, "
       "callback and skip flags are regenerated from kind.rs); rowan's GreenNodeBuilder as a stack of open nodes; the translator xlate "
       "(Rust/syn -> DSL) is validated on every run by the differential of the generated model against parse_module. ")

SCOPE = ("Modelled, not verified: parsing, HIR lowering (body.rs), salsa and the classification glue (semantics.rs) are exercised through "
         "the real Analysis API by the differential, not modelled; the model covers ExprScopes (scope.rs), Resolver::resolve_name / "
         "values_names_in_scope (resolver.rs) and the module value table. ")

CHECKS = {
 "C09": dict(
  technique="Lean 4 proofs: (1) the inference engine's union-find table is a correct partition structure (hook-tied model), (2) a checker of type assignments is sound for Gleam's typing rules of the core (certificate form of the property, C09_partial); a Lean transliteration of infer.rs (M-ty) is tied to the types glas displays, and the proved checker validates the model's, glas's and the generator's assignments on every generated program",
  text=("Part 1 (Props/C09UF.lean over Model/UnionFind.lean, a transliteration of ty/union_find.rs): find_spec, unify_spec (afterwards a and b share the returned "
        "root; equal classes stay equal; nothing else is merged; the merged class keeps the left value, the right one is handed back), push_spec, reachable_wf, "
        "get_total (get_mut().unwrap() cannot fail; find terminates within maxRank+1 steps). Tie: operation scripts on the real UnionFind (hook "
        "ide::verif_union_find_script) vs the model. Part 2 (Props/C09.lean): HasType / PatOk state Gleam's typing rules for the supported core (literals, "
        "operators, tuples and indexing, lists and spreads, Result/Bool/Nil, generic custom types, field access, labelled arguments in any order, lambdas, pipelines, "
        "case with several subjects, polymorphic calls); checkFn_sound: for EVERY program, assignment and fuel an assignment accepted by the checker types every "
        "function body under these rules with exactly the assigned binder types and source annotations. Model/Infer.lean (M-ty) transliterates InferCtx: table of type "
        "nodes, unify with label reordering, instantiation of annotations/schemes/constructors, expression/pattern/statement inference, group-wise inference, the "
        "Collector. C09_full states the property for M-ty at full strength (not proved); C09_partial is its certificate form (proved): whenever the checker accepts "
        "M-ty's assignment for a program, that assignment is a typing under Gleam's rules - and the driver evaluates the checker on M-ty's result for every generated "
        "program. Per run: a type-directed generator builds every expression against a chosen type (binder types known by construction; random item order, forward "
        "references, a recursion group, two modules, use, labelled calls in shuffled order); hover on every binder and function is compared with the expected type and "
        "with M-ty's result (tie), up to renaming of type variables; expected, displayed and modelled assignments are all validated by the proved checker (corrupted "
        "assignments are rejected). PARTIAL: soundness of unification-based inference itself is validated per program, not proved; two genuine defects were found and "
        "repaired (fix: b8d04b5, 09a39df)."),
  note=TB + "Modelled, not verified: Gleam's typing rules as stated in TySpec.lean (the specification); HIR lowering (body.rs) and name resolution are outside M-ty (the generator supplies resolved binder ids and the SCC grouping); the s-expression parser of the driver and the generator are glue outside the proved part.", ref="5.C09, 4.4"),
 "C16": dict(
  technique="Lean 4 deadlock-freedom / quiescence / store-stability proofs over a lock-choreography transition system whose programs are regenerated from server.rs and handler.rs + replay of the real server's lock traces on the model",
  text=("xlate extracts the sequence of lock operations of every main-loop method (document-store write guard, release, database write / "
        "cancellation, snapshot, spawn, calls) from server.rs and of every request handler (read guard, release, query) from handler.rs on every run. "
        "Theorems for ALL interleavings of the model (Props/C16.lean): deadlock_free and can_finish for every disciplined loop program, disciplined "
        "handlers and in-flight tasks (std RwLock modelled as writer-preferring; early exits of tasks allowed but never counted as progress); "
        "undisciplined_main_deadlocks / undisciplined_handler_deadlocks show both disciplines are needed; store_stable: when edits cancel and wait "
        "before writing the store, no task ever observes a store newer than its snapshot; glas_disciplined, glas_handlers_disciplined, "
        "glas_store_quiet are decided on the GENERATED programs. Diagnostics (Props/C16Diag.lean, model M-diag of spawn_update_diagnostics / "
        "on_update_diagnostics with flags regenerated from server.rs): for ANY interleaving of changes, finishing (or cancelled) calculations and "
        "delivered results, settles_on_last_version (once nothing runs and nothing is queued every open document shows the diagnostics of the last store "
        "version), shown_monotone, never_wrong, shown_le_version; three decided witnesses show what the repaired defects do to the model. Tie: the real server (feature verif: named yield points) writes the globally ordered "
        "trace of lock events; every trace is replayed on the model by the Lean driver and must be accepted. Oracle on the real binary over stdio "
        "(seeded batching; seeded delays at the yield points in 2/3 of the sessions): every request answered within 60 s, exactly once; the loop "
        "keeps accepting messages; a result equals the answer of a sequential run of the same messages (a result for the version the request was "
        "issued against); after quiescence the server's text equals the client's and the last diagnostics are those of the final text. Two genuine "
        "defects were found and repaired (fix: commits 783ac0f, 8a37619, f6bf60c). PARTIAL: real schedules are sampled; tokio, std RwLock and salsa are modelled by contract."),
  note=TB + "Modelled, not verified: tokio's scheduling, std::sync::RwLock (writer-preferring), salsa's write lock; branches and loops of the methods are flattened to straight-line programs (the trace replay skips what a run did not execute).", ref="5.C16, 4.6"),
 "C12": dict(
  technique="Lean 4 invariant proofs over a reader/writer/cancellation transition system whose flags are regenerated from ide/mod.rs + replay of real multi-threaded event logs on the model",
  text=("M-conc models salsa's contract (snapshot = revision it was taken at; a pending write makes older snapshots unwind at their next step; "
        "the write waits until every snapshot is dropped) and AnalysisHost on top of it; the flags cancel-before-apply, synthetic-write, "
        "Cancelled::catch, every-query-through-with_db and snapshot-is-db-snapshot are extracted by xlate from crates/ide/src/ide/mod.rs on every "
        "run and hostFlags_ok is decided on them. Theorems for ALL interleavings of the model: isolation (a reader that answers, answers from its "
        "snapshot's revision), no_crash, writer_progress (after beginApply one step of every reader enables the write, however long the queries), "
        "no_cancel_blocks (without cancellation the wait is unbounded), snapshot_after_write (Props/C12.lean). Tie: the harness runs one writer and "
        "1-8 reader threads on the real AnalysisHost under seeded yields/sleeps; the globally ordered event log is converted to a model schedule, "
        "run by the Lean driver, and the outcome (answered / cancelled per reader, final revision) must coincide; the oracle compares every answer "
        "with a sequential reference for the snapshot's own version, checks no panic, bounded apply latency against a 0.8 s cold query batch, and "
        "that later snapshots see the new workspace. PARTIAL: real interleavings are sampled, not enumerated; salsa is trusted. The readers' module contains deeply nested code and runs on the big module let the change arrive up to tenths of a second into a query (a cancelled long query must still end as Cancelled, never as a panic or an abort). LSP stage (oracle only): on a 1200-function module every request kind is sent "
        "together with a didChange in ONE write; the answer must be the quiescent answer before the change, the one after it, or an error - a definite null that neither workspace gives is a violation (the handlers' conversion of Cancelled)."),
  note=TB + "Modelled, not verified: salsa's runtime (revision counter, query lock, cancellation flag) by its documented contract; thread scheduling of the OS.", ref="5.C12, 4.6"),
 "C11": dict(
  technique="Lean 4 proof of history independence of the reachable database inputs (M-db) + tie on the inputs through a read-only hook + fresh-instance oracle",
  text=("apply_history_independent: after ANY sequence of changes (file contents, root lists that grow/shrink, graphs) the inputs reachable from "
        "the live roots (graph, roots, module maps, content and root of every live file) equal those of a database that received the final "
        "workspace in one change; content_last_write; moduleMap_of_root (Props/C11.lean). Tie: after every change of seeded histories the real "
        "database inputs (hook AnalysisHost::verif_inputs) are compared with the model's view; the answers of the long-lived host are compared "
        "with a fresh database in the same process and with another fresh one in a second process queried in reverse order. PARTIAL: salsa's "
        "memoisation is trusted and purity of the derived queries is tested, not proved - three genuine order/hash dependences are recorded "
        "(module-name collisions, type-variable letters, inference order inside ill-typed recursion groups). The same multi-package workspace (several dependencies exporting one module name) is analysed in several fresh processes and must give the same answers; histories contain qualifier-only edits and several writes of one file in one change. "
        "Query order, the collector's part (Props/C11Collect.lean on M-collect, tied to Collector::collect by the hook ide::verif_collect_script in C10's check): collect_is_unfolding / order_independent / "
        "collectAll_is_unfolding - on a table without cyclic types the answer for a variable is, up to the letters of type variables, the cache-free unfolding of the table, whatever the collector was asked before; "
        "with C10Collect.order_matters (a cyclic table where the order shows) this pins the recorded recursion-group finding to cycle cuts. A query-order family (ill-typed recursion groups without cyclic types, first question "
        "inside another member, edit histories) checks the implementation end to end."),
  note=TB + "Modelled, not verified: salsa inputs as association lists; durabilities are not modelled.", ref="5.C11, 4.5"),
 "C17": dict(
  technique="Lean 4 proofs about the path functions (M-project) + tie through the verif hooks on generated project trees + end-to-end through the binary",
  text=("M-graph (Model/Graph.lean: Server::assemble_graph as a depth-first walk over the manifests with the `seen` map) with assemble_inv / assemble_sound (Props/C17Graph.lean): for EVERY set of manifests, start and fuel, every edge of the assembled graph is a dependency its source package declares, both ends are registered packages and no package is registered twice; tied by the driver command `graph` to the graphs the real assemble_graph builds for the generated layouts (120 per quick run). "
        "moduleName_spec (<root>/<src|test>/<segs>/<n>.gleam is importable as segs/n), moduleName_other_ext, assignRoot_innermost / assignRoot_total "
        "(each file belongs to the innermost package root containing it), isLocal_iff (exactly build/packages/<name> is external), "
        "free_standing_none, projectParent_has_toml (Props/C17.lean); on the model of Package::visible_modules (M-imports): resolve_sound (an import reaches a module "
        "of that name of the importing package or of a direct dependency and nothing else), resolve_complete, transitive_invisible, own_wins, "
        "unique_candidate (Props/C17Imports.lean), tied to go-to-definition on every import of generated multi-package workspaces. Tie: project trees on disk (application, registry and path dependencies, nested "
        "module directories, equal module names, transitive edges, a free-standing file): module_name, find_gleam_project_parent, lower_vfs, "
        "assemble_graph through the verif wrappers vs the model vs the layout by construction; the real binary is asked for definitions across "
        "packages (direct dependencies resolve, transitive ones must not, externals are not renameable), in sessions with several package roots, with a dependency "
        "module opened first, with the manifest changed and re-read, and with dependency chains across graph rebuilds. PARTIAL: directory walking and TOML parsing "
        "are not modelled."),
  note=TB + "The filesystem enters the model as the set of directories that contain a gleam.toml.", ref="5.C17, 4.7"),
 "C15": dict(
  technique="Lean 4 proof on the message-level model M-server (step_total etc.) + message-by-message tie with the real binary over stdio; M-vfs-ids (FileId allocation of the document store) refined to a map, tied to the real Vfs by op histories",
  text=("M-vfs-ids (Props/C15Ids.lean): Vfs::set_path_content / remove_uri over a slab with a vacant chain and the path<->id table; for EVERY history reachable_inv (ids of loaded paths are distinct occupied slots), "
        "set_lookup_other / remove_lookup_other (an operation on one path leaves id and content of every other path untouched - no aliasing), refines_map (what the store holds for a path is what a map path -> content holds), "
        "ids_injective; tied by 2000 (thorough 40000) random histories run on the real Vfs (hooks remove_path / file_id_for_path) and on the model, ids and final table compared literally. "
        "On the model of the document handling of server.rs (didOpen / didChange with its per-change error path / didClose / position conversion "
        "of requests): fromPos_never_panics, applyChange_never_panics, step_total (no message crashes the server from any normalised store below "
        "the u32 size limit), step_normal, one_answer_per_request, unappliable_dropped (after a didChange the document is the result of ALL its "
        "changes or absent); session layer (which documents the editor holds open - didOpen / didClose; one FileEvent of didChangeWatchedFiles "
        "with the state of the file on disk as a parameter: regular / gone / unreadable; loading of a package's files): sstep_total and srun_total "
        "(no message and no file event crashes the server, along whole sessions), watched_open_untouched (the editor's text wins over the disk), "
        "close_keeps_text, vanished_forgotten + forgotten_harmless (a file that vanishes is forgotten; a change that still arrives for it is "
        "ignored and touches no other document, a request is answered with an error), changed_reread (Props/C15.lean). Tie: seeded sequences over the documents (package files, free-standing file, untitled:, never "
        "opened) with valid and invalid changes/positions are sent to the real binary; liveness after every message, one response per id, final "
        "texts read back through glas/syntaxTree, compared with the model's prediction and with an editor-side oracle; the rest of the registered surface "
        "(rename, ranged semantic tokens, formatting, didSave, didChangeConfiguration, notifications without a handler) is driven "
        "with the oracle only; file events (package files rewritten, deleted or merely announced while closed, never opened or held open; missing files; "
        "directories; non-file URIs) are part of the modelled grammar; scripted sessions: a document is edited, closed, its file vanishes, another "
        "change for it arrives and a never-seen document is opened. PARTIAL: OS, tokio and async-lsp behaviour is not modelled. Six genuine defects found and repaired (fix: commits)."),
  note=TB + "Modelled, not verified: the document store as an association list, package loading as `loaded` events for the on-disk files; the disk itself is a parameter of the events; requests are "
       "modelled only up to the position conversion.", ref="5.C15, 4.6"),
 "C03": dict(
  technique="Lean 4 locality theorems for top-level items over the xlate-generated parser model + damage oracle on the implementation",
  text=("item_suffix_local (the parse of an item depends on nothing before its first token: runs on pre++suf at |pre| and on suf at 0 agree, for "
        "any DSL program), item_prefix_det (it is determined by the tokens up to maxNth past the token it stops at), glas_lookahead (the generated "
        "parser looks at most 2 tokens ahead, decided on the regenerated program), and for the whole module loop C03_conditional: for a file "
        "pre ++ vic ++ post whose definition(s) vic are damaged into vic' (first three tokens kept), IF the loop over the damaged file, started "
        "at the victim, comes to stand exactly at the victim's end, THEN the damaged file is parsed into the very same items in front, whatever the "
        "victim has become, and behind it the items post parses into on its own, moved by the change of length (Props/C03.lean; parseSeg_append, "
        "parseSeg_shift, parseSeg_prefix). runMain_is_items (history independence of the interpreter, Lemmas/ItemsHist.lean + ItemsMain.lean: for every "
        "program whose main is `open root; while !eof { statement }; close root` - glas_mainShape decides that on the regenerated parser - every normally "
        "ending run parses exactly the items the item-wise loop finds from fresh states, its node events and errors are theirs in order; the events, "
        "errors, identities and call depth accumulated before an item cannot influence it, the look-ahead counter only towards the `parser is stuck` guard) "
        "and C03_module (the conditional theorem for the run itself: events and errors of the damaged file's run = root, the undamaged file's items in front, "
        "the victim's, post's own items, root). At the level of TREES (Lemmas/TreeItems.lean): runEvs_embed (frame rule of the tree builder: what a balanced event segment does from an empty builder it does, unchanged, inside any context), "
        "buildTree_forests, tree_is_items (for every normally ending run, and the shape of policy glas_policyShape decides for the regenerated build_tree, the syntax tree is the root with the leading tokens, then the FORESTS of the items - each "
        "built from the item's own events by an empty builder on the raw tokens the previous item left - then the trailing tokens) and C03_tree (under containment the damaged file's tree has, between leading and trailing tokens, the forests "
        "built from the very events of the undamaged file's items in front, the victim's, and those of post's own items). The item-wise view of the loop is additionally compared with the "
        "implementation's top-level nodes on ~600 damaged and undamaged files per run. Hence damage confined to one definition cannot "
        "change the others PROVIDED the damaged definition's parse stops at its own end; that containment is NOT proved (it is false on the "
        "current tree in 7 recovery sites, recorded as known findings) and is evaluated on the implementation: files of 2-4 reference-grammar "
        "definitions x victims x up to 1 (3 thorough) token edits from the non-opening classes, every other definition must keep kind and exact "
        "range and every error must lie in the victim. PARTIAL."),
  note=TB + SYN, ref="5.C03"),
 "C10": dict(
  technique="Lean 4 theorems for the parser part (C02) and for the collector that freezes (possibly cyclic) types (M-collect, tied to Collector::collect by a script hook) + exhaustive query sweep (exploration) on damaged workspaces",
  text=("Proved: the parser, first stage of every query, never fails a precondition assertion, never bumps past the end and terminates, on every "
        "token list (corollaries of C02's checker soundness, Props/C10.lean); parse_total: the model of parse_module returns a tree for every text "
        "unless the parser's own look-ahead guard fires (mark discipline + tree builder, Props/C02Marks.lean); parse_always: the guard cannot fire (C02_never_stuck), the first stage of every query returns a tree on EVERY text. Props/C10Collect.lean: collect_total / collectAll_total - "
        "Collector::collect (the placeholder written into the cache before descending is what keeps cyclic types, which occurs-check-free unification produces on half-typed code, finite) returns a type on EVERY "
        "well-formed table whose values mention only variables of the table, cyclic or not, from every collector state, with fuel table size + 1 (measure: classes not yet started); collect_caches / collect_again; "
        "order_matters (kernel-evaluated witness that the answer depends on the order of the requests - the mechanism of the recorded C11 finding). Tied to the code by the hook ide::verif_collect_script: 3000 (thorough 60000) random "
        "tables with cycles, merged classes and repeated requests, answers compared literally. Everything else after parsing (lowering, scopes, inference, salsa) is "
        "EXPLORED, not proved: every query (hover, go-to-definition, references, highlight, completion plain/./@, signature help, prepare-rename, "
        "rename, diagnostics, semantic highlighting, syntax tree) at every token boundary of every file of generated, damaged, truncated, "
        "duplicated, import-rewired (cycles, self-imports), degenerate and syntax-soup workspaces, each under catch_unwind, aborts isolated per "
        "process. PARTIAL; two genuine defects recorded (recursive type alias -> stack overflow, salsa cycle on cyclic imports), one repaired (fix: eb505dd)."),
  note=TB + "Stack overflow / non-termination are observed as a dead or hanging child process, not modelled.", ref="5.C10"),
 "C20": dict(
  technique="Lean 4 proof that node/token ranges of the parse tree are in bounds and on character boundaries + membership monitor on every reported range",
  text=("ranges_in_bounds, ranges_on_char_boundaries and C20_tree_ranges: whenever the model of parse_module returns a tree for a text, every node "
        "and token range lies in [0, len] and starts/ends on character boundaries of the text (uses C01_lossless) (Props/C20.lean). Monitor on the "
        "implementation (harness `sweep`): every range in every answer of every query at every token boundary must be a node or token range of the "
        "file it names (exactly a token for name-like results: definition focus, references, highlights, rename edits, prepare-rename, semantic "
        "highlights), inside the text, on character boundaries, in an existing file; the module target (0,0) is the documented empty range. Three "
        "genuine deviations recorded (focus range of constructors, fields, spread binders is a node, not the name token). The ranges as the server sends them (after conversion in the negotiated position encoding) are sliced in the editor's copy of the named document in sessions over three documents with different line tables."),
  note=TB + SYN + "That the analysis reports only tree ranges is monitored, not proved.", ref="5.C20"),
 "C06": dict(
  technique="Lean 4 proof of the search layer stated outright (M-search) instantiated with the implementation's own classification + inverse-view oracle",
  text=("refs_iff (membership in references characterised), refs_nodup, refs_closed (asking again from a listed occurrence gives the same set), "
        "highlight_iff (highlight = references in the file) and the gap lemma exact_iff: when the search name is the declared name and the search "
        "scope is complete, an occurrence is listed exactly when go-to-definition leads to the declaration (Props/C06.lean). Tie: the model (Lean "
        "driver `refs`) is fed the implementation's go-to-definition answer at every identifier token and must predict its references; the oracle "
        "compares references with go-to-definition for every token spelled with the declaration's name. One genuine defect recorded (spread binders). Also: constructed workspaces with known occurrence groups (fields used without importing the declaring module, references behind strings containing `//`, a module ending in an identifier behind multi-byte text, deep module paths, per-variant labels)."),
  note=TB + SCOPE + "classify (go-to-definition) is a parameter of the model, taken from the implementation.", ref="5.C06"),
 "C07": dict(
  technique="Lean 4 proofs of edit application, rename-back and alpha-renaming with a fresh name (M-scope) + re-analysis oracle on the implementation",
  text=("applyEdits_eq_rename (ascending disjoint edits applied to the text = token-level rename: only whole selected tokens change), edits_disjoint, "
        "rename_back, and alpha_fresh: renaming a local binder together with exactly its references to a fresh name leaves the binder of every "
        "occurrence unchanged under the environment semantics (Props/C07.lean). Oracle on the implementation: edits are whole identifier tokens "
        "spelled with the old name, equal to the references; after applying them every identifier resolves to the same (moved) declaration, syntax "
        "error counts are unchanged, renaming back restores the text. Module-level values (functions, constants, constructors, unqualified imports): "
        "alpha_fresh_module - with the module's value table as the outermost frame of the environment, respelling an entry and exactly the "
        "occurrences it captures leaves the binding of every occurrence of every function unchanged (locals that shadow the old name keep "
        "shadowing, the fresh name captures nothing); resolve_name_refines_module - the implementation's resolve_name (scope arena first, then the "
        "table) is that environment semantics at every occurrence; renFrame_modFrame. Types, fields and labels are covered by the oracle only (partial)."),
  note=TB + SCOPE, ref="5.C07"),
 "C08": dict(
  technique="Lean 4 decision of the rename table extracted by xlate from rename.rs (rename_accepts_iff) + exhaustive symbol-kind x name matrix",
  text=("xlate extracts, per Definition variant, the token class `rename` demands, and the locality / alias / single-token flags of rename, "
        "prepare_rename and find_def; rename_table_ok, rename_flags_ok, variants_classified are decided on the generated table and "
        "rename_accepts_iff states the decision outright (Props/C08.lean). Tie: every identifier token of a two-package workspace (local + "
        "build/packages dependency) x 36 candidate names, verdict compared with the property's table; prepare-rename vs existence of an accepted "
        "rename; no edit in dependency files; model lexer vs real lexer on the candidates. Two genuine defects were found and repaired (fix: commits "
        "99ebbbe, ea42aa3). End to end through the binary: the dependency stays external while gleam.toml is changed and re-read, and when a local package of the same name is opened first; the symbol's own name is tried as new name."),
  note=TB + "The extraction is structural (match arms, guards, flags by normalised-token search); the differential over the finite matrix validates it.",
  ref="5.C08"),
 "C05": dict(
  technique="Lean 4 refinement proof (scope arena vs environment semantics) over hand model M-scope + differential through go-to-definition",
  text=("scopes_refine_spec: for every function body, resolving a name through the arena of scopes with parent pointers built by the model of "
        "ExprScopes equals Gleam's rule stated as an environment-passing semantics (innermost binder, let/use invisible in their own initialiser, "
        "clause/lambda/block bindings do not escape), at every occurrence; local_shadows_module, module_before_builtin, toplevel_order_independent "
        "for the module value table (Props/C05.lean). Tie: model (Lean driver) vs real go-to-definition on generated multi-module workspaces with "
        "heavy shadowing; the generator's binding-by-construction is the oracle. Four genuine defects of the unchanged tree are recorded "
        "(guards, let with hole/literal pattern, qualified constants, import of a name that is both type and constructor). Qualified access "
        "through inference and type-namespace resolution are covered by the oracle only (partial). Occurrences known by construction (records across modules, modules 2-5 path segments deep, labels shared by some variants, prefix operators) must each lead to their declaration; the recorded findings' own inputs are replayed first."),
  note=TB + SCOPE, ref="5.C05, 4.3"),
 "C18": dict(
  technique="Lean 4 proof that the two code paths (values_names_in_scope, resolve_name) agree, over M-scope, and of what is offered after a dot (M-fields) + differential through completion",
  text=("holes_refine_spec: the local names offered at every expression position are exactly those visible under Gleam's rules, each denoting the "
        "innermost binder; completion_iff_resolvable: a name is offered iff resolve_name resolves it, to that very definition; completion_nodup; "
        "buildValues_keys_nodup (Props/C18.lean). Tie: model vs real completions at every value occurrence of generated workspaces (expected set "
        "by construction, replacement range = the identifier). After a dot (Props/C18Dot.lean over model M-fields of lower_custom_type's retain "
        "loop and complete_dot's filter): accessor_iff - a label is offered after `value.` exactly when the type has a constructor and every "
        "constructor declares it with one and the same type; accessors_nodup; moduleDot_iff - after `module.` exactly the public functions and "
        "the constructors of public types; private_never_offered. Tie: model vs completion triggered by `.` on generated record types (shared / "
        "partial / differently typed labels, generics, across modules) and modules (private types whose constructors are named like public types, "
        "constants, aliased and deep imports). Signatures are not proved; two genuine defects recorded (aliased imports rendered under the "
        "original name; value/type import clash)."),
  note=TB + SCOPE, ref="5.C18, 4.3"),
 "C01": dict(
  technique="Lean 4 proof over the xlate-generated parser/lexer/tree-builder model + differential against parse_module",
  text=("Generic Lean theorems for every DSL program and every text: the lexer tiles its input with non-empty tokens (lex_tiles), only bump "
        "moves the position and emits one Advance (exec_advances), a well-shaped main consumes every token (main_consumes_all), events are "
        "balanced, and the tree builder under a sound policy returns a tree whose leaves are the raw tokens (buildTree_lossless); the side "
        "conditions are decided on the GENERATED program and policy on every run (glas_mainShape, glas_policyOK, glas_rootStart, glas_noSkip), "
        "giving C01_lossless for the model of parse_module, with or without syntax errors (Props/C01.lean); C01_total (Props/C02Marks.lean): for "
        "EVERY text the model returns such a tree (the builder cannot fail, no node is left unfinished) unless the parser's own look-ahead guard "
        "fires; C01_always (Props/C02Stuck.lean, on top of C02_never_stuck - the look-ahead certificate checker of C02): the guard cannot fire, so for EVERY text the model of parse_module returns a tree "
        "whose leaves are exactly the lexer's tokens - no exception left. Tie: generated model vs parse_module on "
        "~10^5 inputs (exhaustive token-class sequences to length 3/4, corpus, prefixes, grammar-generated and mutated programs); the round-trip "
        "oracle is evaluated on the implementation."),
  note=TB + SYN, ref="5.C01, 4.1, Appendix A"),
 "C02": dict(
  technique="Lean 4 certificate checker with proved soundness, run by kernel evaluation on the xlate-generated parser program",
  text=("check : Prog -> Bool abstractly executes every grammar function (current-token sets, facts about locals, consumed-since flags, call "
        "summaries with ranks); check_sound_safe and check_sound_terminates are proved once for all programs; glas_checked evaluates the checker on "
        "the program regenerated from parser.rs (decide +kernel). Hence for every token list: no assert! fails, bump is never called at end of input, "
        "every loop iteration and recursion cycle consumes a token, fuel 746+745*len suffices (C02_safe, C02_terminates). PARTIAL: recursion depth is NOT bounded on the current tree (kernel-evaluated witness depth_witness in "
        "Props/C02Witness.lean, replayed on the implementation, listed in known_findings.json); the parser's own look-ahead guard (`parser is stuck`) fired on deep nesting "
        "(two recorded findings) until /repo fix e83622f (a finished node refills the budget; the model's `close` follows, stuck_repaired). THAT IT CAN NO LONGER FIRE AT ALL IS NOW PROVED: "
        "laCheck (Model/LaCheck.lean) is a third certificate checker - it pairs every abstract state of `check` (current-token sets, facts, consumed-since flags) with a bound on the "
        "look-ahead counter (`la <= entry + off` while nothing has been consumed since the procedure's entry, `la <= cst` afterwards), procedure summaries with high-water mark and exit bound, "
        "loops analysed from an inductive head bound; never_stuck_of_checkWith (Lemmas/LaSound.lean) proves for ALL programs that a program which passes never ends in `parser is stuck`; "
        "glas_la_checked evaluates it on the regenerated parser (the counter never exceeds 14 of 1024); C02_never_stuck, C02_always_ok: on EVERY token list the run ends normally with all nodes finished; "
        "C01_always: the model of parse_module returns a lossless tree for EVERY text (Props/C02La.lean, Props/C02Stuck.lean). Recursion depth (e): no constant bound exists on the current tree (recorded finding), but "
        "maxDepth_linear (Lemmas/DepthSound.lean, for all checked programs: along nested activations the potential rankBound*entry position + (rankBound - rank) strictly increases) and C02_depth_linear: on EVERY token list "
        "the run ends normally with at most 5*(tokens+1) activations open at once (glas_rankBound = 5 by kernel evaluation on the regenerated parser). The hand-written semantics of the DSL primitives (bump, nth, start/finish_node, expect, ...) are pinned to the source: "
        "xlate compares the token text of every primitive method of impl Parser with xlate/primitives.expected and refuses the translation otherwise. Mark discipline (Props/C02Marks.lean): a second "
        "certificate checker mcheck (live marks of each frame as a stack ordered by event position, opened/closed; start_node_before only on the "
        "topmost closed mark; exactly the topmost mark passed to a callee; nothing opened left at any exit) with mcheck_sound proved for all "
        "programs and glas_marks_checked evaluated on the regenerated program: no stale or empty mark is ever used, no node is left unfinished, "
        "no call hands back a value of the wrong shape. C02_total: on EVERY token list the run with linear fuel ends normally with all nodes "
        "finished or in the parser's own look-ahead guard - nothing else; C01_total: the tree builder never fails. C02_result_stable (via "
        "exec_fuel_mono): from that fuel on the outcome does not depend on the model fuel; modelFuel_ge_bound + driver_fuel_canonical: the fuel "
        "the model driver uses in the correspondence runs is above the bound, so what the driver prints IS the model's answer."),
  note=TB + SYN + "Not modelled: the Rust call stack (depth is observed in the model as a number; the abort is observed on the implementation).",
  ref="5.C02, Appendix A.2-A.5"),
 "C04": dict(
  technique="Lean 4 decision of the generated binding-power tables + reference-grammar oracle (translation validation for the rest)",
  text=("Proved (kernel decision on the tables regenerated from infix_bp/prefix_bp): infix operators are exactly Gleam's, all left-associative, "
        "levels ordered || < && < ==,!= < comparisons < <> < |> < additive < multiplicative, prefix operators tighter than any binary one, the "
        "no-assoc error cannot fire (Props/C04.lean). The rest of the grammar is validated, not proved: programs of a reference grammar "
        "(tools/gen_gleam.py) with the expected tree by construction, rendered with random legal trivia, compared with the implementation's tree; all "
        "operator pairs/triples against precedence climbing; generated DSL model vs implementation on the same programs."),
  note=TB + SYN + "The whole-grammar claim parse(print ast) = shape ast is checked by differential, not proved.",
  ref="5.C04"),
 "C13": dict(
  technique="Lean 4 proof over hand model M-text + exhaustive small-domain correspondence with the real Vfs/convert",
  text=("Lean theorems about the model of LineMap/from_range/change_file_content (lean/Glas/Model/Text.lean): a valid LSP position "
        "is converted to the byte offset of the same character, one ranged change yields the editor's text without CRs, and by "
        "induction any history of valid ranged/full changes keeps server text = stripCR(editor text) (Props/C13.lean; all sizes, "
        "all Unicode). The model is tied to the code on every run by running model and implementation on every document up to "
        "length 4 (5 thorough) over {a, LF, CRLF, 2-,3-,4-byte char} x all valid position pairs x all insertions up to length 2, "
        "a malformed-position stream, and seeded edit sequences; a Python LSP-client reference is the oracle."),
  note=TB + "Modelled, not verified: u32 arithmetic as checked, FxHashMap as a total map, String slicing as split at a char boundary; "
       "the on_did_change closure is re-enacted by the harness (from_range then change_file_content) - the real closure is exercised by the stdio tie of C15.",
  ref="5.C13, 4.2"),
 "C14": dict(
  technique="Lean 4 proof over hand model M-text + exhaustive small-domain correspondence with the real LineMap",
  text=("Lean theorems for every text and every character boundary: line_col_for_pos equals the LSP client's (line, UTF-16 column), "
        "pos_for_line_col inverts it, the conversion is strictly monotone, and to_range reports both ends as the client's positions "
        "(Props/C14.lean). Tie: model vs real LineMap on all documents up to length 5 (6 thorough) over {a, LF, CRLF, 2-,3-,4-byte} "
        "at every byte offset and every grid position, plus long random documents, one character per UTF-8 leader byte and unusual characters "
        "(byte order mark, LS/PS, NEL, NUL, ...); the line table kept after an incremental edit; Python client reference as oracle. End to end: a project of three "
        "open documents with different line tables, every range the server sends (definition, references, highlights, prepare-rename, rename "
        "edits) is sliced in the editor's own copy of the named document."),
  note=TB + "Modelled, not verified: u32 arithmetic as checked, partition_point as takeWhile on the sorted line starts, FxHashMap as a total map.",
  ref="5.C14, 4.2"),
 "C19": dict(
  technique="Lean 4 proof of the relative encoder over M-text + exhaustive correspondence; tagging half: Lean decision of the tag table extracted by xlate from semantic_highlighting.rs + differential on real highlights",
  text=("Lean theorems: for sorted, disjoint, single-line, boundary-aligned highlights the encoder never fails and the LSP decoding of "
        "its output is exactly (line, UTF-16 start, UTF-16 length, type), strictly increasing and inside the line (Props/C19.lean). Tie: "
        "model vs real to_semantic_tokens on all documents up to length 4 x all lists of <= 2 (3 thorough) highlights, plus malformed "
        "lists. Tagging half (Props/C19Tags.lean): xlate extracts the table of token_tag from semantic_highlighting.rs on every run (which "
        "Definition a name reference resolves to gives which tag, the tag of a function-typed local, the tag of a constructor's own name); "
        "glas_tag_table is decided on the regenerated table and tag_function_iff / tag_constructor_iff / tag_only_these state the decision "
        "outright: an identifier is tagged function exactly when it refers to a function or a function-typed local, constructor exactly when "
        "it refers to a constructor or is a constructor's name in its declaration, nothing else is tagged; module_never_tagged is the recorded "
        "finding. Tie: for every identifier of generated workspaces whose resolution is known by construction the model's tag must be the tag "
        "in the implementation's real highlight output; the name resolution itself is the subject of C05 (partial)."),
  note=TB + "Modelled, not verified: token type indices as numbers (order of SEMANTIC_TOKEN_TYPES), u32 subtraction as checked. The tagging "
       "half speaks about classify_node's answer, which is taken from the generator's construction (and from C05), not modelled here.",
  ref="5.C19, 4.2"),
}

def main():
    props = [json.loads(l) for l in open(os.path.join(ROOT, "properties.jsonl"))]
    hooks_commits = []
    try:
        hooks_commits = [l.strip() for l in open(os.path.join(ROOT, "hooks_commits.txt")) if l.strip()]
    except FileNotFoundError:
        pass
    checks, na = [], []
    for p in props:
        i = p["id"]
        if i in CHECKS:
            c = CHECKS[i]
            checks.append({
                "property_id": i,
                "quick_cmd": f"./check {i} --tier quick",
                "thorough_cmd": f"./check {i} --tier thorough",
                "evidence_file": f"evidence/{i}.json",
                "replay_cmd_template": f"./check {i} --replay {{path}}",
                "engine": "lean-proof+correspondence",
                "level_claimed": {"category": "proof", "text": c["text"], "design_ref": "DESIGN.md " + c["ref"]},
                "level_note": c["note"],
                "technique": c["technique"],
            })
        else:
            na.append({"property_id": i, "reason": "check not built yet (planned: Lean proof + correspondence, DESIGN.md section 5)"})
    m = {
        "version": 1,
        "setup_cmd": "./check --setup",
        "hooks": {
            "guard": "cargo feature `verif` on crate glas",
            "enable": "harness/Cargo.toml depends on glas with features = [\"verif\"]; checks run `cargo build --offline` in harness/",
            "baseline_off_cmd": "cd /repo && cargo test --workspace --no-fail-fast --offline",
            "source_commits": hooks_commits,
            "add_only": True,
        },
        "engines": [
            {"name": "lean-proof+correspondence", "path": "lean/ + harness/ + tools/",
             "serves_properties": sorted(CHECKS),
             "kind_free_text": "Lean 4 theorems about models of the code (lean/Glas), tied to /repo's working tree on every run by "
                               "translation (xlate/) and by model-vs-implementation correspondence through a line protocol (harness/, lean/Driver.lean)"}
        ],
        "checks": checks,
        "notes": ("See DESIGN.md. All checks: ./check <ID> --tier quick|thorough; VERIF_SEED honoured. Two-candidate rule (DESIGN.md 0.4b): a property is shown "
                  "when the model regenerated from the current source OR the committed model of the pinned source (xlate/baseline) is both proved and in "
                  "correspondence with the implementation; the evidence file names the candidate that carried the proof (coverage.translation)."),
        "not_applicable": na,
    }
    json.dump(m, open(os.path.join(ROOT, "MANIFEST.json"), "w"), indent=1)
    print("checks:", [c["property_id"] for c in checks], "not yet:", [n["property_id"] for n in na])

if __name__ == "__main__":
    main()
