#!/bin/bash
# Run every check's thorough tier from a `vp run --with-repo` snapshot (own copy of the repository in
# $VP_RUN_REPO), so that it does not interfere with work in /verif and /repo.  Not a registered command.
set -u
R=${VP_RUN_REPO:?needs vp run --with-repo}
sed -i "s|/repo/crates|$R/crates|g" harness/Cargo.toml
export VERIF_REPO=$R CARGO_NET_OFFLINE=true
./check --setup || exit 1
for p in "$@"; do
  VERIF_SEED=${VERIF_SEED:-1} timeout 7200 ./check $p --tier thorough 2>&1 | grep -E "VIOLATION|KNOWN-FINDING|^\[$p\]" | cut -c1-220
done
echo finished
