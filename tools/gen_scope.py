"""Scope-aware program generator (C05, C06, C07, C18, C20).
Builds multi-module workspaces from tiny name pools so that shadowing is the norm, and records, for
every identifier it emits, the declaration it is bound to BY CONSTRUCTION (the oracle), the byte
offset of every binder and occurrence, and for every function an abstract body term in the
S-expression syntax of the Lean driver command `scope` (the model side)."""
import random

VAL_NAMES = ["a", "b", "c", "x"]
FN_NAMES = ["f", "gg", "a", "x"]          # overlap with value names on purpose
CONST_NAMES = ["k", "c"]
TYPE_NAMES = ["T", "U"]
VARIANT_NAMES = ["A", "Bb", "T"]          # `T` both a type and a constructor: separate namespaces
MOD_NAMES = ["m1", "m2", "m3"]
LABELS = ["p", "q"]
BUILTINS = []                            # the prelude constructors are written capitalised; not used here


class Decl:
    """a module-level declaration"""
    def __init__(self, module, kind, name, pub):
        self.module, self.kind, self.name, self.pub = module, kind, name, pub
        self.offset = None      # byte offset of the declaring name token
        self.file = None
        self.parent = None      # for variants: the type decl
        self.fields = []        # for variants: list of (label or None)

    def key(self):
        return (self.module, self.kind, self.name)


class Emitter:
    def __init__(self):
        self.parts = []
        self.nbytes = 0

    def emit(self, s):
        self.parts.append(s)
        self.nbytes += len(s.encode("utf-8"))

    def pos(self):
        return self.nbytes

    def text(self):
        return "".join(self.parts)


class Occ:
    def __init__(self, oid, name, file, offset, expect, ns, func=None, in_body=True):
        self.id, self.name, self.file, self.offset = oid, name, file, offset
        self.expect = expect    # ('L', binder) | ('M', Decl) | ('MOD', module index) | None
        self.ns = ns            # 'value' | 'type' | 'module' | 'label'
        self.func = func        # index of the enclosing function in the module (for the model)
        self.in_body = in_body
        self.visible = None     # expected visible local+module value names at this point (C18)
        self.stream = "core"    # generator stream ('core', 'guard', ...)


class Binder:
    def __init__(self, pid, name, file, offset, kind):
        self.pid, self.name, self.file, self.offset, self.kind = pid, name, file, offset, kind
        self.is_fn = None       # True: bound to a lambda literal (function-typed local); None: unknown


class Module:
    def __init__(self, idx, name):
        self.idx, self.name = idx, name
        self.imports = []       # (target module idx, alias or None, [(name, alias, is_type)])
        self.decls = []
        self.funcs = []         # (Decl, sexpr string, [occ ids], [binder pids])
        self.text = ""
        self.path = ""


class Workspace:
    def __init__(self):
        self.modules = []
        self.occs = []
        self.binders = []
        self.files = []         # (path, text)


class ScopeGen:
    def __init__(self, rng, n_modules=None, guards=False, non_ascii=True):
        self.r = rng
        self.ws = Workspace()
        self.next_occ = 0
        self.next_pid = 0
        self.guards = guards
        self.non_ascii = non_ascii
        self.n_modules = n_modules or rng.choice([1, 2, 2, 3])
        self.stream_stack = []

    # ---------- module skeletons ----------
    def build(self):
        r = self.r
        ws = self.ws
        for i in range(self.n_modules):
            ws.modules.append(Module(i, MOD_NAMES[i]))
        # declarations first (so that imports can refer to them), then texts
        for m in ws.modules:
            used_vals, used_types = set(), set()
            for _ in range(r.randrange(1, 4)):
                n = r.choice(FN_NAMES)
                if n in used_vals:
                    continue
                used_vals.add(n)
                m.decls.append(Decl(m.idx, "fn", n, r.random() < 0.6))
            for _ in range(r.randrange(0, 2)):
                n = r.choice(CONST_NAMES)
                if n in used_vals:
                    continue
                used_vals.add(n)
                m.decls.append(Decl(m.idx, "const", n, r.random() < 0.6))
            for _ in range(r.randrange(0, 3)):
                n = r.choice(TYPE_NAMES)
                if n in used_types:
                    continue
                used_types.add(n)
                t = Decl(m.idx, "type", n, r.random() < 0.7)
                m.decls.append(t)
                for _ in range(r.randrange(1, 3)):
                    v = r.choice(VARIANT_NAMES)
                    if v in used_vals:
                        continue
                    used_vals.add(v)
                    d = Decl(m.idx, "variant", v, t.pub)
                    d.parent = t
                    d.fields = [r.choice([None, None] + LABELS) for _ in range(r.randrange(0, 3))]
                    # labels must be distinct
                    seen = set()
                    d.fields = [None if (f in seen or seen.add(f)) else f for f in d.fields]
                    m.decls.append(d)
        # imports: module i may import modules j != i (cycles are a separate, damaged stream)
        for m in ws.modules:
            for t in ws.modules:
                if t.idx >= m.idx or r.random() < 0.2:
                    continue
                alias = r.choice([None, None, "mm"]) if not any(i[1] == "mm" for i in m.imports) else None
                unq = []
                local_vals = {d.name for d in m.decls if d.kind in ("fn", "const", "variant")}
                local_types = {d.name for d in m.decls if d.kind == "type"}
                taken_v = set(local_vals) | {u[1] or u[0] for i in m.imports for u in i[2] if not u[2]}
                taken_t = set(local_types) | {u[1] or u[0] for i in m.imports for u in i[2] if u[2]}
                for d in t.decls:
                    if not d.pub or r.random() < 0.5:
                        continue
                    if d.kind == "type":
                        al = r.choice([None, None, "V"])
                        ln = al or d.name
                        if ln in taken_t:
                            continue
                        taken_t.add(ln)
                        unq.append((d.name, al, True, d))
                    else:
                        al = r.choice([None, None, "z"]) if d.kind != "variant" else r.choice([None, None, "Z"])
                        ln = al or d.name
                        if ln in taken_v:
                            continue
                        taken_v.add(ln)
                        unq.append((d.name, al, False, d))
                m.imports.append((t.idx, alias, unq))
                if r.random() < 0.15 and not any(i[1] == "dup" for i in m.imports):
                    # the same module once more under another name: both qualifiers are in scope
                    m.imports.append((t.idx, "dup", []))
        for m in ws.modules:
            self.render_module(m)
        return ws

    # ---------- environments ----------
    def module_values(self, m):
        """name -> Decl for the module's value namespace, in ModuleScope construction order
        (unqualified imports, functions, constants, variants; later insert wins)"""
        env = {}
        for (ti, alias, unq) in m.imports:
            for (name, al, is_type, d) in unq:
                if not is_type:
                    env[al or name] = d
        for d in m.decls:
            if d.kind == "fn":
                env[d.name] = d
        for d in m.decls:
            if d.kind == "const":
                env[d.name] = d
        for d in m.decls:
            if d.kind == "variant":
                env[d.name] = d
        return env

    def module_types(self, m):
        env = {}
        for (ti, alias, unq) in m.imports:
            for (name, al, is_type, d) in unq:
                if is_type:
                    env[al or name] = d
        for d in m.decls:
            if d.kind == "type":
                env[d.name] = d
        return env

    def accessors(self, m):
        return {(alias or self.ws.modules[ti].name): ti for (ti, alias, unq) in m.imports}

    # ---------- rendering ----------
    def new_occ(self, em, m, name, expect, ns, func=None, env=None, mvals=None):
        o = Occ(self.next_occ, name, m.idx, em.pos(), expect, ns, func)
        if self.stream_stack:
            o.stream = self.stream_stack[-1]
        self.next_occ += 1
        if env is not None:
            vis = {}
            for fr in env:
                for (n, b) in fr:
                    if n not in vis:
                        vis[n] = ("L", b.pid)
            for n, d in (mvals or {}).items():
                if n not in vis:
                    vis[n] = ("M", d.key())
            o.visible = vis
        self.ws.occs.append(o)
        em.emit(name)
        return o

    def new_binder(self, em, m, name, kind):
        b = Binder(self.next_pid, name, m.idx, em.pos(), kind)
        self.next_pid += 1
        self.ws.binders.append(b)
        em.emit(name)
        return b

    def render_module(self, m):
        r = self.r
        em = Emitter()
        if self.non_ascii and r.random() < 0.7:
            em.emit("// é💣 module " + m.name + "\n")
        for (ti, alias, unq) in m.imports:
            em.emit("import ")
            self.new_occ(em, m, self.ws.modules[ti].name, ("MOD", ti), "module")
            if unq:
                em.emit(".{")
                for i, (name, al, is_type, d) in enumerate(unq):
                    if i:
                        em.emit(", ")
                    if is_type:
                        em.emit("type ")
                    self.new_occ(em, m, name, ("M", d), "import-type" if is_type else "import-value")
                    if al:
                        em.emit(" as " + al)
                em.emit("}")
            if alias:
                em.emit(" as " + alias)
            em.emit("\n")
        mvals = self.module_values(m)
        mtypes = self.module_types(m)
        acc = self.accessors(m)
        order = list(m.decls)
        r.shuffle(order)          # top-level items are order-independent
        # keep variants with their types
        order = [d for d in order if d.kind != "variant"]
        m.render_order = order
        for d in order:
            if d.kind == "const":
                em.emit(("pub " if d.pub else "") + "const ")
                d.offset, d.file = em.pos(), m.idx
                em.emit(d.name + " = ")
                # some constants mention a constructor or a function of the module (locally declared ones only: what an
                # imported name means is the subject of the import streams)
                refs = [(n, dd) for n, dd in self.module_values(m).items()
                        if dd.module == m.idx and ((dd.kind == "variant" and not dd.fields) or dd.kind == "fn") and n != d.name]
                if refs and r.random() < 0.35:
                    n, dd = r.choice(refs)
                    em.emit("#(" + r.choice(["1", '"ß💣"']) + ", ")
                    self.new_occ(em, m, n, ("M", dd), "constructor" if dd.kind == "variant" else "value", None)
                    em.emit(")\n")
                else:
                    em.emit(r.choice(["1", '"s"', "2.5"]) + "\n")
            elif d.kind == "type":
                em.emit(("pub " if d.pub else "") + "type ")
                d.offset, d.file = em.pos(), m.idx
                em.emit(d.name + " {\n")
                for v in m.decls:
                    if v.kind == "variant" and v.parent is d:
                        em.emit("  ")
                        v.offset, v.file = em.pos(), m.idx
                        em.emit(v.name)
                        if v.fields:
                            em.emit("(")
                            for i, lab in enumerate(v.fields):
                                if i:
                                    em.emit(", ")
                                if lab:
                                    em.emit(lab + ": ")
                                em.emit("Int")
                            em.emit(")")
                        em.emit("\n")
                em.emit("}\n")
            elif d.kind == "fn":
                self.render_function(em, m, d, mvals, mtypes, acc)
        m.text = em.text()
        m.path = f"/w/p/src/{m.name}.gleam"

    def type_ref(self, em, m, mtypes, acc):
        """a type annotation; returns nothing (occurrences are recorded)"""
        r = self.r
        cands = list(mtypes.items())
        qual = [(a, ti, d) for a, ti in acc.items() for d in self.ws.modules[ti].decls if d.kind == "type" and d.pub]
        k = r.randrange(4)
        if k == 0 and cands:
            n, d = r.choice(cands)
            self.new_occ(em, m, n, ("M", d), "type")
        elif k == 1 and qual:
            a, ti, d = r.choice(qual)
            self.new_occ(em, m, a, ("MOD", ti), "module")
            em.emit(".")
            self.new_occ(em, m, d.name, ("M", d), "qualified-type")
        else:
            em.emit(r.choice(["Int", "String", "a"]))

    def render_function(self, em, m, d, mvals, mtypes, acc):
        r = self.r
        fidx = len(m.funcs)
        em.emit(("pub " if d.pub else "") + "fn ")
        d.offset, d.file = em.pos(), m.idx
        em.emit(d.name + "(")
        frame = []
        sx_params = []
        n_params = r.randrange(0, 3)
        used = set()
        for i in range(n_params):
            if i:
                em.emit(", ")
            n = r.choice(VAL_NAMES)
            if n in used:
                n = n + "2"
            used.add(n)
            b = self.new_binder(em, m, n, "param")
            frame.append((n, b))
            sx_params.append(f"(pvar {b.pid} {n})")
            if r.random() < 0.3:
                em.emit(": ")
                self.type_ref(em, m, mtypes, acc)
        em.emit(") ")
        ctx = dict(m=m, mvals=mvals, mtypes=mtypes, acc=acc, func=fidx, depth=0)
        em.emit("{\n")
        sx_body = self.block_body(em, ctx, [frame], indent="  ")
        em.emit("}\n")
        sx = f"(fn (params {' '.join(sx_params)}) {sx_body})"
        m.funcs.append((d, sx))

    # ----- statements / expressions: each returns the S-expression of the model term -----
    def block_body(self, em, ctx, env, indent):
        r = self.r
        n = r.randrange(1, 4)
        out = []
        env = list(env)
        for i in range(n):
            last = i + 1 == n
            em.emit(indent)
            k = r.randrange(6)
            if not last and k in (0, 1, 2):
                em.emit("let ")
                # the initialiser is written after the pattern but resolved in the OLD environment
                pat_em = Emitter()
                pat_em.nbytes = em.nbytes
                # render pattern first into the real emitter (source order), keep env unchanged for the value
                frame = []
                sx_p = self.pattern(em, ctx, frame, top=True)
                em.emit(" = ")
                # a hole or literal pattern is also an expression node: `StmtLet::body()` then returns the
                # pattern and the initialiser is never lowered (separate stream, known finding)
                wild = sx_p == "(pwild)"
                if wild:
                    self.stream_stack.append("let-wild")
                sx_e = self.expr(em, ctx, env, ctx["depth"] + 1)
                if wild:
                    self.stream_stack.pop()
                if sx_p.startswith("(pvar ") and sx_e.startswith("(lam ") and frame:
                    frame[-1][1].is_fn = True
                out.append(f"(let {sx_p} {sx_e})")
                env = [frame] + env
            elif not last and k == 3:
                em.emit("use ")
                frame = []
                pats = []
                for j in range(r.randrange(0, 3)):
                    if j:
                        em.emit(", ")
                    pats.append(self.pattern(em, ctx, frame, top=True, simple=True))
                em.emit(" <- ")
                sx_e = self.expr(em, ctx, env, ctx["depth"] + 1)
                out.append(f"(use (pats {' '.join(pats)}) {sx_e})")
                env = [frame] + env
            else:
                sx_e = self.expr(em, ctx, env, ctx["depth"] + 1)
                out.append(f"(expr {sx_e})")
            em.emit("\n")
        return "(block " + " ".join(out) + ")"

    def fresh_name(self, frame):
        n = self.r.choice(VAL_NAMES)
        taken = {x for x, _ in frame}
        while n in taken:
            n = n + "1"
        return n

    def pattern(self, em, ctx, frame, top=False, simple=False, depth=0):
        """renders a pattern, appends its binders to `frame` (source order), returns the model term"""
        r = self.r
        m = ctx["m"]
        k = r.randrange(3 if (simple or depth > 1) else 9)
        if k in (0, 1):
            n = self.fresh_name(frame)
            b = self.new_binder(em, m, n, "pattern")
            frame.append((n, b))
            return f"(pvar {b.pid} {n})"
        if k == 2:
            em.emit(r.choice(["_", "_y"]))
            return "(pwild)"
        if k == 3:
            em.emit(r.choice(["1", '"s"']))
            return "(pwild)"
        if k == 4:
            em.emit("#(")
            subs = []
            for j in range(r.randrange(1, 3)):
                if j:
                    em.emit(", ")
                subs.append(self.pattern(em, ctx, frame, depth=depth + 1))
            em.emit(")")
            return "(pnode " + " ".join(subs) + ")"
        if k == 5:
            em.emit("[")
            subs = []
            for j in range(r.randrange(0, 2)):
                if j:
                    em.emit(", ")
                subs.append(self.pattern(em, ctx, frame, depth=depth + 1))
            if r.random() < 0.5:
                if subs:
                    em.emit(", ")
                em.emit("..")
                if r.random() < 0.7:
                    n = self.fresh_name(frame)
                    b = self.new_binder(em, m, n, "spread")
                    frame.append((n, b))
                    subs.append(f"(pvar {b.pid} {n})")
                else:
                    subs.append("(pwild)")
            em.emit("]")
            return "(pnode " + " ".join(subs) + ")"
        if k in (6, 7):
            # constructor pattern (local variant or qualified)
            variants = [(n, d) for n, d in ctx["mvals"].items() if d.kind == "variant"]
            if not variants:
                em.emit("_")
                return "(pwild)"
            n, d = r.choice(variants)
            self.new_occ(em, m, n, ("M", d), "pattern-constructor", ctx["func"])
            subs = []
            if d.fields:
                em.emit("(")
                for j, lab in enumerate(d.fields):
                    if j:
                        em.emit(", ")
                    if lab and r.random() < 0.5:
                        o = Occ(self.next_occ, lab, m.idx, em.pos(), ("FIELD", d, lab), "label", ctx["func"])
                        self.next_occ += 1
                        self.ws.occs.append(o)
                        em.emit(lab + ": ")
                    subs.append(self.pattern(em, ctx, frame, depth=depth + 1))
                em.emit(")")
            return "(pnode " + " ".join(subs) + ")" if subs else "(pwild)"
        # as-pattern over a non-variable pattern
        em.emit("#(")
        sub = self.pattern(em, ctx, frame, depth=depth + 1, simple=True)
        em.emit(")")
        em.emit(" as ")
        n = self.fresh_name(frame)
        b = self.new_binder(em, m, n, "as")
        frame.append((n, b))
        return f"(pnode (pnode {sub}) (pvar {b.pid} {n}))"

    def lookup(self, env, ctx, name):
        for fr in env:
            for (n, b) in fr:
                if n == name:
                    return ("L", b)
        d = ctx["mvals"].get(name)
        if d is not None:
            return ("M", d)
        return None

    def var(self, em, ctx, env):
        r = self.r
        # prefer names that are bound somewhere (mostly-valid stream), sometimes unbound
        cands = [n for fr in env for (n, _) in fr] + [n for n, d in ctx["mvals"].items() if d.kind in ("fn", "const")]
        if cands and r.random() < 0.9:
            n = r.choice(cands)
        else:
            n = r.choice(VAL_NAMES + FN_NAMES)
        o = self.new_occ(em, ctx["m"], n, self.lookup(env, ctx, n), "value", ctx["func"], env, ctx["mvals"])
        return f"(var {o.id} {n})"

    def expr(self, em, ctx, env, depth):
        r = self.r
        m = ctx["m"]
        k = r.randrange(15 if depth < 4 else 4)
        if k in (0, 1, 2):
            return self.var(em, ctx, env)
        if k == 14:
            # a prefix operator over a name or over a call of names (the operand is not lowered on its own: the name
            # is resolved in the scope of the enclosing expression)
            # (only `!`: a `-` at the start of a statement would continue the previous expression as a subtraction)
            em.emit("!")
            f = self.var(em, ctx, env)
            if r.random() < 0.4:
                em.emit("(")
                args = []
                for j in range(r.randrange(0, 3)):
                    if j:
                        em.emit(", ")
                    args.append(self.var(em, ctx, env))
                em.emit(")")
                return f"(node (call {f} {' '.join(args)}))"
            return f"(node {f})"
        if k == 3:
            em.emit(r.choice(["1", '"s"', "2.5"]))
            return "(leaf)"
        if k == 4:
            a = self.expr(em, ctx, env, depth + 1)
            em.emit(" " + r.choice(["+", "==", "&&", "<>", "|>"]) + " ")
            b = self.expr(em, ctx, env, depth + 1)
            return f"(node {a} {b})"
        if k == 5:
            # call: callee written first, arguments traversed first by the implementation
            f = self.var(em, ctx, env)
            em.emit("(")
            args = []
            for j in range(r.randrange(0, 3)):
                if j:
                    em.emit(", ")
                args.append(self.expr(em, ctx, env, depth + 1))
            em.emit(")")
            return f"(call {f} {' '.join(args)})"
        if k == 6:
            em.emit("#(")
            es = []
            for j in range(r.randrange(1, 3)):
                if j:
                    em.emit(", ")
                es.append(self.expr(em, ctx, env, depth + 1))
            em.emit(")")
            return "(node " + " ".join(es) + ")"
        if k == 7:
            em.emit("[")
            es = []
            for j in range(r.randrange(0, 3)):
                if j:
                    em.emit(", ")
                es.append(self.expr(em, ctx, env, depth + 1))
            em.emit("]")
            return "(node " + " ".join(es) + ")" if es else "(leaf)"
        if k == 8:
            em.emit("{\n")
            c2 = dict(ctx, depth=depth)
            b = self.block_body(em, c2, env, indent="    ")
            em.emit("  }")
            return b
        if k == 9:
            em.emit("case ")
            ns = r.randrange(1, 3)
            subj = []
            for j in range(ns):
                if j:
                    em.emit(", ")
                subj.append(self.var(em, ctx, env) if r.random() < 0.7 else self.expr(em, ctx, env, depth + 2))
            em.emit(" {\n")
            clauses = []
            for _ in range(r.randrange(1, 3)):
                em.emit("    ")
                frame = []
                pats = []
                for j in range(ns):
                    if j:
                        em.emit(", ")
                    pats.append(self.pattern(em, ctx, frame, top=True))
                guard_sx = None
                if self.guards and r.random() < 0.4:
                    em.emit(" if ")
                    genv = [frame] + env
                    cands = [n for (n, _) in frame] or [n for fr in env for (n, _) in fr]
                    if cands:
                        n = r.choice(cands)
                        o = self.new_occ(em, m, n, self.lookup(genv, ctx, n), "value", ctx["func"])
                        o.stream = "guard"
                        em.emit(" == 1")
                    else:
                        em.emit("True")
                em.emit(" -> ")
                body = self.expr(em, ctx, [frame] + env, depth + 1)
                em.emit("\n")
                clauses.append(f"(clause (pats {' '.join(pats)}) {body})")
            em.emit("  }")
            return f"(case (subj {' '.join(subj)}) {' '.join(clauses)})"
        if k == 10:
            em.emit("fn(")
            frame = []
            ps = []
            for j in range(r.randrange(0, 3)):
                if j:
                    em.emit(", ")
                n = self.fresh_name(frame)
                b = self.new_binder(em, m, n, "lambda-param")
                frame.append((n, b))
                ps.append(f"(pvar {b.pid} {n})")
            em.emit(") {\n")
            c2 = dict(ctx, depth=depth)
            b = self.block_body(em, c2, [frame] + env, indent="    ")
            em.emit("  }")
            return f"(lam (params {' '.join(ps)}) {b})"
        if k == 11:
            # constructor, possibly applied
            variants = [(n, d) for n, d in ctx["mvals"].items() if d.kind == "variant"]
            if not variants:
                return self.var(em, ctx, env)
            n, d = r.choice(variants)
            self.new_occ(em, m, n, ("M", d), "constructor", ctx["func"])
            if d.fields:
                em.emit("(")
                args = []
                for j, lab in enumerate(d.fields):
                    if j:
                        em.emit(", ")
                    if lab and r.random() < 0.5:
                        o = Occ(self.next_occ, lab, m.idx, em.pos(), ("FIELD", d, lab), "label", ctx["func"])
                        self.next_occ += 1
                        self.ws.occs.append(o)
                        em.emit(lab + ": ")
                    args.append(self.expr(em, ctx, env, depth + 1))
                em.emit(")")
                return f"(call (leaf) {' '.join(args)})"
            return "(leaf)"
        if k == 12:
            # qualified value reference  accessor.name
            cands = [(a, ti, d) for a, ti in ctx["acc"].items() for d in self.ws.modules[ti].decls
                     if d.pub and d.kind in ("fn", "const", "variant")]
            # an accessor shadowed by a local of the same name is a separate question; avoid it here
            localnames = {n for fr in env for (n, _) in fr}
            cands = [c for c in cands if c[0] not in localnames]
            if not cands:
                return self.var(em, ctx, env)
            a, ti, d = r.choice(cands)
            self.new_occ(em, m, a, ("MOD", ti), "module", ctx["func"])
            em.emit(".")
            self.new_occ(em, m, d.name, ("M", d), "qualified-value", ctx["func"])
            if d.kind == "fn":
                em.emit("()")
            return "(leaf)" if d.kind != "fn" else "(call (node (leaf)) )"
        # field-free parenthesised tuple index
        e = self.expr(em, ctx, env, depth + 1)
        return e


# a second lexicon (one workspace in four): names that begin like one another, a value and a function called alike, a label
# called like a variable, a custom type called like a type of the prelude and like its own constructor, module names that
# are textual beginnings of each other
LEXICON2 = dict(VAL_NAMES=["item", "items", "it", "x1"], FN_NAMES=["map", "map2", "item", "x1"], CONST_NAMES=["limit", "lim"],
                TYPE_NAMES=["Result", "Res"], VARIANT_NAMES=["Ok2", "Res", "Result"], MOD_NAMES=["app", "app_core", "apps"],
                LABELS=["item", "it"])


def generate(seed, **kw):
    rng = random.Random(seed)
    lex = kw.pop("lexicon", None)
    if lex is None:
        lex = 2 if seed % 4 == 3 else 1
    saved = {}
    if lex == 2:
        for k, v in LEXICON2.items():
            saved[k] = list(globals()[k])
            globals()[k][:] = v
    try:
        g = ScopeGen(rng, **kw)
        ws = g.build()
    finally:
        for k, v in saved.items():
            globals()[k][:] = v
    ws.files = [(m.path, m.text) for m in ws.modules]
    ws.files.append(("/w/p/gleam.toml", 'name = "p"\n'))
    return ws
