"""C11: answers after any edit history equal a fresh analysis of the result; determinism.
Model: lean/Glas/Model/Db.lean (driver `db`), theorems lean/Glas/Props/C11.lean.
Tie: (1) the database inputs reachable after every prefix of a history (hook AnalysisHost::verif_inputs)
vs the model's view; (2) the answers of the long-lived host vs two fresh hosts (one in another process,
queried in reverse order) for the same workspace."""
import json, os, random
import common, gen_scope, p_syntax
from common import hexs, Broken


class Hist:
    def __init__(self, rng, collide=False):
        self.r = rng
        ws = gen_scope.generate(rng.randrange(1 << 30))
        self.files = []         # (path, text) ; index = file id
        for p, t in ws.files:
            self.files.append([p, t])
        self.live = list(range(len(self.files)))
        self.toml = len(self.files) - 1
        self.deps = False
        self.second_pkg = None
        self.collide = collide
        self.flip = False       # the second package's root is sent first
        if collide:
            # a module name claimed by two files of the same package: src/m1.gleam and test/m1.gleam
            self.files.append(["/w/p/test/m1.gleam", 'pub fn f() { "s" }\npub fn gg() { "s" }\npub fn a() { "s" }\npub fn x() { "s" }\n'])
            self.live.append(len(self.files) - 1)

    def roots_spec(self):
        main = [i for i in self.live if not self.files[i][0].startswith("/w/q/")]
        spec = ["/w/p|" + ",".join(f"{i}={self.files[i][0]}" for i in main)]
        other = [i for i in self.live if self.files[i][0].startswith("/w/q/")]
        if other:
            spec.append("/w/q|" + ",".join(f"{i}={self.files[i][0]}" for i in other))
        if self.flip:
            # the same roots in another order: a root's number is its position in the list (the server partitions the
            # files with a hash map, the order is whatever comes out)
            spec.reverse()
        return ";".join(spec)

    def graph_spec(self):
        pk = [f"p:{self.toml}:1:" + ("q" if (self.deps and self.second_pkg is not None) else "")]
        if self.second_pkg is not None:
            pk.append(f"q:{self.second_pkg}:1:")
        return ";".join(pk)

    def initial(self):
        return (self.graph_spec(), self.roots_spec(), ",".join(f"{i}:{hexs(t)}" for i, (p, t) in enumerate(self.files)))

    def snapshot(self):
        return (self.graph_spec(), self.roots_spec(), ",".join(f"{i}:{hexs(self.files[i][1])}" for i in sorted(set(self.live))))

    def step(self):
        """one more change; returns (g, r, f) specs"""
        r = self.r
        gle = [i for i in self.live if self.files[i][0].endswith(".gleam")]
        if gle and r.random() < 0.15:
            # an edit that changes nothing but a module qualifier (`m1.T` -> `m2.T`, same length: no position moves)
            import re as _re
            cands = [(i, m) for i in gle for m in _re.finditer(r"\b(m[1-3]|mm)\.(?=[A-Za-z_])", self.files[i][1])]
            if cands:
                i, m = r.choice(cands)
                q = r.choice([x for x in ("m1", "m2", "m3", "mm") if x != m.group(1)])
                t = self.files[i][1]
                self.files[i][1] = t[:m.start(1)] + q + t[m.end(1):]
                return ("none", "none", f"{i}:{hexs(self.files[i][1])}")
        k = r.randrange(10)
        if k < 5 and gle:
            i = r.choice(gle)
            t = self.files[i][1]
            for _ in range(r.randrange(1, 3)):
                t = p_syntax.mutate(r, t, p_syntax.CORE + ["gg", "Bb", "m1", "\n"])
            self.files[i][1] = t
            if r.random() < 0.3:
                # several writes of one file in one change (the server does this for every contentChanges item): the last one counts
                olds = [p_syntax.mutate(r, t, p_syntax.CORE + ["gg", "Bb", "\n"]) for _ in range(r.randrange(1, 3))]
                return ("none", "none", ",".join(f"{i}:{hexs(o)}" for o in olds) + f",{i}:{hexs(t)}")
            return ("none", "none", f"{i}:{hexs(t)}")
        if k == 5 and gle:
            i = r.choice(gle)
            t = gen_scope.generate(r.randrange(1 << 30)).files[0][1]
            self.files[i][1] = t
            if r.random() < 0.3:
                # several writes of one file in one change (the server does this for every contentChanges item): the last one counts
                olds = [p_syntax.mutate(r, t, p_syntax.CORE + ["gg", "Bb", "\n"]) for _ in range(r.randrange(1, 3))]
                return ("none", "none", ",".join(f"{i}:{hexs(o)}" for o in olds) + f",{i}:{hexs(t)}")
            return ("none", "none", f"{i}:{hexs(t)}")
        if k == 6 and gle:
            i = r.choice(gle)
            self.files[i][1] = ""
            return ("none", "none", f"{i}:-")
        if k == 7:
            # add a file (possibly a second package)
            if self.second_pkg is None and r.random() < 0.5:
                self.files.append(["/w/q/gleam.toml", 'name = "q"\n'])
                self.second_pkg = len(self.files) - 1
                self.files.append(["/w/q/src/m9.gleam", "pub fn far() { 1 }\n"])
                # a module of the second package that needs its sibling: its answers depend on the package's module map
                self.files.append(["/w/q/src/m8.gleam", "import m9\npub fn near() {\n  let x = m9.far()\n  x\n}\n"])
                new = [len(self.files) - 3, len(self.files) - 2, len(self.files) - 1]
            else:
                name = r.choice(["n1", "n2", "deep/n3"])
                path = f"/w/p/src/{name}.gleam"
                if any(self.files[i][0] == path for i in self.live):
                    return self.step()
                # the new module uses a public function of a module that is already there: answers about that function
                # (its references) change with the new module
                import re as _re
                body = "pub fn added() { 1 }\n"
                olds = [(self.files[i][0], m.group(1)) for i in self.live if self.files[i][0].startswith("/w/p/src/m")
                        for m in _re.finditer(r"(?m)^pub fn ([a-z][a-z0-9_]*)\(", self.files[i][1])]
                if olds:
                    op, fn = r.choice(olds)
                    mod = op[len("/w/p/src/"):-len(".gleam")]
                    body = f"import {mod}\n\npub fn added() {{\n  {mod.split('/')[-1]}.{fn}\n}}\n"
                self.files.append([path, body])
                new = [len(self.files) - 1]
                self.live += new
                # the way a server announces a new file of a known package: content and source roots - the package graph is not sent again
                return ("none" if r.random() < 0.6 else self.graph_spec(), self.roots_spec(), ",".join(f"{i}:{hexs(self.files[i][1])}" for i in new))
            self.live += new
            return (self.graph_spec(), self.roots_spec(), ",".join(f"{i}:{hexs(self.files[i][1])}" for i in new))
        if k == 8 and len(gle) > 1:
            # remove a file: out of the roots, content emptied (as Vfs::remove_uri does)
            i = r.choice(gle)
            self.live.remove(i)
            self.files[i][1] = ""
            return ("none", self.roots_spec(), f"{i}:-")
        if self.second_pkg is not None and r.random() < 0.5:
            # the roots are sent again in the other order (nothing else changes)
            self.flip = not self.flip
            return (self.graph_spec() if r.random() < 0.5 else "none", self.roots_spec(), "-")
        # dependency edge on/off
        self.deps = not self.deps
        return (self.graph_spec(), "none", "-")

    def queries(self, rng):
        qs = []
        for i in sorted(set(self.live)):
            p, t = self.files[i]
            if not p.endswith(".gleam"):
                continue
            qs.append(f"diag\t{i}")
            qs.append(f"sem\t{i}")
            n = len(t.encode())
            import re as _re
            quals = [len(t[:m.start() + 1].encode()) for m in _re.finditer(r"\.[a-z_A-Z]", t)][:3]
            for o in [rng.randrange(0, n + 1) for _ in range(4)] + quals:
                qs.append(f"goto\t{i}\t{o}")
                qs.append(f"hover\t{i}\t{o}")
                qs.append(f"refs\t{i}\t{o}")
        return qs

    def n_roots(self):
        return 2 if any(self.files[i][0].startswith("/w/q/") for i in self.live) else 1


def canon(a):
    """order-insensitive canonical form of an answer"""
    if a.startswith("PANIC"):
        return "PANIC"
    return ";".join(sorted(a.split(";")))


def alpha(a):
    """hover answers with generic type variables renamed in order of first occurrence"""
    import re
    parts = a.split(" ")
    if len(parts) != 2:
        return a
    try:
        text = common.unhexs(parts[1])
    except Exception:
        return a
    names = {}
    def ren(m):
        v = m.group(0)
        if v not in names:
            names[v] = f"t{len(names)}"
        return names[v]
    return parts[0] + " " + re.sub(r"(?<![\w.])[a-z](?![\w(])", ren, text)


def has_recursion_cycle(text):
    """do the functions of this module form a recursion cycle (by name occurrence in bodies)?"""
    import re
    heads = [(m.start(), m.group(1)) for m in re.finditer(r"(?m)^(?:pub )?fn ([a-z][_a-z0-9]*)", text)]
    bodies = {}
    for k, (pos, name) in enumerate(heads):
        end = heads[k + 1][0] if k + 1 < len(heads) else len(text)
        bodies[name] = text[pos + len(name) + 3:end]
    graph = {n: {m for m in bodies if re.search(r"\b" + re.escape(m) + r"\b", b)} for n, b in bodies.items()}
    def reach(a, seen):
        for b in graph.get(a, ()):
            if b not in seen:
                seen.add(b); reach(b, seen)
        return seen
    return any(n in reach(n, set()) for n in graph)


def classify(H, q, x, y, base, snap=None):
    """`snap`: the workspace at the step being compared (the history object holds the FINAL texts)"""
    texts = {}
    if snap:
        try:
            for kv in snap.split("\t")[2].split(","):
                fid, hx = kv.split(":")
                texts[int(fid)] = common.unhexs(hx)
        except Exception:
            texts = {}
    if H.collide:
        return "C11/module-name-collision"
    if q.startswith("hover"):
        fi = int(q.split("\t")[1])
        try:
            tx, ty = common.unhexs(x.split(" ")[1]), common.unhexs(y.split(" ")[1])
        except Exception:
            tx = ty = ""
        # the recorded finding: a CYCLIC type of an ill-typed recursion group is cut (shown as `?`) where the collector meets
        # the cycle first, and it walks the functions of the group in hash-map order.  Two differing types without a `?`
        # are another defect.  (The function hovered may be one of ANOTHER module of the workspace: `m1.f` from a module that imports m1.)
        if tx != ty and alpha(x) != alpha(y) and ("?" in tx or "?" in ty) and any(has_recursion_cycle(t) for t in ([texts.get(fi, H.files[fi][1])] + list(texts.values()))):
            return "C11/inference-order-in-recursion-group"
    if q.startswith("hover") and alpha(x) == alpha(y):
        return "C11/type-variable-names-depend-on-hash-order"
    return base + q.split("\t")[0]


def run_c11(res, tier, seed):
    rng = random.Random(seed)
    n_hist = 40 if tier == "quick" else 600
    steps = 6 if tier == "quick" else 10
    long_lines, fresh_lines, fresh2_lines, model_reqs = [], [], [], []
    plan = []       # per (history, step): indices into the streams
    hists = []
    for h in range(n_hist):
        H = Hist(random.Random(rng.randrange(1 << 30)), collide=(h % 10 == 9))
        hists.append(H)
        specs = [H.initial()]
        long_lines.append("hist-reset")
        long_lines.append("hist-change\t" + "\t".join(specs[0]))
        for s in range(steps):
            if s > 0:
                c = H.step()
                specs.append(c)
                long_lines.append("hist-change\t" + "\t".join(c))
            n = H.n_roots()
            qrng = random.Random(rng.randrange(1 << 30))
            qs = H.queries(qrng)
            li = len(long_lines)
            long_lines.append(f"inputs\t{n}")
            long_lines += qs
            snap = H.snapshot()
            fi = len(fresh_lines)
            fresh_lines += ["hist-reset", "hist-change\t" + "\t".join(snap), f"inputs\t{n}"] + qs
            f2 = len(fresh2_lines)
            fresh2_lines += ["hist-reset", "hist-change\t" + "\t".join(snap)] + list(reversed(qs))
            model_reqs.append("db\t" + " ".join("~".join(x) for x in specs) + f"\t{n}")
            plan.append((h, s, li, fi, f2, len(qs), "\t".join(snap)))
    outs = common.parallel_map(lambda ls: common.run_lines(common.HARNESS_BIN, ls), [long_lines, fresh_lines, fresh2_lines], workers=3)
    (lo, _), (fo, _), (f2o, _) = outs
    for name, ls, o in (("long-lived", long_lines, lo), ("fresh", fresh_lines, fo), ("fresh-2", fresh2_lines, f2o)):
        if len(o) != len(ls):
            raise Broken("implementation harness died", f"{name} stream: answered {len(o)} of {len(ls)}; next: {ls[len(o)][:200] if len(o) < len(ls) else ''}")
    mo, rc = common.run_lines(common.DRIVER_BIN, model_reqs)
    if len(mo) != len(model_reqs):
        raise Broken("Lean driver died", "on db requests")
    res.cov["evaluations"] += len(long_lines) + len(fresh_lines) + len(fresh2_lines) + len(model_reqs)
    distinct = 0
    for k, (h, s, li, fi, f2, nq, snap) in enumerate(plan):
        H = hists[h]
        inp_long, inp_fresh, inp_model = lo[li], fo[fi + 2], mo[k]
        if inp_long != inp_model:
            res.disagreements.append((model_reqs[k][:300], inp_long[:400], inp_model[:400]))
        if inp_long != inp_fresh and not inp_long.startswith("PANIC"):
            res.add_violation("C11/inputs-differ-from-fresh", f"history {h} step {s}: reachable inputs after the history differ from a fresh database",
                              {"history": model_reqs[k], "long": inp_long[:800], "fresh": inp_fresh[:800]})
        if s >= 2:
            distinct += 1
        for j in range(nq):
            q = long_lines[li + 1 + j]
            a_long = canon(lo[li + 1 + j])
            a_fresh = canon(fo[fi + 3 + j])
            a_fresh2 = canon(f2o[f2 + 2 + (nq - 1 - j)])
            if a_long != a_fresh:
                key = classify(H, q, a_long, a_fresh, "C11/stale-answer/", snap)
                res.add_violation(key, f"history {h} step {s}: `{q}` answers {a_long[:200]!r} after the history, {a_fresh[:200]!r} on a fresh analysis",
                                  {"history": model_reqs[k], "query": q, "snapshot": snap[:2000]})
                break
            if a_fresh != a_fresh2:
                key = classify(H, q, a_fresh, a_fresh2, "C11/nondeterministic/", snap)
                res.add_violation(key, f"history {h} step {s}: `{q}` answers {a_fresh[:200]!r} and {a_fresh2[:200]!r} in two fresh processes",
                                  {"history": model_reqs[k], "query": q, "snapshot": snap[:2000]})
                break
    res.cov["distinct_nontrivial"] = distinct
    res.cov["rule"] = (f"{n_hist} histories of {steps} changes over generated multi-module workspaces (character/token edits, whole-file replacement, "
                       "emptying, added files incl. a second package, removed files, dependency edge toggled), queries (diagnostics, semantic "
                       "highlighting, go-to-definition, hover, references at random offsets) after every change; compared with a fresh database "
                       "for the same workspace in the same process and in another process with the queries in reverse order; one history in ten "
                       "contains a module-name collision (separate stream). non-trivial = comparison after at least two changes")
    res.cov["samples"] += [{"history": model_reqs[1][:300], "inputs": lo[plan[1][2]][:300]}]


PROOF_MODULES = {"C11": ["Glas.Props.C11", "Glas.Props.C11Collect"]}


def run_multi_package_determinism(res, tier, seed):
    """the same multi-package workspace (several dependencies exporting a module of the same name) analysed in several
    fresh processes — every process has its own hash seeds — must give the same answers: which module an import reaches is
    a function of the inputs (the package graph and the module maps), not of the instance"""
    import p_project
    from p_ide import ws_lines
    rng = random.Random(seed * 13 + 11)
    batches, metas = p_project.gen_import_workspaces(rng, 20 if tier == "quick" else 300)
    lines = []
    spans = []
    for ws, qs in batches:
        lines += ws_lines(ws)
        spans.append((len(lines), len(qs)))
        lines += qs
    nproc = 4 if tier == "quick" else 8
    outs = common.parallel_map(lambda _: common.run_lines(common.HARNESS_BIN, lines), list(range(nproc)), workers=nproc)
    if any(len(o) != len(lines) for o, rc in outs):
        raise Broken("implementation harness died", "during the multi-package determinism stage")
    res.cov["evaluations"] += nproc * sum(n for _, n in spans)
    for (ws, qs), (a0, n), (pkgs, meta, files) in zip(batches, spans, metas):
        for j in range(n):
            answers = [o[a0 + j] for o, rc in outs]
            if len(set(answers)) > 1:
                k, q, fi = meta[j]
                res.add_violation("C11/import-target-differs-between-instances",
                                  f"`import {q}` in package pk{k} (dependencies {['pk%d' % d for d in pkgs[k][1]]}): {nproc} fresh analyses of the same inputs answer {sorted(set(answers))}",
                                  {"files": files, "packages": [{"name": nm, "deps": deps, "modules": entries} for (nm, deps, entries, toml) in pkgs], "query": qs[j], "answers": answers})
                return


def run_query_order(res, tier, seed):
    """the answers for one workspace do not depend on which query came FIRST: modules whose functions form a recursion group
    that does not type-check (one member passes an Int where another uses a String), without cyclic types - the inferred
    types then depend on the order in which the members are inferred, which must be a function of the text.  Every
    instance gets the same workspace and the same questions, but its first question is a hover inside the body of another
    member of the group (or a definition / references request there); one instance comes from an edit history (another text first)."""
    rng = random.Random(seed * 17 + 5)
    lits = [("1", '<> "s"'), ("1.5", "+ 1"), ('"s"', "+ 1"), ("True", "+. 1.0"), ("1", "&& True"), ('"s"', "-. 2.0")]
    jobs = []
    for k in range(12 if tier == "quick" else 150):
        n = rng.choice([2, 2, 3, 4])
        names = rng.sample(["f", "g", "hh", "step", "walk", "pong", "zig", "a1"], n)
        lit, use = rng.choice(lits)
        fns = []
        marks = []
        for i, nm in enumerate(names):
            nxt = names[(i + 1) % n]
            if i == 0:
                body = f"  {nxt}({lit})\n"
                head = f"fn {nm}() {{\n"
            else:
                call = f"{nxt}()" if (i + 1) % n == 0 else f"{nxt}(x)"
                body = f"  {call}\n  x {use}\n"
                head = f"fn {nm}(x) {{\n"
            fns.append(("pub " if rng.random() < 0.3 else "") + head + body + "}\n")
        order = list(range(n))
        if rng.random() < 0.5:
            rng.shuffle(order)      # the member that passes the literal is not always the first in the text
        text = "".join(fns[i] for i in order)
        other = "fn a() { 1 }\nfn b(y) { y }\nfn c(z) { z }\nfn d(w) { w }\n"
        import re as _re
        qoffs = [m.start(1) for m in _re.finditer(r"fn ([a-z0-9]+)", text)] + [m.start(1) for m in _re.finditer(r"\n  ([a-z0-9]+)\(", text)] + [m.start() + 1 for m in _re.finditer(r"\(x\)", text)]
        Q = [f"hover\t0\t{o}" for o in qoffs]
        bodies = [m.start() + 3 for m in _re.finditer(r"\n  x ", text)] + [m.start(1) for m in _re.finditer(r"\n  ([a-z0-9]+)\(", text)]
        toml = hexs('name = "p"\n')
        def change(t):
            return f"hist-change\tp:1:1:\t/w/p|0=/w/p/src/m1.gleam,1=/w/p/gleam.toml\t0:{hexs(t)},1:{toml}"
        variants = [("no other question", ["hist-reset", change(text)], [])]
        for b in bodies:
            for kind in ("hover", "goto", "refs"):
                variants.append((f"first question: {kind} at offset {b}", ["hist-reset", change(text)], [f"{kind}\t0\t{b}"]))
        variants.append(("first question: diagnostics and highlighting", ["hist-reset", change(text)], ["diag\t0", "sem\t0"]))
        ob = [m.start() + 2 for m in _re.finditer(r"\{ [yzw] \}", other)]
        for o in ob:
            variants.append((f"history: another text first, hover at {o} there, then the text replaced",
                             ["hist-reset", change(other), f"hover\t0\t{o}", f"hist-change\tnone\tnone\t0:{hexs(text)}"], []))
        jobs.append((text, Q, variants))
    lines, plan = [], []
    for text, Q, variants in jobs:
        for what, pre, first in variants:
            lines += pre + first
            plan.append((len(lines), what))
            lines += Q
    out, rc = common.run_lines(common.HARNESS_BIN, lines)
    if len(out) != len(lines):
        raise Broken("implementation harness died", "during the query-order stage")
    res.cov["evaluations"] += len(lines)
    res.cov["query_order"] = f"{len(jobs)} ill-typed recursion groups, {len(plan)} instances"
    pi = 0
    for text, Q, variants in jobs:
        ref = None
        for what, pre, first in variants:
            at, _ = plan[pi]; pi += 1
            ans = [canon(a) for a in out[at:at + len(Q)]]
            if ref is None:
                ref = ans
            elif ans != ref:
                j = next(i for i in range(len(Q)) if ans[i] != ref[i])
                def txt(a):
                    try:
                        return common.unhexs(a.split(" ")[1]).replace("\n", " ").replace("```gleam", "").replace("```", "").replace("___", "").strip()
                    except Exception:
                        return a[:80]
                if alpha(ans[j]) == alpha(ref[j]):
                    # the recorded finding: the letters of generic type variables depend on hash order; go on to the next difference
                    diffs = [i for i in range(len(Q)) if alpha(ans[i]) != alpha(ref[i])]
                    if not diffs:
                        res.add_violation("C11/type-variable-names-depend-on-hash-order", f"`{Q[j]}` answers {txt(ref[j])!r} and {txt(ans[j])!r} on the same workspace ({what})",
                                          {"text": text, "query": Q[j], "instance": what})
                        continue
                    j = diffs[0]
                if "?" in txt(ans[j]) or "?" in txt(ref[j]):
                    key = "C11/inference-order-in-recursion-group"
                else:
                    key = "C11/answer-depends-on-first-question"
                res.add_violation(key, f"`{Q[j]}` answers {txt(ref[j])!r} on a fresh analysis and {txt(ans[j])!r} on the same workspace with {what}",
                                  {"text": text, "query": Q[j], "instance": what, "lines": pre + first + Q})
                break


def run(prop, res, tier, seed):
    res.assumptions += ["salsa (memoisation, revisions, durability) is trusted; only the input layer (Change::apply) is modelled",
                        "queries are pure functions of the inputs they can reach: checked by comparison with fresh databases, not proved"]
    try:
        res.extra.update(common.prove(prop, PROOF_MODULES[prop]))
    except Broken as b:
        res.add_broken(b.what, b.detail)
    run_c11(res, tier, seed)
    run_multi_package_determinism(res, tier, seed)
    run_query_order(res, tier, seed)
    # the tie of M-collect (the order-independence theorems of Props/C11Collect.lean speak about it) to Collector::collect
    import p_sweep
    n_dis = len(res.disagreements)
    p_sweep.run_collect(res, tier, seed)
    if len(res.disagreements) > n_dis:
        rq, a, b = res.disagreements[n_dis]
        res.add_broken("correspondence model-vs-implementation (M-collect vs Collector::collect through ide::verif_collect_script)",
                       f"{len(res.disagreements) - n_dis} disagreeing cases; first: {rq} impl={a!r} model={b!r}")
        del res.disagreements[n_dis:]
    if res.disagreements:
        rq, a, b = res.disagreements[0]
        res.add_broken("correspondence model-vs-implementation (M-db vs AnalysisHost::verif_inputs)",
                       f"{len(res.disagreements)} disagreeing cases; first: {rq} impl={a!r} model={b!r}")


def replay(prop, path):
    print(open(path).read()[:4000])
    return 0
