#!/bin/bash
# usage: seedtest.sh <patch.diff> <prop> [<prop>...] : apply to /repo, run the quick checks, undo.
# The evidence files describe runs on the unchanged tree only: they are saved before and restored afterwards.
set -u
patch=$1; shift
cd /repo || exit 2
if [ -n "$(git status --porcelain)" ]; then echo "/repo has uncommitted changes: commit them first"; exit 2; fi
git apply "$patch" || { echo "patch does not apply"; exit 2; }
save=/verif/work/evidence.save.$$
mkdir -p /verif/work; rm -rf $save; cp -r /verif/evidence $save
for p in "$@"; do
  ( cd /verif && timeout 1800 ./check $p --tier quick 2>&1 | grep -E "VIOLATION|^\[$p\]" | head -4 )
done
git -C /repo checkout -- . 
git -C /repo status --short | head -3
cp $save/*.json /verif/evidence/ && rm -rf $save
