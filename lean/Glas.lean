import Glas.Model.Text
import Glas.Model.Proto
import Glas.Model.TextCmd
