import Glas.Model.Text
import Glas.Model.Proto
import Glas.Model.TextCmd
import Glas.Model.Dsl
import Glas.Model.Tree
import Glas.Model.Lexer
