import Glas.Model.Check
import Glas.Gen.Parser
import Glas.Lemmas.CheckSound
/-!
# C02 — parsing terminates without panic on every input

`Glas.Check.check` (`Glas/Model/Check.lean`) is an executable certificate checker for programs of the
parser DSL; its soundness is proved once and for all (`check_sound_safe`, `check_sound_terminates`), and
the generated program `glasProg` is checked by kernel evaluation (`glas_checked`).

* `C02_safe`: for every token list and every amount of model fuel, the run neither bumps at end of input
  nor fails an `assert!`.
* `C02_terminates`: with the explicit fuel `bound glasProg toks.length` (linear in the number of tokens) the
  run does not exhaust the model fuel: every loop iteration and every recursion cycle of the parser
  consumes a token, so the parser terminates (with a result, or with one of its own panics
  `stuck`/`markMisuse`/`leak`, which are the subject of other properties).
-/
namespace Glas.Props.C02
open Glas.Dsl Glas.Check Glas.Gen

/-- the generated parser passes the checker (kernel evaluation; includes the untrusted summary
inference `infer`, whose result is validated by `checkWith`) -/
theorem glas_checked : check glasProg = true := by decide +kernel

/-- generic soundness, safety: a checked program never bumps at end of input and never fails an
`assert!`, on any token list, with any amount of model fuel -/
theorem check_sound_safe (P : Prog) (h : check P = true) (n : Nat) (toks : List Kind) :
    (∀ σ, runMain P n toks ≠ .panic .bumpAtEof σ) ∧ (∀ σ, runMain P n toks ≠ .panic .assertFailed σ) :=
  safe_of_checkWith (Γ := infer P) h n toks

/-- generic soundness, termination: a checked program never exhausts the fuel `bound P toks.length` -/
theorem check_sound_terminates (P : Prog) (h : check P = true) (toks : List Kind) :
    runMain P (bound P toks.length) toks ≠ .oof :=
  terminates_of_checkWith (Γ := infer P) h toks

/-- (a), (b): for every token list and every amount of model fuel, the run never fails an `assert!` and
never bumps at end of input -/
theorem C02_safe (n : Nat) (toks : List Kind) :
    (∀ σ, runMain glasProg n toks ≠ .panic .bumpAtEof σ) ∧
      (∀ σ, runMain glasProg n toks ≠ .panic .assertFailed σ) :=
  check_sound_safe glasProg glas_checked n toks

/-- (c): every loop iteration and every recursion cycle consumes a token: with fuel
`bound glasProg toks.length` the model never runs out of fuel -/
theorem C02_terminates (toks : List Kind) : runMain glasProg (bound glasProg toks.length) toks ≠ .oof :=
  check_sound_terminates glasProg glas_checked toks

/-- the bound is linear in the number of tokens: `2 + S + len * C + R * S` with the constants computed from
the program (`S` = 1 + largest body, `R` = 1 + largest rank, `C = 1 + S + R * S`) -/
theorem bound_eq (P : Prog) (len : Nat) :
    bound P len = 2 + bodyBound P + len * tokCost (infer P) P + rankBound (infer P) * bodyBound P := rfl

/-! ## non-vacuity -/

/-- `fn f() { 1 }` parses -/
example : (match runMain glasProg 5000 [K_FN_KW, K_IDENT, K_L_PAREN, K_R_PAREN, K_L_BRACE, K_INTEGER, K_R_BRACE] with
    | .ok _ => true | _ => false) = true := by decide +kernel

/-- the same run with the fuel of `C02_terminates` -/
example : (match runMain glasProg (bound glasProg 7) [K_FN_KW, K_IDENT, K_L_PAREN, K_R_PAREN, K_L_BRACE, K_INTEGER, K_R_BRACE] with
    | .ok _ => true | _ => false) = true := by decide +kernel

/-- the empty input parses -/
example : (match runMain glasProg 100 [] with | .ok _ => true | _ => false) = true := by
  decide +kernel

/-- garbage (including the end-of-input kind used as a token, and an unknown kind) terminates -/
example : (match runMain glasProg 5000 [K_R_BRACE, K_EOF, 999, K_PUB_KW, K_AT, K_CASE_KW] with
    | .oof => false | _ => true) = true := by decide +kernel

/-- the checker is not trivially `true`: it refuses an unguarded `bump` … -/
example : check { procs := [{ name := "m", nLocals := 0, nMarks := 0, body := .bump }], tables := [],
                  fuel := 8, eofKind := 0, errorKind := 1, main := 0 } = false := by decide +kernel

/-- … a loop iteration that may consume nothing … -/
example : check { procs := [{ name := "m", nLocals := 0, nMarks := 0,
                              body := .loop (.ite (.eq (.nth 0) (.lit 5)) .bump (.ite .eof .brk .skip)) }],
                  tables := [], fuel := 8, eofKind := 0, errorKind := 1, main := 0 } = false := by decide +kernel

/-- … a recursion that consumes nothing … -/
example : check { procs := [{ name := "m", nLocals := 0, nMarks := 0,
                              body := .ite .eof .skip (.call 0 [] [] .none) }],
                  tables := [], fuel := 8, eofKind := 0, errorKind := 1, main := 0 } = false := by decide +kernel

/-- … and an `assert!` the call site does not establish; while it accepts the guarded versions -/
example : check { procs := [{ name := "m", nLocals := 0, nMarks := 0, body := .call 1 [] [] .none },
                            { name := "f", nLocals := 0, nMarks := 0,
                              body := .seq (.assert (.eq (.nth 0) (.lit 5))) .bump }],
                  tables := [], fuel := 8, eofKind := 0, errorKind := 1, main := 0 } = false := by decide +kernel

example : check { procs := [{ name := "m", nLocals := 0, nMarks := 0,
                              body := .loop (.ite (.eq (.nth 0) (.lit 5)) (.call 1 [] [] .none)
                                              (.ite .eof .brk .bump)) },
                            { name := "f", nLocals := 0, nMarks := 0,
                              body := .seq (.assert (.eq (.nth 0) (.lit 5))) .bump }],
                  tables := [], fuel := 8, eofKind := 0, errorKind := 1, main := 0 } = true := by decide +kernel

end Glas.Props.C02
