import Glas.Lemmas.Text
import Glas.Lemmas.TextPos
import Glas.Model.TextSpec
/-!
# C14 — positions mean the same thing to the server and to an LSP client

Theorems about `Glas.Text.lineMap` (model of `LineMap::normalize`), `lineColForPos`,
`posForLineCol`, `toRange`; for every text, every character boundary, every pair.
-/
namespace Glas.Props.C14
open Glas.Text

/-- the `(line, column)` the server reports for the byte offset of a character boundary is the
one an LSP client computes for that character -/
theorem lineCol_eq_client (t : List Char) (k : Nat) (hk : k ≤ t.length) :
    (lineMap t).lineColForPos (u8sum (t.take k)) = some (clientLineCol t k) := by
  have _ := hk
  exact lineColForPos_client t k

/-- offset → position → offset is the identity on character boundaries -/
theorem roundtrip (t : List Char) (k : Nat) (hk : k ≤ t.length) (hlen : u8sum t < U32) :
    (lineMap t).posForLineCol (clientLineCol t k).1 (clientLineCol t k).2
      = some (u8sum (t.take k)) := by
  have _ := hk
  exact posForLineCol_client t k hlen

/-- the conversion is strictly monotone -/
theorem strict_mono (t : List Char) (j k : Nat) (hjk : j < k) (hk : k ≤ t.length) :
    posLt (clientLineCol t j) (clientLineCol t k) := by
  exact clientLineCol_strict_mono t j k hjk hk

/-- the client resolves the reported position back to the same character -/
theorem client_resolves (t : List Char) (k : Nat) (hk : k ≤ t.length) :
    clientOffset t (clientLineCol t k) = some k := by
  exact clientOffset_clientLineCol t k hk

/-- every range the server sends selects in the client's document exactly the characters the
server meant: both ends are reported as the client's positions of the same characters -/
theorem toRange_selects (t : List Char) (j k : Nat) (hjk : j ≤ k) (hk : k ≤ t.length) :
    (lineMap t).toRange (u8sum (t.take j)) (u8sum (t.take k))
      = some (clientLineCol t j, clientLineCol t k) ∧
    clientOffset t (clientLineCol t j) = some j ∧ clientOffset t (clientLineCol t k) = some k := by
  have hj : j ≤ t.length := by omega
  refine ⟨?_, clientOffset_clientLineCol t j hj, clientOffset_clientLineCol t k hk⟩
  unfold LineMap.toRange
  rw [lineCol_eq_client t j hj, lineCol_eq_client t k hk]

/-- non-vacuity: a two-line text with 2-, 3- and 4-byte characters -/
example : (lineMap "aß\nℝ💣b".toList).lineColForPos 11 = some (1, 3) := by decide

end Glas.Props.C14
