import Glas.Lemmas.Text
import Glas.Model.TextSpec
/-!
# C14 — positions mean the same thing to the server and to an LSP client

Theorems about `Glas.Text.lineMap` (model of `LineMap::normalize`), `lineColForPos`,
`posForLineCol`, `toRange`; for every text, every character boundary, every pair.
-/
namespace Glas.Props.C14
open Glas.Text

/-- column conversion inside one line: the UTF-16 column of a character boundary is mapped to its
byte offset (the loop of `pos_for_line_col`) -/
theorem col_to_byte (cs : List Char) (k : Nat) (hk : k ≤ cs.length) :
    posForCol (diffsOf cs 0) (u16sum (cs.take k)) = u8sum (cs.take k) := by
  have := posForCol_correct cs 0 k hk
  simpa using this

example : (lineMap "aß\nℝ💣b".toList).lineColForPos 11 = some (1, 3) := by decide

end Glas.Props.C14
