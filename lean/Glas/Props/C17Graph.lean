import Glas.Model.Graph
/-!
# C17 — the package graph: every edge is a declared dependency, every package is registered once

`Server::assemble_graph` (M-graph, `Glas/Model/Graph.lean`).  For every set of manifests, every starting package and
every fuel: the assembled graph has no edge that the source package's manifest does not declare ("imports resolve to
modules of the own package or its direct dependencies - and to nothing else" rests on this), both ends of every edge
are registered packages, and no package is registered twice (however many packages depend on it, in whatever order).
-/
namespace Glas.Props.C17Graph
open Glas.Graph

structure Inv (disk : Disk) (g : G) : Prop where
  declared : ∀ p d, (p, d) ∈ g.edges → d ∈ declared disk p
  nodup : g.nodes.Nodup
  ends : ∀ p d, (p, d) ∈ g.edges → p ∈ g.nodes ∧ d ∈ g.nodes

theorem inv_empty (disk : Disk) : Inv disk empty :=
  ⟨fun p d h => (by cases h), List.nodup_nil, fun p d h => (by cases h)⟩

theorem Inv.register {disk : Disk} {g : G} (h : Inv disk g) (n : Nat) :
    Inv disk (g.register n) ∧ n ∈ (g.register n).nodes ∧ (∀ x ∈ g.nodes, x ∈ (g.register n).nodes) := by
  unfold G.register
  by_cases hn : n ∈ g.nodes
  · rw [if_pos hn]; exact ⟨h, hn, fun x hx => hx⟩
  · rw [if_neg hn]
    refine ⟨⟨h.declared, ?_, ?_⟩, by simp, fun x hx => by simp [hx]⟩
    · simp only []
      rw [List.nodup_append]
      exact ⟨h.nodup, by simp, fun a ha b hb => by
        simp only [List.mem_singleton] at hb; subst hb; intro hab; subst hab; exact hn ha⟩
    · intro p d hpd
      have := h.ends p d hpd
      simp only [List.mem_append]
      exact ⟨Or.inl this.1, Or.inl this.2⟩

theorem Inv.addDep {disk : Disk} {g : G} (h : Inv disk g) {p d : Nat} (hp : p ∈ g.nodes) (hd : d ∈ g.nodes)
    (hdecl : d ∈ Glas.Graph.declared disk p) : Inv disk (g.addDep p d) := by
  unfold G.addDep
  refine ⟨?_, h.nodup, ?_⟩
  · intro p' d' hpd
    simp only [List.mem_append, List.mem_singleton, Prod.mk.injEq] at hpd
    rcases hpd with hpd | ⟨rfl, rfl⟩
    · exact h.declared _ _ hpd
    · exact hdecl
  · intro p' d' hpd
    simp only [List.mem_append, List.mem_singleton, Prod.mk.injEq] at hpd
    rcases hpd with hpd | ⟨rfl, rfl⟩
    · exact h.ends _ _ hpd
    · exact ⟨hp, hd⟩

theorem manifest_declared {disk : Disk} {n : Nat} {deps : List Nat} (h : manifest disk n = some deps) :
    Glas.Graph.declared disk n = deps := by
  unfold Glas.Graph.declared; rw [h]; rfl

/-- the two halves of the mutual recursion, by induction on the fuel -/
theorem assemble_inv (disk : Disk) : ∀ (fuel : Nat),
    (∀ g n g', Inv disk g → assemble disk fuel g n = some g' →
      Inv disk g' ∧ n ∈ g'.nodes ∧ ∀ x ∈ g.nodes, x ∈ g'.nodes) ∧
    (∀ ds g p, Inv disk g → p ∈ g.nodes → (∀ d ∈ ds, d ∈ Glas.Graph.declared disk p) →
      Inv disk (depsLoop disk fuel g p ds) ∧ ∀ x ∈ g.nodes, x ∈ (depsLoop disk fuel g p ds).nodes) := by
  intro fuel
  induction fuel with
  | zero =>
    have hA : ∀ g n g', Inv disk g → assemble disk 0 g n = some g' →
        Inv disk g' ∧ n ∈ g'.nodes ∧ ∀ x ∈ g.nodes, x ∈ g'.nodes := by
      intro g n g' _ h; simp [assemble] at h
    refine ⟨hA, ?_⟩
    intro ds
    induction ds with
    | nil => intro g p hg _ _; simp only [depsLoop]; exact ⟨hg, fun x hx => hx⟩
    | cons d ds ih =>
      intro g p hg hp hds
      simp only [depsLoop]
      by_cases hd : d ∈ g.nodes
      · rw [if_pos hd]
        have hg' := hg.addDep hp hd (hds d (by simp))
        have := ih (g.addDep p d) p hg' hp (fun x hx => hds x (by simp [hx]))
        exact ⟨this.1, fun x hx => this.2 x hx⟩
      · rw [if_neg hd]
        simp only [assemble]
        exact ih g p hg hp (fun x hx => hds x (by simp [hx]))
  | succ fuel ih =>
    obtain ⟨ihA, ihD⟩ := ih
    have hA : ∀ g n g', Inv disk g → assemble disk (fuel + 1) g n = some g' →
        Inv disk g' ∧ n ∈ g'.nodes ∧ ∀ x ∈ g.nodes, x ∈ g'.nodes := by
      intro g n g' hg h
      simp only [assemble] at h
      cases hm : manifest disk n with
      | none => rw [hm] at h; cases h
      | some deps =>
        rw [hm] at h
        simp only [Option.some.injEq] at h
        subst h
        obtain ⟨hr, hn, hsub⟩ := hg.register n
        have := ihD deps (g.register n) n hr hn (fun d hd => by rw [manifest_declared hm]; exact hd)
        exact ⟨this.1, this.2 n hn, fun x hx => this.2 x (hsub x hx)⟩
    refine ⟨hA, ?_⟩
    intro ds
    induction ds with
    | nil => intro g p hg _ _; simp only [depsLoop]; exact ⟨hg, fun x hx => hx⟩
    | cons d ds ihds =>
      intro g p hg hp hds
      simp only [depsLoop]
      by_cases hd : d ∈ g.nodes
      · rw [if_pos hd]
        have hg' := hg.addDep hp hd (hds d (by simp))
        have := ihds (g.addDep p d) p hg' hp (fun x hx => hds x (by simp [hx]))
        exact ⟨this.1, fun x hx => this.2 x hx⟩
      · rw [if_neg hd]
        cases ha : assemble disk (fuel + 1) g d with
        | none => simp only []; exact ihds g p hg hp (fun x hx => hds x (by simp [hx]))
        | some g' =>
          simp only []
          obtain ⟨hg', hdn, hsub⟩ := hA g d g' hg ha
          have hg'' := hg'.addDep (hsub p hp) hdn (hds d (by simp))
          have := ihds (g'.addDep p d) p hg'' (hsub p hp) (fun x hx => hds x (by simp [hx]))
          exact ⟨this.1, fun x hx => this.2 x (hsub x hx)⟩

/-- **every edge of the assembled graph is a dependency its source package declares; both ends are registered;
no package is registered twice** -/
theorem assemble_sound (disk : Disk) (fuel root : Nat) (g : G) (h : assemble disk fuel empty root = some g) :
    (∀ p d, (p, d) ∈ g.edges → d ∈ Glas.Graph.declared disk p) ∧ g.nodes.Nodup ∧
    (∀ p d, (p, d) ∈ g.edges → p ∈ g.nodes ∧ d ∈ g.nodes) ∧ root ∈ g.nodes := by
  obtain ⟨hi, hr, _⟩ := (assemble_inv disk fuel).1 empty root g (inv_empty disk) h
  exact ⟨hi.declared, hi.nodup, hi.ends, hr⟩

/-- a diamond and a cycle: app → {a, b}, a → {c}, b → {c, a}, c → {app}; `d` is declared by `a` but has no manifest -/
example : (assemble [(0, [1, 2]), (1, [3, 9]), (2, [3, 1]), (3, [0])] 10 empty 0) =
    some ⟨[0, 1, 3, 2], [(3, 0), (1, 3), (0, 1), (2, 3), (2, 1), (0, 2)]⟩ := by
  simp [assemble, depsLoop, manifest, G.register, G.addDep, empty]

end Glas.Props.C17Graph
