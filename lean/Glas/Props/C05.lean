import Glas.Model.ScopeSpec
import Glas.Lemmas.ScopeTrav
import Glas.Lemmas.ScopeNames
/-!
# C05 — go-to-definition follows Gleam's scoping rules (local scoping and the module value table)
-/
namespace Glas.Props.C05
open Glas.Scope

/-- **the scope arena refines the environment semantics**: for every function whose variable
occurrences carry distinct ids, looking a name up through the arena of scopes with parent pointers
(`ExprScopes` + `resolve_name_in_scope`) gives, at every occurrence, exactly the binder Gleam's
rules prescribe (innermost frame, first binder of the frame; a `let`/`use` binder is invisible in
its own initialiser and in earlier statements; clause, lambda and block bindings do not escape) -/
theorem scopes_refine_spec (f : Function) (hnd : ((occNames f.body).map (fun p => p.1)).Nodup) :
    implResolveAll f = specExpr f.body [patsBinders f.params] := by
  obtain ⟨new, hocc, hkeys, hres⟩ := (trav_buildScopes f).occ
  simp only [List.nil_append] at hocc
  have hnd' : ((([] : List (Nat × Nat)) ++ new).map (·.1)).Nodup := by
    simpa [hkeys] using hnd
  have hz := map_lookup_eq_zipWith (fun on : Nat × Name => on.1)
    (fun on o => (on.1, resolveChain (buildScopes f).arena (buildScopes f).arena.length o on.2))
    new (occNames f.body) [] hkeys hnd'
  have hspec := hres _ (List.prefix_refl _)
  unfold implResolveAll
  simp only [hocc]
  simp only [List.nil_append] at hz
  rw [hz]
  exact hspec

/-- a local binder always wins over a module-level value or a built-in of the same name -/
theorem local_shadows_module (S : Scopes) (values : List (Name × ValEntry)) (builtins : List Name)
    (scope : Option Nat) (name : Name) (id : Nat)
    (h : resolveChain S.arena S.arena.length scope name = some id) :
    resolveName S values builtins scope name = some (.local_ id) := by
  unfold resolveName
  rw [h]

/-- top-level items are visible regardless of declaration order: a name declared once resolves to
that declaration wherever it stands in the module -/
theorem toplevel_order_independent (decls : List (Name × ValEntry)) (n : Name) (i : ValEntry)
    (hmem : (n, i) ∈ decls) (huniq : ∀ j, (n, j) ∈ decls → j = i) :
    findVal (buildValues decls) n = some i := by
  exact findEntry_foldl_insertVal n i decls [] huniq (Or.inl hmem)

/-- a module value wins over a built-in; built-ins are the last resort -/
theorem module_before_builtin (S : Scopes) (values : List (Name × ValEntry)) (builtins : List Name)
    (scope : Option Nat) (name : Name) (i : Nat)
    (hl : resolveChain S.arena S.arena.length scope name = none) (hv : findVal values name = some (some i)) :
    resolveName S values builtins scope name = some (.modVal i) := by
  unfold resolveName
  rw [hl, hv]

/-- non-vacuity: two-level shadowing, a `let` whose initialiser mentions its own name, a clause
binding that does not escape -/
example :
    let f : Function :=
      { params := .cons (.var 0 "a") .nil,
        body := .block (.cons (.let_ (.var 1 "a") (.var 10 "a"))
                 (.cons (.expr (.case_ (.cons (.var 11 "a") .nil)
                    (.cons (.mk (.cons (.var 2 "a") .nil) (.var 12 "a")) .nil)))
                 (.cons (.expr (.var 13 "a")) .nil))) }
    implResolveAll f = [(10, some 0), (11, some 1), (12, some 2), (13, some 1)] := by decide

end Glas.Props.C05
