import Glas.Lemmas.LaSound
import Glas.Gen.Parser
/-!
# C02 — the look-ahead guard `parser is stuck` is unreachable

`LaCheck.laCheck` (`Glas/Model/LaCheck.lean`) bounds the look-ahead counter at every evaluation point of a
DSL program; its soundness is proved once for all programs (`never_stuck_of_checkWith`,
`Lemmas/LaSound.lean`) and the regenerated parser is checked by kernel evaluation (`glas_la_checked`).
With it the last exception of `C02_total` / `C01_total` goes (`Props/C02Stuck.lean`).

(What is *not* covered: the depth of the Rust call stack - the recorded finding `C02/unbounded-recursion`.)
-/
namespace Glas.Props.C02La
open Glas.Dsl Glas.Check Glas.Gen Glas.LaCheck

/-- the generated parser passes the look-ahead checker (kernel evaluation; includes the untrusted inference
of the summaries and of the loop-head bounds, whose results `checkWith` validates) -/
theorem glas_la_checked : laCheck glasProg = true := by decide +kernel

/-- generic soundness: a program that passes never ends in `parser is stuck`, on any token list, with any
amount of model fuel -/
theorem la_sound (P : Prog) (h : laCheck P = true) (n : Nat) (toks : List Kind) :
    ∀ σ, runMain P n toks ≠ .panic .stuck σ :=
  never_stuck_of_checkWith (Γ := Check.infer P) (Λ := LaCheck.infer P) h n toks

/-- **the parser's look-ahead guard never fires**: for every token list and every amount of model fuel -/
theorem C02_never_stuck (n : Nat) (toks : List Kind) : ∀ σ, runMain glasProg n toks ≠ .panic .stuck σ :=
  la_sound glasProg glas_la_checked n toks

/-! ## non-vacuity: the checker refuses programs that can exhaust the budget -/

/-- a scan with `nth(n)` that consumes nothing (the shape of seeded change C02-17) is refused -/
example : laCheck { procs := [{ name := "m", nLocals := 1, nMarks := 0,
                                body := .loop (.ite (.eq (.nth 0) (.lit 5)) .brk (.set 0 (.lit 1))) }],
                    tables := [], fuel := 1024, eofKind := 0, errorKind := 1, main := 0 } = false := by decide +kernel

/-- a straight-line procedure with more look-aheads than the budget is refused -/
example : laCheck { procs := [{ name := "m", nLocals := 1, nMarks := 0,
                                body := .seq (.set 0 (.nth 0)) (.seq (.set 0 (.nth 1)) (.set 0 (.nth 2))) }],
                    tables := [], fuel := 2, eofKind := 0, errorKind := 1, main := 0 } = false := by decide +kernel

/-- ... and accepted when the budget suffices -/
example : laCheck { procs := [{ name := "m", nLocals := 1, nMarks := 0,
                                body := .seq (.set 0 (.nth 0)) (.seq (.set 0 (.nth 1)) (.set 0 (.nth 2))) }],
                    tables := [], fuel := 3, eofKind := 0, errorKind := 1, main := 0 } = true := by decide +kernel

end Glas.Props.C02La
