import Glas.Props.C02
import Glas.Props.C02Marks
import Glas.Props.C02Stuck
/-!
# C10 — every IDE query answers on every workspace, however broken: what is proved

Every query starts by parsing; the parser part of C10 is C02's theorems, restated here.  The
remaining sources of panics (indexing of inference side tables, salsa cycles, union-find) are
modelled in `Glas/Model/UnionFind.lean` (see `Glas/Props/C09.lean`) or covered by the `sweep`
exploration only; this is stated as partial in the manifest.
-/
namespace Glas.Props.C10
open Glas.Dsl Glas.Gen Glas.Check

/-- on every token list, with any fuel, parsing never fails one of its precondition assertions and
never bumps past the end of input (the two panics every query could inherit from the parser) -/
theorem parser_no_precondition_panic (n : Nat) (toks : List Kind) :
    (∀ σ, runMain glasProg n toks ≠ .panic .bumpAtEof σ) ∧ (∀ σ, runMain glasProg n toks ≠ .panic .assertFailed σ) :=
  Glas.Props.C02.C02_safe n toks

/-- parsing terminates on every token list (explicit fuel bound, linear in the input) -/
theorem parser_terminates (toks : List Kind) : runMain glasProg (bound glasProg toks.length) toks ≠ .oof :=
  Glas.Props.C02.C02_terminates toks

/-- the first stage of every query, all parts together: on every text the model of `parse_module`
returns a tree — the tree builder never fails, no node is left unfinished, no stale mark is used — or
the parser's own look-ahead guard fires (the recorded C02 finding) -/
theorem parse_total (s : List Char) :
    (∃ t σ, Glas.SyntaxCmd.parseModel (bound glasProg (Glas.Props.C02Marks.parserToks s).length) s =
        .ok (t, σ, Glas.SyntaxCmd.lexText s) ∧ t.leaves = Glas.SyntaxCmd.lexText s) ∨
    Glas.SyntaxCmd.parseModel (bound glasProg (Glas.Props.C02Marks.parserToks s).length) s =
      .error ("PANIC " ++ "stuck") :=
  Glas.Props.C02Marks.C01_total s

/-- the first stage of every query, without exception: on every text the model of `parse_module` returns a
(lossless) tree - the look-ahead guard cannot fire either (`C02_never_stuck`) -/
theorem parse_always (s : List Char) :
    ∃ t σ, Glas.SyntaxCmd.parseModel (bound glasProg (Glas.Props.C02Marks.parserToks s).length) s =
        .ok (t, σ, Glas.SyntaxCmd.lexText s) ∧ t.leaves = Glas.SyntaxCmd.lexText s :=
  Glas.Props.C02Stuck.C01_always s

end Glas.Props.C10
