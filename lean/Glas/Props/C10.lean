import Glas.Props.C02
/-!
# C10 — every IDE query answers on every workspace, however broken: what is proved

Every query starts by parsing; the parser part of C10 is C02's theorems, restated here.  The
remaining sources of panics (indexing of inference side tables, salsa cycles, union-find) are
modelled in `Glas/Model/UnionFind.lean` (see `Glas/Props/C09.lean`) or covered by the `sweep`
exploration only; this is stated as partial in the manifest.
-/
namespace Glas.Props.C10
open Glas.Dsl Glas.Gen Glas.Check

/-- on every token list, with any fuel, parsing never fails one of its precondition assertions and
never bumps past the end of input (the two panics every query could inherit from the parser) -/
theorem parser_no_precondition_panic (n : Nat) (toks : List Kind) :
    (∀ σ, runMain glasProg n toks ≠ .panic .bumpAtEof σ) ∧ (∀ σ, runMain glasProg n toks ≠ .panic .assertFailed σ) :=
  Glas.Props.C02.C02_safe n toks

/-- parsing terminates on every token list (explicit fuel bound, linear in the input) -/
theorem parser_terminates (toks : List Kind) : runMain glasProg (bound glasProg toks.length) toks ≠ .oof :=
  Glas.Props.C02.C02_terminates toks

end Glas.Props.C10
