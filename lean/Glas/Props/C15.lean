import Glas.Model.Server
import Glas.Lemmas.Server
/-!
# C15 — no message sequence can take the server down (message-level model)
-/
namespace Glas.Props.C15
open Glas.Text Glas.Server

/-- sizes stay below the `u32` limit: every stored document, and every document plus everything a
notification inserts into it (the server checks `MAX_FILE_LEN` on open only) -/
def Small (d : Docs) (m : Msg) : Prop :=
  (∀ p ∈ d, u8sum p.2 < U32) ∧
  match m with
  | .didChange (.file u) changes =>
    ∀ t, lookup d u = some t → u8sum t + ((changes.map (fun c => u8sum c.text)).sum) < U32
  | _ => True

/-- position conversion never panics on a CR-free text below the size limit, whatever the position -/
theorem fromPos_never_panics (t : List Char) (line col : Nat) (hcr : stripCR t = t) (hlen : u8sum t < U32) :
    (lineMap t).fromPos line col ≠ .panic := by
  have _ := hcr
  exact fromPos_ne_panic t line col hlen

/-- applying one content change never panics: invalid positions, reversed ranges and ranges off a
character boundary are errors (the change is dropped), not crashes -/
theorem applyChange_never_panics (t : List Char) (range : Option (Nat × Nat × Nat × Nat)) (ins : List Char)
    (hcr : stripCR t = t) (hlen : u8sum t < U32) :
    applyChange t range ins ≠ .panic := by
  have _ := hcr
  exact applyChange_ne_panic t range ins hlen

/-- the result of an applied change is again CR-free and its size is bounded by text + insertion -/
theorem applyChange_ok_small (t : List Char) (range : Option (Nat × Nat × Nat × Nat)) (ins t' : List Char)
    (hcr : stripCR t = t) (h : applyChange t range ins = .ok t') :
    stripCR t' = t' ∧ u8sum t' ≤ u8sum t + u8sum ins := by
  have _ := hcr
  exact applyChange_ok t range ins t' h

/-- documents in the store are always normalised (CR-free): invariant of `step` -/
def Normal (d : Docs) : Prop := ∀ p ∈ d, stripCR p.2 = p.2

theorem step_normal (d : Docs) (m : Msg) (h : Normal d) : Normal (step d m).1 := by
  cases m with
  | didOpen uri text =>
    cases uri with
    | file u =>
      simp only [step]
      split
      · exact h
      · intro p hp
        rcases mem_set d u _ p hp with hp | hp
        · subst hp; exact stripCR_idem text
        · exact h p hp
    | other i => exact h
  | didChange uri changes =>
    cases uri with
    | file u =>
      simp only [step]
      split
      · exact h
      · rename_i t ht
        split
        · rename_i t' hch
          intro p hp
          rcases mem_set d u _ p hp with hp | hp
          · subst hp
            exact applyChanges_normal changes t t' (h _ (lookup_mem d u t ht)) hch
          · exact h p hp
        · intro p hp; exact h p (mem_remove d u p hp)
        · exact h
    | other i => exact h
  | didClose uri => exact h
  | request id uri line col =>
    cases uri with
    | file u =>
      simp only [step]
      split
      · exact h
      · split <;> exact h
    | other i => exact h

/-- **no single message crashes the server** (from any reachable store, below the size limit) -/
theorem step_total (d : Docs) (m : Msg) (hn : Normal d) (hs : Small d m) : (step d m).2 ≠ .crash := by
  have _ := hn
  cases m with
  | didOpen uri text =>
    cases uri with
    | file u => simp only [step]; split <;> (intro h; cases h)
    | other i => intro h; cases h
  | didChange uri changes =>
    cases uri with
    | file u =>
      simp only [step]
      split
      · intro h; cases h
      · rename_i t ht
        have hb := hs.2 t ht
        have := applyChanges_ne_none changes t hb
        split
        · intro h; cases h
        · intro h; cases h
        · rename_i hnone; exact absurd hnone this
    | other i => intro h; cases h
  | didClose uri => intro h; cases h
  | request id uri line col =>
    cases uri with
    | file u =>
      simp only [step]
      split
      · intro h; cases h
      · split <;> (intro h; cases h)
    | other i => intro h; cases h

/-- every request is answered exactly once, with its own id -/
theorem one_answer_per_request (d : Docs) (id : Nat) (uri : Uri) (line col : Nat) :
    ∃ ok, (step d (.request id uri line col)).2 = .response id ok ∧ (step d (.request id uri line col)).1 = d := by
  cases uri with
  | file u =>
    simp only [step]
    split
    · exact ⟨false, rfl, rfl⟩
    · split
      · exact ⟨true, rfl, rfl⟩
      · exact ⟨false, rfl, rfl⟩
  | other i => exact ⟨false, rfl, rfl⟩

theorem unappliable_dropped_false_of_big (big : List Char) (hnl : ∀ c ∈ big, c ≠ '\n')
    (hbig : U32 ≤ u8sum big) :
    ¬ ∀ (d : Docs) (u : Nat) (changes : List Change) (t t' : List Char),
      lookup d u = some t → lookup (step d (.didChange (.file u) changes)).1 u = some t' →
      applyChanges t changes = some (some t') := by
  intro hall
  have hp := applyChanges_panic_of_big big hnl hbig
  have h := hall [(0, big)] 0 [⟨some (0, u16sum big, 0, u16sum big), []⟩] big big
    (by simp [lookup]) (by simp only [step, lookup, if_true, hp])
  rw [hp] at h
  cases h

/-- the unconditional `unappliable_dropped` is false: a stored one-line text of `2^32` bytes
(`List.replicate U32 'a'`) and a change at its end make the change loop panic (`u32` overflow in
`pos_for_line_col`); the store is unchanged, the document still present, but `applyChanges` is
`none` -/
theorem unappliable_dropped_needs_size_bound :
    ¬ ∀ (d : Docs) (u : Nat) (changes : List Change) (t t' : List Char),
      lookup d u = some t → lookup (step d (.didChange (.file u) changes)).1 u = some t' →
      applyChanges t changes = some (some t') :=
  unappliable_dropped_false_of_big _ big_text.1 big_text.2

/-- corrected `unappliable_dropped`: below the size limit (the hypothesis of `step_total`) an edit
the server cannot apply is dropped and the document forgotten -/
theorem unappliable_dropped (d : Docs) (u : Nat) (changes : List Change) (t t' : List Char)
    (hs : Small d (.didChange (.file u) changes))
    (h0 : lookup d u = some t) (h1 : lookup (step d (.didChange (.file u) changes)).1 u = some t') :
    applyChanges t changes = some (some t') := by
  have hnone := applyChanges_ne_none changes t (hs.2 t h0)
  apply didChange_result d u changes t t' ?_ h0 h1
  simp only [step, h0]
  split
  · intro h; cases h
  · intro h; cases h
  · rename_i hn; exact absurd hn hnone

/-- the same under the weakest hypothesis: the message did not crash the server -/
theorem unappliable_dropped_of_no_crash (d : Docs) (u : Nat) (changes : List Change) (t t' : List Char)
    (hnc : (step d (.didChange (.file u) changes)).2 ≠ .crash)
    (h0 : lookup d u = some t) (h1 : lookup (step d (.didChange (.file u) changes)).1 u = some t') :
    applyChanges t changes = some (some t') :=
  didChange_result d u changes t t' hnc h0 h1


/-! ## the session layer: documents the editor holds open, files that change or vanish on disk -/

/-- sizes for the session layer: as `Small`; a file the server re-reads from disk, or loads with its
package, is below the `u32` limit (`set_vfs_file_content` does not check `MAX_FILE_LEN`) -/
def SmallEv (s : Sess) : Ev → Prop
  | .msg _ m => Small s.docs m
  | _ => ∀ p ∈ s.docs, u8sum p.2 < U32

theorem sstep_normal (s : Sess) (e : Ev) (h : Normal s.docs) : Normal (sstep s e).1.docs := by
  cases e with
  | msg sp m => exact step_normal s.docs m h
  | watched sp uri deleted disk =>
    cases uri with
    | file u =>
      simp only [sstep]
      split
      · exact h
      · split
        · intro p hp; exact h p (mem_remove _ u p hp)
        · cases disk with
          | absent => intro p hp; exact h p (mem_remove _ u p hp)
          | regular text =>
            intro p hp
            rcases mem_set _ u _ p hp with hp | hp
            · subst hp; exact stripCR_idem text
            · exact h p hp
          | unreadable => exact h
    | other i => exact h
  | loaded u text =>
    intro p hp
    rcases mem_set _ u _ p hp with hp | hp
    · subst hp; exact stripCR_idem text
    · exact h p hp

/-- **no message and no file event crashes the server**: files that change, vanish or turn out to be
unreadable included -/
theorem sstep_total (s : Sess) (e : Ev) (hn : Normal s.docs) (hs : SmallEv s e) : (sstep s e).2 ≠ .crash := by
  cases e with
  | msg sp m => exact step_total s.docs m hn hs
  | watched sp uri deleted disk =>
    cases uri with
    | file u =>
      simp only [sstep]
      split
      · intro h; cases h
      · split
        · intro h; cases h
        · cases disk <;> (intro h; cases h)
    | other i => intro h; cases h
  | loaded u text => intro h; cases h

/-- a file event about a document the editor holds open changes nothing: the editor's text wins over
whatever is on disk -/
theorem watched_open_untouched (s : Sess) (u sp : Nat) (deleted : Bool) (disk : Disk) (h : (u, sp) ∈ s.opened) :
    sstep s (.watched sp (.file u) deleted disk) = (s, .none) := by
  simp only [sstep]
  rw [if_pos (by simpa using h)]

/-- closing a document keeps its text (the editor ends its maintenance, it does not delete the file) -/
theorem close_keeps_text (s : Sess) (sp : Nat) (uri : Uri) : (sstep s (.msg sp (.didClose uri))).1.docs = s.docs := by
  cases uri <;> rfl

/-- **a file that vanishes**: after a DELETED event — or a CREATED / CHANGED event whose file is gone by the
time it is read — for a document the editor does not hold open, the server has forgotten the document … -/
theorem vanished_forgotten (s : Sess) (u sp : Nat) (deleted : Bool) (disk : Disk) (hno : (u, sp) ∉ s.opened)
    (hgone : deleted = true ∨ disk = .absent) :
    lookup (sstep s (.watched sp (.file u) deleted disk)).1.docs u = none := by
  simp only [sstep]
  rw [if_neg (by simpa using hno)]
  rcases hgone with hd | hd
  · rw [if_pos hd]; exact lookup_remove _ u
  · subst hd
    split
    · exact lookup_remove _ u
    · exact lookup_remove _ u

/-- … and whatever arrives for it afterwards is harmless: a change is ignored (the store is untouched, nothing
is applied to any other document), a request is answered with an error -/
theorem forgotten_harmless (s : Sess) (u sp : Nat) (h : lookup s.docs u = none) (changes : List Change)
    (id line col : Nat) :
    (sstep s (.msg sp (.didChange (.file u) changes))).1.docs = s.docs ∧
    (sstep s (.msg sp (.didChange (.file u) changes))).2 = .none ∧
    (sstep s (.msg sp (.request id (.file u) line col))).2 = .response id false := by
  simp [sstep, step, h]

/-- a document forgotten after an edit that cannot be applied is no longer recorded as open either: file events
about it are the server's business again (`changed_reread` applies) -/
theorem forgotten_not_open (s : Sess) (u sp : Nat) (changes : List Change) (t : List Char)
    (h0 : lookup s.docs u = some t) (hf : applyChanges t changes = some none) :
    (u, sp) ∉ (sstep s (.msg sp (.didChange (.file u) changes))).1.opened ∧
    lookup (sstep s (.msg sp (.didChange (.file u) changes))).1.docs u = none := by
  simp only [sstep, step, h0, hf]
  refine ⟨by simp, lookup_remove _ u⟩

/-- an edit that is applied, and an edit to a document the server does not hold, leave the set of open documents alone -/
theorem applied_keeps_open (s : Sess) (u sp : Nat) (changes : List Change)
    (h : ∀ t, lookup s.docs u = some t → applyChanges t changes ≠ some none) :
    (sstep s (.msg sp (.didChange (.file u) changes))).1.opened = s.opened := by
  simp only [sstep]
  cases hl : lookup s.docs u with
  | none => rfl
  | some t => simp only [if_neg (h t hl)]

/-- re-reading a changed file replaces the stored text by the (normalised) text on disk -/
theorem changed_reread (s : Sess) (u sp : Nat) (text : List Char) (hno : (u, sp) ∉ s.opened) :
    lookup (sstep s (.watched sp (.file u) false (.regular text))).1.docs u = some (stripCR text) := by
  simp only [sstep]
  rw [if_neg (by simpa using hno)]
  simp only [Bool.false_eq_true, if_false]
  exact lookup_set _ u _

/-- a whole session never crashes while the sizes stay below the limit -/
theorem srun_total : ∀ (es : List Ev) (s : Sess), Normal s.docs →
    (∀ (pre : List Ev) (e : Ev) (post : List Ev), es = pre ++ e :: post → SmallEv (srun s pre).1 e) →
    Out.crash ∉ (srun s es).2
  | [], s, _, _ => by simp [srun]
  | e :: es, s, hn, hs => by
    have h0 := hs [] e es rfl
    simp only [srun] at h0
    have hnc := sstep_total s e hn h0
    have hn' := sstep_normal s e hn
    have hrun : ∀ l, srun s (e :: l) = ((srun (sstep s e).1 l).1, (sstep s e).2 :: (srun (sstep s e).1 l).2) := by
      intro l
      simp only [srun]
    rw [hrun]
    simp only [List.mem_cons, not_or]
    refine ⟨fun hc => hnc hc.symm, ?_⟩
    refine srun_total es _ hn' ?_
    intro pre e' post hsplit
    have := hs (e :: pre) e' post (by rw [hsplit]; rfl)
    rw [hrun] at this
    exact this

example : (run [] [.didOpen (.file 1) "ab\r\ncd".toList,
                   .didChange (.file 1) [⟨some (0, 1, 1, 1), "X".toList⟩],
                   .didChange (.file 1) [⟨some (1, 1, 0, 0), []⟩, ⟨none, "zz".toList⟩],
                   .request 7 (.file 1) 0 0, .didOpen (.other 3) [], .request 8 (.other 3) 0 0]).2
    = [.none, .none, .none, .response 7 false, .none, .response 8 false] := by decide

/-- a document is edited, closed, and its file vanishes; the change that still arrives for it is ignored
and a document opened afterwards holds exactly its own text -/
example : let r := srun ⟨[], []⟩ [.msg 0 (.didOpen (.file 1) "ab".toList), .msg 0 (.didChange (.file 1) [⟨some (0, 0, 0, 0), "x".toList⟩]),
                   .msg 0 (.didClose (.file 1)), .watched 0 (.file 1) true .absent,
                   .msg 0 (.didChange (.file 1) [⟨some (0, 0, 0, 1), []⟩]), .msg 0 (.didOpen (.file 2) "new".toList),
                   .msg 0 (.request 9 (.file 1) 0 0), .watched 0 (.file 2) true .absent]
    r.2 = [.none, .none, .none, .none, .none, .none, .response 9 false, .none] ∧ r.1.docs = [(2, "new".toList)] := by decide

/-! ### one file under two spellings of its URI

`opened_files` is keyed by the URL string, the document store by the decoded path.  A file event that names an open document
under ANOTHER spelling of its URI is therefore not "about a document the editor holds open": it reaches the store. -/

/-- the guard of `watched_open_untouched` protects one spelling only: a DELETED event under any other spelling forgets the
document although the editor holds it open -/
theorem other_spelling_unprotected (s : Sess) (u sp' : Nat) (disk : Disk) (hno : (u, sp') ∉ s.opened) :
    lookup (sstep s (.watched sp' (.file u) true disk)).1.docs u = none ∧
    (sstep s (.watched sp' (.file u) true disk)).1.opened = s.opened := by
  simp only [sstep]
  rw [if_neg (by simpa using hno)]
  exact ⟨lookup_remove _ u, rfl⟩

/-- the store itself does not see spellings: a message does to the documents what it does under any other spelling -/
theorem docs_spelling_independent (s : Sess) (sp sp' : Nat) (m : Msg) :
    (sstep s (.msg sp m)).1.docs = (sstep s (.msg sp' m)).1.docs ∧ (sstep s (.msg sp m)).2 = (sstep s (.msg sp' m)).2 :=
  ⟨rfl, rfl⟩

/-- a document opened under one spelling, deleted under another: the server forgets it without a crash, the edit and the request
that follow under the first spelling are ignored / answered with an error, and a document opened in between holds exactly its
own text -/
example : let r := srun ⟨[], []⟩ [.msg 0 (.didOpen (.file 1) "ab".toList), .watched 1 (.file 1) true .absent,
                   .msg 0 (.didOpen (.file 2) "new".toList), .msg 0 (.didChange (.file 1) [⟨some (0, 0, 0, 1), "zz".toList⟩]),
                   .msg 0 (.request 9 (.file 1) 0 0), .msg 1 (.request 10 (.file 2) 0 0), .watched 0 (.file 1) true .absent]
    r.2 = [.none, .none, .none, .none, .response 9 false, .response 10 true, .none] ∧ r.1.docs = [(2, "new".toList)] ∧
    r.1.opened = [(2, 0), (1, 0)] := by decide

end Glas.Props.C15
