import Glas.Lemmas.Collect
import Glas.Lemmas.CollectAcyclic
/-!
# C10 (mechanism "occurs-free unification relies on a placeholder to stay finite on cyclic types"):
# `Collector::collect` answers on EVERY table

Unification never checks for cycles, so ill-typed (half-typed) code leaves cyclic types in the
union-find table: `fn f(x) { f([x]) }` makes `x`'s class a list of itself.  Hover, completion and
signature help print such types; they end because the collector marks a class *before* it descends.

* `collect_total` - on every well-formed table whose values mention only variables of the table - cyclic
  or not - and from every collector state, `collect` returns a type: it does not run out of the model's
  fuel (`table size + 1` suffices, whatever the shape), does not index outside the table and does not
  unwrap an empty slot.
* `collect_caches`, `collect_again` - the class is finished afterwards; asking again returns the same type
  and changes nothing.
* `collectAll_total` - any sequence of requests to one collector (what `finish_infer` does).
* `collect_acyclic`, `collectAll_acyclic` - on a table without cyclic types (a height function decreases from every class
  to its children) no answer contains the placeholder: `?` in a displayed type is the mark of a cycle and of nothing else.
* `order_matters` - a three-node cyclic table on which the type of a variable depends on which variable the
  collector was asked for first (kernel-evaluated).  `finish_infer` walks a `HashMap` of std's random state,
  so this is the mechanism of the recorded finding `C11/inference-order-in-recursion-group`.
-/
namespace Glas.Props.C10Collect
open Glas.UF Glas.Collect Glas.Lemmas.Collect

/-- the statement proved by induction on the fuel: below `fuel` pending classes the collector answers,
keeps the cache's size, never un-starts a class, and has an entry for the class it was asked for -/
theorem collect_ok (tbl : Table N) (hwf : WF tbl) (hcl : Closed tbl) :
    ∀ fuel x st, x < tbl.length → st.cache.length = tbl.length → pending st < fuel →
      ∃ t st', collect tbl fuel x st = .ok t st' ∧ Step tbl.length st st' ∧
        st'.cache[rootOf tbl x]? = some (some t) := by
  intro fuel
  induction fuel with
  | zero => intro x st _ _ hp; omega
  | succ fuel ih =>
    intro x st hx hl hp
    have hr := rootOf_lt hwf hx
    obtain ⟨node, hnode⟩ := rootOf_val hwf hx
    have hget : ∃ c, st.cache[rootOf tbl x]? = some c := by
      rw [List.getElem?_eq_getElem (by omega)]; exact ⟨_, rfl⟩
    obtain ⟨c, hc⟩ := hget
    cases c with
    | some t =>
      refine ⟨t, st, ?_, ⟨hl, Nat.le_refl _⟩, hc⟩
      simp only [collect, hx, if_true, hc]
    | none =>
      have hp1 := setCache_pending_of_none st (rootOf tbl x) .unknown hc
      have hl1 : (setCache st (rootOf tbl x) .unknown).cache.length = tbl.length := by
        rw [setCache_length]; exact hl
      have hrec : RecOk tbl.length (pending (setCache st (rootOf tbl x) .unknown)) (collect tbl fuel) := by
        intro y sty hy hly hpy
        obtain ⟨t, st', h1, s1, h2⟩ := ih y sty hy hly (by omega)
        refine ⟨t, st', h1, s1, ?_⟩
        have : y < st'.cache.length := by rw [s1.len]; exact hy
        rw [List.getElem?_eq_getElem this]; simp
      obtain ⟨t, st', h1, s1⟩ := collectNode_ok tbl.length _ (collect tbl fuel) hrec node
        (setCache st (rootOf tbl x) .unknown) (hcl _ node hnode) hl1 (Nat.le_refl _)
      refine ⟨t, setCache st' (rootOf tbl x) t, ?_, ⟨?_, ?_⟩, ?_⟩
      · simp only [collect, hx, if_true, hc, hnode, h1]
      · rw [setCache_length]; exact s1.len
      · have := setCache_pending_le st' (rootOf tbl x) t
        have := s1.pend
        omega
      · exact setCache_get st' _ t (by rw [s1.len]; exact hr)

/-- **C10 (collector)**: on every well-formed closed table - cyclic or not - and from every state of the
collector, `collect` returns a type with fuel `table size + 1` -/
theorem collect_total (tbl : Table N) (hwf : WF tbl) (hcl : Closed tbl) (x : Nat) (st : St)
    (hx : x < tbl.length) (hl : st.cache.length = tbl.length) :
    ∃ t st', collect tbl (fuelFor tbl) x st = .ok t st' ∧ st'.cache.length = tbl.length := by
  have hp : pending st < fuelFor tbl := by
    have : pending st ≤ st.cache.length := by
      simp only [pending]; exact List.length_filter_le _ _
    unfold fuelFor; omega
  obtain ⟨t, st', h, s, _⟩ := collect_ok tbl hwf hcl _ x st hx hl hp
  exact ⟨t, st', h, s.len⟩

/-- the class asked for is finished afterwards -/
theorem collect_caches (tbl : Table N) (hwf : WF tbl) (hcl : Closed tbl) (x : Nat) (st : St)
    (hx : x < tbl.length) (hl : st.cache.length = tbl.length) (t : T) (st' : St)
    (h : collect tbl (fuelFor tbl) x st = .ok t st') :
    st'.cache[rootOf tbl x]? = some (some t) := by
  have hp : pending st < fuelFor tbl := by
    have : pending st ≤ st.cache.length := by
      simp only [pending]; exact List.length_filter_le _ _
    unfold fuelFor; omega
  obtain ⟨t2, st2, h2, _, hc⟩ := collect_ok tbl hwf hcl _ x st hx hl hp
  rw [h2] at h
  cases h
  exact hc

/-- asking again returns the same type and changes nothing (any positive fuel) -/
theorem collect_again (tbl : Table N) (x : Nat) (st : St) (t : T) (fuel : Nat)
    (hx : x < tbl.length) (hc : st.cache[rootOf tbl x]? = some (some t)) :
    collect tbl (fuel + 1) x st = .ok t st := by
  simp only [collect, hx, if_true, hc]

/-- two variables of one class get the same answer from a collector that has finished the class -/
theorem collect_same_class (tbl : Table N) (x y : Nat) (st : St) (t : T) (fuel : Nat)
    (hy : y < tbl.length) (hxy : rootOf tbl x = rootOf tbl y)
    (hc : st.cache[rootOf tbl x]? = some (some t)) :
    collect tbl (fuel + 1) y st = .ok t st := by
  rw [hxy] at hc
  exact collect_again tbl y st t fuel hy hc

/-- **C10 (finish_infer)**: any sequence of requests to one collector is answered -/
theorem collectAll_total (tbl : Table N) (hwf : WF tbl) (hcl : Closed tbl) :
    ∀ (xs : List Nat) (st : St) (acc : List T), (∀ x ∈ xs, x < tbl.length) → st.cache.length = tbl.length →
      ∃ ts st', collectAll tbl xs st acc = .ok ts st' ∧ ts.length = acc.length + xs.length := by
  intro xs
  induction xs with
  | nil => intro st acc _ _; exact ⟨acc.reverse, st, rfl, by simp⟩
  | cons x xs ih =>
    intro st acc hx hl
    obtain ⟨t, st', h, hl'⟩ := collect_total tbl hwf hcl x st (hx x (by simp)) hl
    obtain ⟨ts, st2, h2, hlen⟩ := ih st' (t :: acc) (fun y hy => hx y (by simp [hy])) hl'
    refine ⟨ts, st2, ?_, by simp at hlen ⊢; omega⟩
    simp only [collectAll, h, h2]

/-! ### acyclic tables: the placeholder never shows -/

theorem setCache_get_ne (st : St) (i j : Nat) (t : T) (h : i ≠ j) :
    (setCache st i t).cache[j]? = st.cache[j]? := by
  simp [setCache, List.getElem?_set_ne h]

theorem InvGe.mono {h : Nat → Nat} {st : St} {a b : Nat} (hi : InvGe h st a) (hab : b ≤ a) : InvGe h st b := by
  intro j t e
  rcases hi j t e with g | g
  · exact Or.inl g
  · exact Or.inr (by omega)

/-- the induction: on an acyclic table, below `fuel` pending classes and with every placeholder-carrying entry
strictly above the class asked for, the answer is placeholder-free and the state only gains placeholder-free entries -/
theorem collect_acyclic_ok (tbl : Table N) (hwf : WF tbl) (hcl : Closed tbl) (h : Nat → Nat)
    (hac : Acyclic tbl h) :
    ∀ fuel x st, x < tbl.length → st.cache.length = tbl.length → pending st < fuel →
      InvGe h st (h (rootOf tbl x) + 1) →
      ∃ t st', collect tbl fuel x st = .ok t st' ∧ Step tbl.length st st' ∧ noUnk t = true ∧ Frame st st' := by
  intro fuel
  induction fuel with
  | zero => intro x st _ _ hp; omega
  | succ fuel ih =>
    intro x st hx hl hp hinv
    have hr := rootOf_lt hwf hx
    have hroot : parentOf tbl (rootOf tbl x) = rootOf tbl x := root_fuelOf_isRoot hwf x
    obtain ⟨node, hnode⟩ := rootOf_val hwf hx
    have hget : ∃ c, st.cache[rootOf tbl x]? = some c := by
      rw [List.getElem?_eq_getElem (by omega)]; exact ⟨_, rfl⟩
    obtain ⟨c, hc⟩ := hget
    cases c with
    | some t =>
      refine ⟨t, st, ?_, ⟨hl, Nat.le_refl _⟩, ?_, Frame.refl st⟩
      · simp only [collect, hx, if_true, hc]
      · rcases hinv _ t hc with g | g
        · exact g
        · omega
    | none =>
      have hp1 := setCache_pending_of_none st (rootOf tbl x) .unknown hc
      have hl1 : (setCache st (rootOf tbl x) .unknown).cache.length = tbl.length := by
        rw [setCache_length]; exact hl
      have hinv1 : InvGe h (setCache st (rootOf tbl x) .unknown) (h (rootOf tbl x)) := by
        intro j t e
        by_cases hj : rootOf tbl x = j
        · subst hj; exact Or.inr (Nat.le_refl _)
        · rw [setCache_get_ne _ _ _ _ hj] at e
          rcases hinv j t e with g | g
          · exact Or.inl g
          · exact Or.inr (by omega)
      have hrec : RecOk2 tbl h (pending (setCache st (rootOf tbl x) .unknown)) (h (rootOf tbl x)) (collect tbl fuel) := by
        intro y sty hy hly hpy hlt hiy
        exact ih y sty hy hly (by omega) (InvGe.mono (a := h (rootOf tbl x)) hiy (by omega))
      have hch : ∀ c ∈ node.children, c < tbl.length ∧ h (rootOf tbl c) < h (rootOf tbl x) :=
        fun c hc' => ⟨hcl _ node hnode c hc', hac _ node hr hroot hnode c hc'⟩
      obtain ⟨t, st', h1, s1, n1, f1⟩ := collectNode_ok2 tbl h _ _ (collect tbl fuel) hrec node
        (setCache st (rootOf tbl x) .unknown) hch hl1 (Nat.le_refl _) hinv1
      refine ⟨t, setCache st' (rootOf tbl x) t, ?_, ⟨?_, ?_⟩, n1, ?_⟩
      · simp only [collect, hx, if_true, hc, hnode, h1]
      · rw [setCache_length]; exact s1.len
      · have := setCache_pending_le st' (rootOf tbl x) t
        have := s1.pend
        omega
      · intro j t' e
        by_cases hj : rootOf tbl x = j
        · subst hj
          rw [setCache_get st' _ t (by rw [s1.len]; exact hr)] at e
          cases e
          exact Or.inl n1
        · rw [setCache_get_ne _ _ _ _ hj] at e
          rcases f1 j t' e with g | g
          · exact Or.inl g
          · rw [setCache_get_ne _ _ _ _ hj] at g
            exact Or.inr g

/-- every entry of the cache is placeholder-free -/
def Clean (st : St) : Prop := ∀ (j : Nat) (t : T), st.cache[j]? = some (some t) → noUnk t = true

theorem initSt_clean (tbl : Table N) : Clean (initSt tbl) := by
  intro j t e
  simp only [initSt] at e
  rw [List.getElem?_replicate] at e
  split at e <;> simp at e

/-- **the placeholder is the mark of a cycle, and of nothing else**: on a table without cyclic types (what
well-typed code produces) a collector whose cache is placeholder-free answers with a placeholder-free type and
stays placeholder-free -/
theorem collect_acyclic (tbl : Table N) (hwf : WF tbl) (hcl : Closed tbl) (h : Nat → Nat) (hac : Acyclic tbl h)
    (x : Nat) (st : St) (hx : x < tbl.length) (hl : st.cache.length = tbl.length) (hclean : Clean st) :
    ∃ t st', collect tbl (fuelFor tbl) x st = .ok t st' ∧ noUnk t = true ∧ Clean st' ∧
      st'.cache.length = tbl.length := by
  have hp : pending st < fuelFor tbl := by
    have : pending st ≤ st.cache.length := by
      simp only [pending]; exact List.length_filter_le _ _
    unfold fuelFor; omega
  obtain ⟨t, st', h1, s1, n1, f1⟩ := collect_acyclic_ok tbl hwf hcl h hac _ x st hx hl hp
    (fun j t e => Or.inl (hclean j t e))
  refine ⟨t, st', h1, n1, ?_, s1.len⟩
  intro j t' e
  rcases f1 j t' e with g | g
  · exact g
  · exact hclean j t' g

/-- ... for any sequence of requests to one collector, starting from `Collector::new` -/
theorem collectAll_acyclic (tbl : Table N) (hwf : WF tbl) (hcl : Closed tbl) (h : Nat → Nat) (hac : Acyclic tbl h) :
    ∀ (xs : List Nat) (st : St) (acc : List T), (∀ x ∈ xs, x < tbl.length) → st.cache.length = tbl.length →
      Clean st → (∀ t ∈ acc, noUnk t = true) →
      ∃ ts st', collectAll tbl xs st acc = .ok ts st' ∧ ∀ t ∈ ts, noUnk t = true := by
  intro xs
  induction xs with
  | nil =>
    intro st acc _ _ _ hacc
    exact ⟨acc.reverse, st, rfl, fun t ht => hacc t (by simpa using ht)⟩
  | cons x xs ih =>
    intro st acc hx hl hc hacc
    obtain ⟨t, st', h1, n1, c1, l1⟩ := collect_acyclic tbl hwf hcl h hac x st (hx x (by simp)) hl hc
    obtain ⟨ts, st2, h2, n2⟩ := ih st' (t :: acc) (fun y hy => hx y (by simp [hy])) l1 c1
      (fun u hu => by
        rcases List.mem_cons.mp hu with rfl | hu
        · exact n1
        · exact hacc u hu)
    refine ⟨ts, st2, ?_, n2⟩
    simp only [collectAll, h1, h2]

/-- non-vacuity: `v0 = List(v1)`, `v1 = #(v2, v2)`, `v2 = Int` is acyclic (height = 2, 1, 0) -/
def acyclicExample : Table N :=
  [{ val := some (.list 1), parent := 0, rank := 0 },
   { val := some (.tuple [2, 2]), parent := 1, rank := 0 },
   { val := some (.base 2), parent := 2, rank := 0 }]

example : (match collectAll acyclicExample [1, 0, 2] (initSt acyclicExample) [] with
           | .ok ts _ => ts | _ => []) =
    [.tuple (.acons (.base 2) (.acons (.base 2) .anil)), .list (.tuple (.acons (.base 2) (.acons (.base 2) .anil))), .base 2] := by
  decide

/-! ### the tables the hypotheses speak about exist, and cyclic ones are among them -/

/-- `v0 = List(v1)`, `v1 = #(v0, v2)`, `v2 = unknown 7`: a cyclic type, as `fn f(x) { f([#(x, y)]) }`-like
half-typed code leaves behind -/
def cyclic : Table N :=
  [{ val := some (.list 1), parent := 0, rank := 0 },
   { val := some (.tuple [0, 2]), parent := 1, rank := 0 },
   { val := some (.unk 7), parent := 2, rank := 0 }]

theorem cyclic_wf : WF cyclic := by
  intro i hi
  have : i = 0 ∨ i = 1 ∨ i = 2 := by simp [cyclic] at hi; omega
  rcases this with rfl | rfl | rfl <;> simp [cyclic, parentOf, rankOf, valOf]

theorem cyclic_closed : Closed cyclic := by
  intro i n h c hc
  have : i = 0 ∨ i = 1 ∨ i = 2 ∨ 3 ≤ i := by omega
  rcases this with rfl | rfl | rfl | h3
  · simp [cyclic, valOf] at h; subst h; simp [N.children] at hc; subst hc; simp [cyclic]
  · simp [cyclic, valOf] at h; subst h; simp [N.children] at hc; rcases hc with rfl | rfl <;> simp [cyclic]
  · simp [cyclic, valOf] at h; subst h; simp [N.children] at hc
  · have : cyclic[i]? = none := by
      apply List.getElem?_eq_none; simp [cyclic]; omega
    simp [valOf, this] at h

/-- **the order of the requests shows in the answers** (kernel-evaluated): asked for `v0` first, the
collector says `v0 : List(#(?, a))`; asked for `v1` first, it says `v0 : List(?)` -/
def answers (xs : List Nat) : List T :=
  match collectAll cyclic xs (initSt cyclic) [] with
  | .ok ts _ => ts
  | _ => []

theorem order_matters :
    answers [0, 1] = [.list (.tuple (.acons .unknown (.acons (.generic 0) .anil))),
                      .tuple (.acons .unknown (.acons (.generic 0) .anil))] ∧
    answers [1, 0] = [.tuple (.acons (.list .unknown) (.acons (.generic 0) .anil)),
                      .list .unknown] := by
  constructor <;> decide

end Glas.Props.C10Collect
