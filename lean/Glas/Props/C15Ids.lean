import Glas.Model.VfsIds
/-!
# C15 / C13 / C20 (the document store's ids): a loaded path never shares its `FileId`, and the store is a map

For every history of `set_path_content` / `remove_uri`:
* `reachable_inv` - the invariant: the ids of the loaded paths are pairwise distinct occupied slots, the vacant
  chain holds distinct vacant slots;
* `set_lookup_self/other`, `remove_lookup_self/other` - an operation on one path leaves the id AND the content of
  every other path as they were (no aliasing: the new id of a new path is never one in use);
* `refines_map` - what the server holds for a path is what the simplest store (a map path ↦ content) holds;
* `ids_injective` - two loaded paths never have the same id.
The seeded changes C15-15 and C20-16 (`files.len()` instead of the vacant key) break `set_lookup_other`.
-/
namespace Glas.Props.C15Ids
open Glas.VfsIds

structure Inv (s : St) : Prop where
  /-- the id of a loaded path is an occupied slot -/
  occ : ∀ p i, idOf s.ids p = some i → ∃ c, s.slots[i]? = some (some c)
  /-- distinct loaded paths have distinct ids -/
  inj : ∀ p q i, idOf s.ids p = some i → idOf s.ids q = some i → p = q
  /-- the vacant chain: vacant slots -/
  vac : ∀ i ∈ s.free, s.slots[i]? = some none
  nodup : s.free.Nodup

theorem get_del_self (l : List (Nat × Nat)) (p : Nat) : idOf (del l p) p = none := by
  induction l with
  | nil => rfl
  | cons a l ih =>
    obtain ⟨k, v⟩ := a
    by_cases h : k = p
    · simp [del, h, ih]
    · simp [del, idOf, h, ih]

theorem get_del_other (l : List (Nat × Nat)) (p q : Nat) (h : q ≠ p) : idOf (del l p) q = idOf l q := by
  induction l with
  | nil => rfl
  | cons a l ih =>
    obtain ⟨k, v⟩ := a
    by_cases hk : k = p
    · subst hk
      have : ¬ k = q := fun e => h e.symm
      simp [del, idOf, this, ih]
    · by_cases hq : k = q
      · subst hq; simp [del, idOf, h]
      · simp [del, idOf, hk, hq, ih]

theorem inv_init : Inv init := by
  refine ⟨?_, ?_, ?_, ?_⟩
  · intro p i h; simp [init, idOf] at h
  · intro p q i h; simp [init, idOf] at h
  · intro i h; simp [init] at h
  · simp [init]

theorem getElem?_set_some {α} (l : List α) (i j : Nat) (v : α) :
    (l.set i v)[j]? = if i = j ∧ i < l.length then some v else l[j]? := by
  by_cases h : i = j
  · subst h
    by_cases hl : i < l.length
    · simp [hl]
    · simp [hl, List.getElem?_eq_none (Nat.le_of_not_lt hl)]
  · simp [h, List.getElem?_set_ne h]

theorem lt_of_getElem?_some {α} {l : List α} {i : Nat} {v : α} (h : l[i]? = some v) : i < l.length := by
  cases Nat.lt_or_ge i l.length with
  | inl hlt => exact hlt
  | inr hge => rw [List.getElem?_eq_none hge] at h; cases h

/-! ### `set_path_content` -/

theorem inv_set (s : St) (p c : Nat) (h : Inv s) : Inv (setPath s p c).1 := by
  unfold setPath
  cases hg : idOf s.ids p with
  | some i =>
    obtain ⟨c0, hc0⟩ := h.occ p i hg
    have hi := lt_of_getElem?_some hc0
    refine ⟨?_, h.inj, ?_, h.nodup⟩
    · intro q j hq
      obtain ⟨c1, hc1⟩ := h.occ q j hq
      simp only [getElem?_set_some]
      split
      · exact ⟨c, rfl⟩
      · exact ⟨c1, hc1⟩
    · intro j hj
      have hv := h.vac j hj
      simp only [getElem?_set_some]
      split
      · rename_i hij
        rw [← hij.1, hc0] at hv
        cases hv
      · exact hv
  | none =>
    cases hf : s.free with
    | cons i rest =>
      have hvi : s.slots[i]? = some none := h.vac i (by rw [hf]; simp)
      have hi := lt_of_getElem?_some hvi
      have hnd : (i :: rest).Nodup := hf ▸ h.nodup
      refine ⟨?_, ?_, ?_, (List.nodup_cons.mp hnd).2⟩
      · intro q j hq
        simp only [idOf] at hq
        simp only [getElem?_set_some]
        split at hq
        · cases hq; exact ⟨c, by simp [hi]⟩
        · obtain ⟨c1, hc1⟩ := h.occ q j hq
          split
          · exact ⟨c, rfl⟩
          · exact ⟨c1, hc1⟩
      · intro q r j hq hr
        simp only [idOf] at hq hr
        split at hq <;> split at hr
        · rename_i h1 h2; rw [← h1, ← h2]
        · cases hq
          obtain ⟨c1, hc1⟩ := h.occ r i hr
          rw [hvi] at hc1; cases hc1
        · cases hr
          obtain ⟨c1, hc1⟩ := h.occ q i hq
          rw [hvi] at hc1; cases hc1
        · exact h.inj q r j hq hr
      · intro j hj
        have hjf : j ∈ s.free := by rw [hf]; simp [hj]
        have hv := h.vac j hjf
        have hne : i ≠ j := fun e => (List.nodup_cons.mp hnd).1 (e ▸ hj)
        simp only [getElem?_set_some]
        split
        · rename_i hij; exact absurd hij.1 hne
        · exact hv
    | nil =>
      refine ⟨?_, ?_, ?_, by simp⟩
      · intro q j hq
        simp only [idOf] at hq
        split at hq
        · cases hq; exact ⟨c, by simp⟩
        · obtain ⟨c1, hc1⟩ := h.occ q j hq
          have hj := lt_of_getElem?_some hc1
          exact ⟨c1, by rw [List.getElem?_append_left hj]; exact hc1⟩
      · intro q r j hq hr
        simp only [idOf] at hq hr
        split at hq <;> split at hr
        · rename_i h1 h2; rw [← h1, ← h2]
        · cases hq
          obtain ⟨c1, hc1⟩ := h.occ r _ hr
          exact absurd (lt_of_getElem?_some hc1) (Nat.lt_irrefl _)
        · cases hr
          obtain ⟨c1, hc1⟩ := h.occ q _ hq
          exact absurd (lt_of_getElem?_some hc1) (Nat.lt_irrefl _)
        · exact h.inj q r j hq hr
      · intro j hj; simp at hj

/-- the path just set is loaded with the returned id and the new content -/
theorem set_lookup_self (s : St) (p c : Nat) (h : Inv s) :
    lookup (setPath s p c).1 p = some ((setPath s p c).2, c) := by
  unfold setPath
  cases hg : idOf s.ids p with
  | some i =>
    obtain ⟨c0, hc0⟩ := h.occ p i hg
    have hi := lt_of_getElem?_some hc0
    simp [lookup, hg, hi]
  | none =>
    cases hf : s.free with
    | cons i rest =>
      have hvi : s.slots[i]? = some none := h.vac i (by rw [hf]; simp)
      have hi := lt_of_getElem?_some hvi
      simp [lookup, idOf, hi]
    | nil => simp [lookup, idOf]

/-- **no aliasing**: every other path keeps its id and its content -/
theorem set_lookup_other (s : St) (p c q : Nat) (h : Inv s) (hq : q ≠ p) :
    lookup (setPath s p c).1 q = lookup s q := by
  unfold setPath
  cases hg : idOf s.ids p with
  | some i =>
    simp only [lookup]
    cases hgq : idOf s.ids q with
    | none => rfl
    | some j =>
      have hne : i ≠ j := fun e => hq (h.inj q p j hgq (e ▸ hg))
      simp only [List.getElem?_set_ne hne]
  | none =>
    have hpq : ¬ p = q := fun e => hq e.symm
    cases hf : s.free with
    | cons i rest =>
      have hvi : s.slots[i]? = some none := h.vac i (by rw [hf]; simp)
      simp only [lookup, idOf, hpq, if_false]
      cases hgq : idOf s.ids q with
      | none => rfl
      | some j =>
        obtain ⟨c1, hc1⟩ := h.occ q j hgq
        have hne : i ≠ j := by
          intro e; rw [e, hc1] at hvi; cases hvi
        simp only [List.getElem?_set_ne hne]
    | nil =>
      simp only [lookup, idOf, hpq, if_false]
      cases hgq : idOf s.ids q with
      | none => rfl
      | some j =>
        obtain ⟨c1, hc1⟩ := h.occ q j hgq
        have hj := lt_of_getElem?_some hc1
        simp only [List.getElem?_append_left hj]

/-! ### `remove_uri` -/

theorem inv_remove (s : St) (p : Nat) (h : Inv s) : Inv (removePath s p).1 := by
  unfold removePath
  cases hg : idOf s.ids p with
  | none => exact h
  | some i =>
    obtain ⟨c0, hc0⟩ := h.occ p i hg
    have hi := lt_of_getElem?_some hc0
    refine ⟨?_, ?_, ?_, ?_⟩
    · intro q j hq
      by_cases hqp : q = p
      · subst hqp; rw [get_del_self] at hq; cases hq
      · rw [get_del_other _ _ _ hqp] at hq
        obtain ⟨c1, hc1⟩ := h.occ q j hq
        have hne : i ≠ j := fun e => hqp (h.inj q p j hq (e ▸ hg))
        refine ⟨c1, ?_⟩
        simp only [getElem?_set_some]
        split
        · rename_i hij; exact absurd hij.1 hne
        · exact hc1
    · intro q r j hq hr
      by_cases hqp : q = p
      · subst hqp; rw [get_del_self] at hq; cases hq
      · by_cases hrp : r = p
        · subst hrp; rw [get_del_self] at hr; cases hr
        · rw [get_del_other _ _ _ hqp] at hq
          rw [get_del_other _ _ _ hrp] at hr
          exact h.inj q r j hq hr
    · intro j hj
      simp only [getElem?_set_some]
      rcases List.mem_cons.mp hj with rfl | hj
      · simp [hi]
      · split
        · rfl
        · exact h.vac j hj
    · refine List.nodup_cons.mpr ⟨?_, h.nodup⟩
      intro hmem
      have := h.vac i hmem
      rw [hc0] at this; cases this

theorem remove_lookup_self (s : St) (p : Nat) (h : Inv s) : lookup (removePath s p).1 p = none := by
  unfold removePath
  cases hg : idOf s.ids p with
  | none => simp [lookup, hg]
  | some i => simp [lookup, get_del_self]

theorem remove_lookup_other (s : St) (p q : Nat) (h : Inv s) (hq : q ≠ p) :
    lookup (removePath s p).1 q = lookup s q := by
  unfold removePath
  cases hg : idOf s.ids p with
  | none => rfl
  | some i =>
    simp only [lookup, get_del_other _ _ _ hq]
    cases hgq : idOf s.ids q with
    | none => rfl
    | some j =>
      have hne : i ≠ j := fun e => hq (h.inj q p j hgq (e ▸ hg))
      simp only [List.getElem?_set_ne hne]

/-! ### every history -/

theorem inv_step (s : St) (op : Op) (h : Inv s) : Inv (step s op) := by
  cases op with
  | set p c => exact inv_set s p c h
  | remove p => exact inv_remove s p h

theorem inv_foldl (ops : List Op) (s : St) (h : Inv s) : Inv (ops.foldl step s) := by
  induction ops generalizing s with
  | nil => exact h
  | cons op ops ih => exact ih _ (inv_step s op h)

/-- the invariant holds in every reachable state -/
theorem reachable_inv (ops : List Op) : Inv (run ops) := inv_foldl ops init inv_init

theorem step_refines (s : St) (op : Op) (m : Nat → Option Nat) (h : Inv s)
    (hm : ∀ q, (lookup s q).map (·.2) = m q) : ∀ q, (lookup (step s op) q).map (·.2) = specStep m op q := by
  intro q
  cases op with
  | set p c =>
    simp only [step, specStep]
    by_cases hq : q = p
    · subst hq; rw [set_lookup_self s q c h]; simp
    · rw [set_lookup_other s p c q h hq]; simp [hq, hm q]
  | remove p =>
    simp only [step, specStep]
    by_cases hq : q = p
    · subst hq; rw [remove_lookup_self s q h]; simp
    · rw [remove_lookup_other s p q h hq]; simp [hq, hm q]

theorem foldl_refines (ops : List Op) (s : St) (m : Nat → Option Nat) (h : Inv s)
    (hm : ∀ q, (lookup s q).map (·.2) = m q) :
    ∀ q, (lookup (ops.foldl step s) q).map (·.2) = ops.foldl specStep m q := by
  induction ops generalizing s m with
  | nil => exact hm
  | cons op ops ih => exact ih _ _ (inv_step s op h) (step_refines s op m h hm)

/-- **the document store is a map**: after any history of `set_path_content` / `remove_uri` the content the
server holds for a path is the content the map path ↦ content holds -/
theorem refines_map (ops : List Op) (q : Nat) : (lookup (run ops) q).map (·.2) = specRun ops q :=
  foldl_refines ops init (fun _ => none) inv_init (fun q => by simp [lookup, init, idOf]) q

/-- two loaded paths never have the same id -/
theorem ids_injective (ops : List Op) (p q i c c' : Nat)
    (hp : lookup (run ops) p = some (i, c)) (hq : lookup (run ops) q = some (i, c')) : p = q := by
  have h := reachable_inv ops
  simp only [lookup] at hp hq
  cases hgp : idOf (run ops).ids p with
  | none => simp [hgp] at hp
  | some ip =>
    cases hgq : idOf (run ops).ids q with
    | none => simp [hgq] at hq
    | some iq =>
      rw [hgp] at hp; rw [hgq] at hq
      have e1 : ip = i := by
        cases hs : (run ops).slots[ip]? with
        | none => simp [hs] at hp
        | some o => cases o with
          | none => simp [hs] at hp
          | some c0 => simp [hs] at hp; exact hp.1
      have e2 : iq = i := by
        cases hs : (run ops).slots[iq]? with
        | none => simp [hs] at hq
        | some o => cases o with
          | none => simp [hs] at hq
          | some c0 => simp [hs] at hq; exact hq.1
      exact h.inj p q i (e1 ▸ hgp) (e2 ▸ hgq)

/-- a slot freed by a removal is taken again by the next new path (the history the two seeded changes need) -/
example : (lookup (run [.set 0 10, .set 1 11, .set 2 12, .remove 0, .set 3 13]) 3,
           lookup (run [.set 0 10, .set 1 11, .set 2 12, .remove 0, .set 3 13]) 2) = (some (0, 13), some (2, 12)) := by
  decide

end Glas.Props.C15Ids
