import Glas.Model.Project
import Glas.Lemmas.Project
/-!
# C17 — modules and packages resolve according to the project layout (path functions)
-/
namespace Glas.Props.C17
open Glas.Project

/-- a module file `<root>/<src|test|…>/<segs…>/<n>.gleam` is importable as `segs…/n` -/
theorem moduleName_spec (root : Path) (d : Comp) (segs : List Comp) (n : Comp) (hn : n ≠ []) :
    moduleName root (root ++ [d] ++ segs ++ [n ++ gleamExt]) = some (joinSlash (segs ++ [n])) := by
  have hpath : root ++ [d] ++ segs ++ [n ++ gleamExt] = root ++ ([d] ++ segs ++ [n ++ gleamExt]) := by
    simp
  rw [hpath]
  unfold moduleName
  simp only [isPrefix_append, Bool.not_true, Bool.false_eq_true, if_false, List.drop_left]
  simp [stripGleam_append n hn]

/-- a file whose last component is not `<stem>.gleam` is no module -/
theorem moduleName_other_ext (root rel : Path) (last : Comp) (h : stripGleam last = none) :
    moduleName root (root ++ rel ++ [last]) = none := by
  have hpath : root ++ rel ++ [last] = root ++ (rel ++ [last]) := by simp
  rw [hpath]
  unfold moduleName
  simp only [isPrefix_append, Bool.not_true, Bool.false_eq_true, if_false, List.drop_left]
  simp [h]

/-- **each file belongs to the innermost package root containing it**: the assigned root is one of
the roots, a prefix of the path, and no root that is a prefix is longer -/
theorem assignRoot_innermost (roots : List Path) (path r : Path) (h : assignRoot roots path = some r) :
    r ∈ roots ∧ isPrefix r path = true ∧ ∀ r' ∈ roots, isPrefix r' path = true → r'.length ≤ r.length := by
  rw [assignRoot_eq] at h
  obtain ⟨hm, hall, _⟩ := foldl_pick_inv _ _ _ h
  have hmem : r ∈ roots.filter (fun r => isPrefix r path) := by
    rcases hm with hm | hm
    · exact hm
    · cases hm
  rw [List.mem_filter] at hmem
  refine ⟨hmem.1, hmem.2, ?_⟩
  intro r' hr' hp'
  exact hall r' (List.mem_filter.2 ⟨hr', hp'⟩)

/-- a file under some root is always assigned a root -/
theorem assignRoot_total (roots : List Path) (path r : Path) (hr : r ∈ roots) (hp : isPrefix r path = true) :
    ∃ r', assignRoot roots path = some r' := by
  rw [assignRoot_eq]
  have hmem : r ∈ roots.filter (fun r => isPrefix r path) := List.mem_filter.2 ⟨hr, hp⟩
  cases hc : roots.filter (fun r => isPrefix r path) with
  | nil => rw [hc] at hmem; cases hmem
  | cons c cs =>
    simp only [List.foldl_cons, pick]
    exact foldl_pick_some cs c

/-- packages under `build/packages/<name>` are external, everything else is local -/
theorem isLocal_iff (root : Path) :
    isLocal root = false ↔ ∃ pre name, root = pre ++ ["build".toList, "packages".toList, name] := by
  unfold isLocal
  constructor
  · intro h
    split at h
    · rename_i name p g rest hrev
      have hroot : root = rest.reverse ++ [g, p, name] := by
        have := congrArg List.reverse hrev
        simpa using this
      simp only [Bool.not_eq_false', Bool.and_eq_true, beq_iff_eq] at h
      obtain ⟨rfl, rfl⟩ := h
      exact ⟨rest.reverse, name, hroot⟩
    · cases h
  · rintro ⟨pre, name, rfl⟩
    simp

/-- a free-standing file (no `gleam.toml` in any ancestor directory) has no project parent -/
theorem free_standing_none (path : Path) : findProjectParent (fun _ => false) path = none := by
  unfold findProjectParent
  exact findParentLoop_false_none _ _ _

/-- the project parent, when found, is an ancestor directory that contains a `gleam.toml` -/
theorem projectParent_has_toml (hasToml : Path → Bool) (path r : Path)
    (h : findProjectParent hasToml path = some r) : hasToml r = true ∧ isPrefix r path = true := by
  unfold findProjectParent at h
  exact findParentLoop_spec hasToml path _ path _ r (isPrefix_refl path) h

example : moduleName ["w".toList, "p".toList] ["w".toList, "p".toList, "src".toList, "a".toList, "b.gleam".toList] = some "a/b".toList := by decide
example : assignRoot [["w".toList, "p".toList], ["w".toList, "p".toList, "build".toList, "packages".toList, "d".toList]]
    ["w".toList, "p".toList, "build".toList, "packages".toList, "d".toList, "src".toList, "x.gleam".toList]
    = some ["w".toList, "p".toList, "build".toList, "packages".toList, "d".toList] := by decide

end Glas.Props.C17
