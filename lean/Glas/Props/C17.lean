import Glas.Model.Project
/-! C17: theorems being merged (placeholder) -/
namespace Glas.Props.C17
theorem placeholder : (1 : Nat) = 1 := rfl
end Glas.Props.C17
