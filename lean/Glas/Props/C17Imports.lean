import Glas.Model.Imports
import Glas.Lemmas.Imports
/-!
# C17 — an import resolves to the module of that name in the importing package or in a package it
directly depends on, and to nothing else (model of `Package::visible_modules`)
-/
namespace Glas.Props.C17Imports
open Glas.Imports

/-- **nothing else**: whatever an import resolves to is a module of that name of the importing
package itself or of one of its direct dependencies -/
theorem resolve_sound (g : Graph) (i : Nat) (p : Pkg) (m : Name) (f : Nat) (hp : g[i]? = some p)
    (h : resolve g i m = some f) :
    Has p m f ∨ ∃ q, DirectDep g p q ∧ Has q m f := by
  rw [resolve_eq m hp] at h
  rcases mem_inserted.mp (lastOf_some_mem h) with h | ⟨q, hq, h⟩
  · exact Or.inl h
  · exact Or.inr ⟨q, hq, h⟩

/-- **importable**: a module of that name in the importing package or in a direct dependency makes
the import resolve -/
theorem resolve_complete (g : Graph) (i : Nat) (p : Pkg) (m : Name) (hp : g[i]? = some p)
    (h : (∃ f, Has p m f) ∨ ∃ q f, DirectDep g p q ∧ Has q m f) :
    ∃ f, resolve g i m = some f := by
  rw [resolve_eq m hp]
  rcases h with ⟨f, h⟩ | ⟨q, f, hq, h⟩
  · exact lastOf_isSome_of_mem (f := f) (mem_inserted.mpr (Or.inl h))
  · exact lastOf_isSome_of_mem (f := f) (mem_inserted.mpr (Or.inr ⟨q, hq, h⟩))

/-- a package that is neither the importing one nor a direct dependency (for instance a dependency
of a dependency) contributes nothing: if no visible package has a module of that name the import
resolves to nothing -/
theorem transitive_invisible (g : Graph) (i : Nat) (p : Pkg) (m : Name) (hp : g[i]? = some p)
    (hown : ∀ f, ¬ Has p m f) (hdeps : ∀ q f, DirectDep g p q → ¬ Has q m f) :
    resolve g i m = none := by
  rw [resolve_eq m hp]
  apply lastOf_eq_none_of_not_mem
  intro f hf
  rcases mem_inserted.mp hf with h | ⟨q, hq, h⟩
  · exact hown f h
  · exact hdeps q f hq h

/-- the importing package's own module wins over a dependency's module of the same name -/
theorem own_wins (g : Graph) (i : Nat) (p : Pkg) (m : Name) (f : Nat) (hp : g[i]? = some p)
    (hu : UniqueNames p) (h : Has p m f) :
    resolve g i m = some f := by
  rw [resolve_eq m hp]
  unfold inserted
  exact lastOf_append_of_some _ (lastOf_of_mem_unique hu h)

/-- when exactly one visible package has a module of that name (the situation the property speaks
of), the import resolves to that module whatever the order of the dependencies -/
theorem unique_candidate (g : Graph) (i : Nat) (p q : Pkg) (m : Name) (f : Nat) (hp : g[i]? = some p)
    (hq : DirectDep g p q) (hu : UniqueNames q) (h : Has q m f)
    (hown : ∀ f', ¬ Has p m f')
    (hothers : ∀ q' f', DirectDep g p q' → Has q' m f' → q' = q) :
    resolve g i m = some f := by
  rw [resolve_eq m hp]
  apply lastOf_eq_of_all
  · exact ⟨f, mem_inserted.mpr (Or.inr ⟨q, hq, h⟩)⟩
  · intro f' hf'
    rcases mem_inserted.mp hf' with h' | ⟨q', hq', h'⟩
    · exact absurd h' (hown f')
    · have := hothers q' f' hq' h'
      subst this
      exact file_unique_of_pairwise hu h' h

/-- the premises are satisfiable and the model computes: app → [lib, core], lib → [core] -/
example :
    let core : Pkg := { deps := [], modules := [("util".toList, 5)] }
    let lib : Pkg := { deps := [2], modules := [("lib/api".toList, 2), ("util".toList, 3)] }
    let app : Pkg := { deps := [1, 2], modules := [("main".toList, 0)] }
    let g : Graph := [app, lib, core]
    resolve g 0 "util".toList = some 5 ∧ resolve g 1 "util".toList = some 3 ∧
    resolve g 2 "lib/api".toList = none ∧ resolve g 0 "lib/api".toList = some 2 := by
  decide

end Glas.Props.C17Imports
