import Glas.Model.Conc
import Glas.Lemmas.Conc
import Glas.Gen.Choreo
/-!
# C12 — snapshots are isolated from later changes; changes cancel, never block (protocol model)
-/
namespace Glas.Props.C12
open Glas.Conc Glas.ChoreoSpec Glas.Gen

/-- the flags extracted from `ide/src/ide/mod.rs`: `apply_change` requests cancellation before it
applies the change, cancellation is a salsa synthetic write, every query runs under
`Cancelled::catch`, every public query goes through `with_db`, a snapshot is a database snapshot -/
theorem hostFlags_ok : hostFlags = { cancelBeforeApply := true, cancelIsSyntheticWrite := true, catchCancelled := true,
                                      allQueriesThroughWithDb := true, snapshotIsDbSnapshot := true } := by decide

/-- **isolation**: whatever happens meanwhile, a reader that answers answers from the revision its
snapshot was taken at — never a mixture, never a later revision -/
theorem isolation (s : Sys) (acts : List Act) (s' : Sys) (h : run s acts = some s')
    (hs : ∀ r ∈ s.readers, ∀ v, r.status = .done v → v = r.snapRev) :
    ∀ r ∈ s'.readers, ∀ v, r.status = .done v → v = r.snapRev := by
  refine run_invariant (fun s => ∀ r ∈ s.readers, ∀ v, r.status = .done v → v = r.snapRev) ?_ acts s s' h hs
  intro s a s1 hP hstep r hr
  rcases step_readers hstep r hr with h' | ⟨x, hx, e⟩ | ⟨w, e⟩
  · exact hP r h'
  · subst e; exact stepReader_done _ _ x (hP x hx)
  · subst e; simp

/-- with `Cancelled::catch` no reader ever crashes -/
theorem no_crash (s : Sys) (acts : List Act) (s' : Sys) (h : run s acts = some s')
    (hf : s.flags.catchCancelled = true) (hs : ∀ r ∈ s.readers, r.status ≠ .crashed) :
    ∀ r ∈ s'.readers, r.status ≠ .crashed := by
  refine (run_invariant (fun s => s.flags.catchCancelled = true ∧ ∀ r ∈ s.readers, r.status ≠ .crashed) ?_
    acts s s' h ⟨hf, hs⟩).2
  intro s a s1 hP hstep
  refine ⟨by rw [step_flags hstep]; exact hP.1, ?_⟩
  intro r hr
  rcases step_readers hstep r hr with h' | ⟨x, hx, e⟩ | ⟨w, e⟩
  · exact hP.2 r h'
  · subst e; exact stepReader_not_crashed _ _ x hP.1 (hP.2 x hx)
  · subst e; simp

/-- **the writer makes progress**: with cancel-before-apply, once `apply_change` has begun, one step
of every running reader (however long its query would have run) leaves no snapshot alive, so the
write is enabled -/
theorem writer_progress (s : Sys) (h1 : s.flags.cancelBeforeApply = true) (h2 : s.flags.cancelIsSyntheticWrite = true) :
    ∃ s', step (drain (beginApply s)) .applyWrite = some s' ∧ s'.rev = s.rev + 1 := by
  refine ⟨{ (drain (beginApply s)) with rev := s.rev + 1, cancelPending := false }, ?_, ?_⟩
  · have : (drain (beginApply s)).readers.any isRunning = false := by
      simp only [drain, beginApply, h1, h2, if_true]
      exact any_running_map_cancel _ _
    simp only [step, this]
    simp [drain, beginApply, h1]
  · rfl

/-- without cancellation the writer can be kept waiting for as long as a query runs: for every
bound there is a state in which that many steps do not enable the write -/
theorem no_cancel_blocks (n : Nat) :
    ∃ s : Sys, s.flags.cancelBeforeApply = false ∧
      step (Nat.repeat drain n (beginApply s)) .applyWrite = none := by
  refine ⟨{ flags := noFlags, rev := 0, cancelPending := false, readers := [⟨0, .running (n + 0)⟩] }, rfl, ?_⟩
  have hb : beginApply { flags := noFlags, rev := 0, cancelPending := false, readers := [⟨0, .running (n + 0)⟩] }
      = { flags := noFlags, rev := 0, cancelPending := false, readers := [⟨0, .running (n + 0)⟩] } := rfl
  rw [hb, repeat_drain_running n 0]
  rfl

/-- snapshots taken after a change see the new revision -/
theorem snapshot_after_write (s s1 s2 : Sys) (w : Nat) (h1 : step s .applyWrite = some s1)
    (h2 : step s1 (.snapshot w) = some s2) :
    ∃ r, s2.readers.getLast? = some r ∧ r.snapRev = s.rev + 1 := by
  simp only [step] at h1
  split at h1
  · simp at h1
  · simp at h1; subst h1
    simp [step] at h2; subst h2
    simp

example : run { flags := hostFlags, rev := 0, cancelPending := false, readers := [] }
    [.snapshot 5, .queryStep 0, .requestCancel, .queryStep 0, .applyWrite, .snapshot 0, .queryStep 1]
    = some { flags := hostFlags, rev := 1, cancelPending := false,
             readers := [⟨0, .cancelled⟩, ⟨1, .done 1⟩] } := by decide

end Glas.Props.C12
