import Glas.Model.Fields
import Glas.Lemmas.Fields
/-!
# C18 — what is offered after a dot

After `value.`: `accessor_iff` — a label is an accessor of a custom type exactly when the type has a
constructor and *every* constructor declares a field of that label with one and the same type (a label a
constructor repeats counts with its last type, as the `HashMap` of `lower_constructor` keeps it);
`accessors_nodup` — nothing is offered twice.  After `module.`: `moduleDot_iff` — an item is offered
exactly when the module declares a public function or a constructor of a public type under that name;
`private_never_offered`.  (Model: `Glas/Model/Fields.lean`, tied to completion triggered by `.` on
generated record types and modules.)
-/
namespace Glas.Props.C18Dot
open Glas.Fields

/-- the accessors of a custom type, stated outright -/
theorem accessor_iff (cs : List Ctor) (l : String) (t : Ty) :
    (l, t) ∈ commonFields cs ↔ cs ≠ [] ∧ ∀ c ∈ cs, getField l c = some t := by
  cases cs with
  | nil => simp [commonFields]
  | cons c cs =>
    simp only [commonFields, Glas.Lemmas.Fields.mem_foldl_retain, Glas.Lemmas.Fields.mem_toMap, ne_eq,
      reduceCtorEq, not_false_eq_true, true_and, List.mem_cons, forall_eq_or_imp]

/-- a field only some constructors have, or have with different types, is no accessor -/
theorem not_accessor_of_missing (cs : List Ctor) (l : String) (c : Ctor) (hc : c ∈ cs) (h : getField l c = none) :
    ∀ t, (l, t) ∉ commonFields cs := by
  intro t hm
  have := ((accessor_iff cs l t).mp hm).2 c hc
  rw [h] at this; cases this

theorem not_accessor_of_different (cs : List Ctor) (l : String) (c d : Ctor) (hc : c ∈ cs) (hd : d ∈ cs)
    (h : getField l c ≠ getField l d) : ∀ t, (l, t) ∉ commonFields cs := by
  intro t hm
  have h1 := ((accessor_iff cs l t).mp hm).2 c hc
  have h2 := ((accessor_iff cs l t).mp hm).2 d hd
  exact h (h1.trans h2.symm)

/-- no label is offered twice -/
theorem accessors_nodup (cs : List Ctor) : ((commonFields cs).map (·.1)).Nodup := by
  cases cs with
  | nil => simp [commonFields]
  | cons c cs =>
    simp only [commonFields]
    exact (Glas.Lemmas.Fields.labels_nodup c).sublist
      (((Glas.Lemmas.Fields.foldl_retain_sublist cs (toMap c)).map _).trans (Glas.Lemmas.Fields.toMap_keys_sublist c))

/-- after `module.`: exactly the public functions and the constructors of public types -/
theorem moduleDot_iff (ds : List Decl) (n : String) :
    n ∈ moduleDot ds ↔ ∃ d ∈ ds, d.name = n ∧ d.pub = true ∧ (d.kind = .function ∨ d.kind = .variant) := by
  simp only [moduleDot, List.mem_map, List.mem_filter, Bool.and_eq_true, Bool.or_eq_true, beq_iff_eq]
  constructor
  · rintro ⟨d, ⟨hd, hp, hk⟩, rfl⟩; exact ⟨d, hd, rfl, hp, hk⟩
  · rintro ⟨d, hd, rfl, hp, hk⟩; exact ⟨d, ⟨hd, hp, hk⟩, rfl⟩

/-- a name the module declares only privately is never offered, whatever else carries other names -/
theorem private_never_offered (ds : List Decl) (n : String) (h : ∀ d ∈ ds, d.name = n → d.pub = false) :
    n ∉ moduleDot ds := by
  intro hm
  obtain ⟨d, hd, hn, hp, _⟩ := (moduleDot_iff ds n).mp hm
  rw [h d hd hn] at hp; cases hp

/-! ## non-vacuity -/

example : commonFields [[("size", "Int"), ("name", "String")], [("name", "String"), ("size", "Float")]]
    = [("name", "String")] := by decide

/-- a private type's constructor called like a public type is not offered; the public type's own constructor is -/
example : moduleDot [⟨"Token", .adt, true⟩, ⟨"Lexeme", .variant, true⟩, ⟨"Internal", .adt, false⟩,
    ⟨"Token", .variant, false⟩, ⟨"make", .function, true⟩, ⟨"helper", .function, false⟩, ⟨"limit", .const, true⟩]
    = ["Lexeme", "make"] := by decide

end Glas.Props.C18Dot
