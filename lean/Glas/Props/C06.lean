import Glas.Model.Search
import Glas.Lemmas.Search
/-!
# C06 — find-references and go-to-definition are inverse views (the search layer)
-/
namespace Glas.Props.C06
open Glas.Search

/-- membership in `references`, stated outright -/
theorem refs_iff (toks : List Tok) (d : DefInfo) (r : Ref) :
    r ∈ references toks d ↔
      ∃ n t, d.searchName = some n ∧ t ∈ toks ∧ r = (t.file, t.start, t.stop) ∧
        t.file ∈ d.scope ∧ t.text = n ∧ t.castable = true ∧ t.cls = some d.id := by
  exact mem_references toks d r

/-- nothing is listed twice -/
theorem refs_nodup (toks : List Tok) (d : DefInfo) : (references toks d).Nodup := by
  unfold references
  cases d.searchName with
  | none => simp
  | some n => exact nodup_eraseDups _

/-- document highlight is precisely the part of the references lying in the current file -/
theorem highlight_iff (toks : List Tok) (d : DefInfo) (file : Nat) (r : Ref) :
    r ∈ highlight toks d file ↔ r ∈ references toks d ∧ r.1 = file := by
  unfold highlight
  simp [List.mem_filter]

/-- the counterexample to `exact_iff`: all its hypotheses hold, the range of `t` is listed, and `t`
does not classify to `d` -/
theorem exact_iff_counterexample :
    let t : Tok := ⟨0, 4, 5, "x", true, some 8⟩
    let t' : Tok := ⟨0, 4, 5, "x", true, some 7⟩
    let d : DefInfo := ⟨7, some "x", [0]⟩
    d.searchName = some "x" ∧ (∀ u ∈ [t, t'], u.file ∈ d.scope) ∧ t ∈ [t, t'] ∧ t.castable = true ∧
      t.text = "x" ∧ (t.file, t.start, t.stop) ∈ references [t, t'] d ∧ t.cls ≠ some d.id := by
  decide

/-- hence the statement of `exact_iff`, universally quantified, is refutable -/
theorem exact_iff_refuted :
    ¬ (∀ (toks : List Tok) (d : DefInfo) (declName : String),
        d.searchName = some declName → (∀ t ∈ toks, t.file ∈ d.scope) →
        ∀ (t : Tok), t ∈ toks → t.castable = true → t.text = declName →
        ((t.file, t.start, t.stop) ∈ references toks d ↔ t.cls = some d.id)) := by
  intro h
  obtain ⟨h1, h2, h3, h4, h5, h6, h7⟩ := exact_iff_counterexample
  exact h7 ((h _ _ _ h1 h2 _ h3 h4 h5).mp h6)

/-- direction `←` of the gap lemma, as stated -/
theorem listed_of_cls (toks : List Tok) (d : DefInfo) (declName : String)
    (hname : d.searchName = some declName) (hscope : ∀ t ∈ toks, t.file ∈ d.scope)
    (t : Tok) (ht : t ∈ toks) (hcast : t.castable = true) (hspell : t.text = declName)
    (hcls : t.cls = some d.id) : (t.file, t.start, t.stop) ∈ references toks d :=
  (mem_references _ _ _).mpr ⟨declName, t, hname, ht, rfl, hscope t ht, hspell, hcast, hcls⟩

/-- **the gap lemma, corrected**: with the additional premise that a range determines the
classification (`huniq`, as in `refs_closed`) -/
theorem exact_iff (toks : List Tok) (d : DefInfo) (declName : String)
    (hname : d.searchName = some declName) (hscope : ∀ t ∈ toks, t.file ∈ d.scope)
    (t : Tok) (ht : t ∈ toks) (hcast : t.castable = true) (hspell : t.text = declName)
    (huniq : ∀ t' ∈ toks, (t'.file, t'.start, t'.stop) = (t.file, t.start, t.stop) → t'.cls = t.cls) :
    (t.file, t.start, t.stop) ∈ references toks d ↔ t.cls = some d.id := by
  constructor
  · intro hr
    obtain ⟨n, t', hn, ht', heq, -, -, -, hcls⟩ := (mem_references _ _ _).mp hr
    rw [← huniq t' ht' heq.symm, hcls]
  · exact listed_of_cls toks d declName hname hscope t ht hcast hspell

/-! ### the search scope (`Definition::search_scope`) -/

/-- the definition's own module is always searched - also when it belongs to no package of the graph (a free-standing
file; before /repo fix 4b98c21 the scope of a module-level definition was the package graph alone) -/
theorem own_in_scope (graphFiles : List Nat) (isLocal : Bool) (own : Nat) :
    own ∈ searchScope graphFiles isLocal own := by
  unfold searchScope
  split <;> simp

/-- every module of a package of the graph is searched for a module-level definition -/
theorem graph_in_scope (graphFiles : List Nat) (own f : Nat) (h : f ∈ graphFiles) :
    f ∈ searchScope graphFiles false own := by
  simp [searchScope, h]

/-- a local is searched in its own module only -/
theorem local_scope (graphFiles : List Nat) (own f : Nat) :
    f ∈ searchScope graphFiles true own ↔ f = own := by
  simp [searchScope]

/-- **`exact_iff` with the scope computed**: an occurrence spelled with the declaration's name that lies in the
definition's own module or in a module of a package of the graph (for a local: in its own module) is listed exactly
when it classifies to the definition -/
theorem exact_iff_scoped (toks : List Tok) (id : Nat) (declName : String) (graphFiles : List Nat) (isLocal : Bool) (own : Nat)
    (t : Tok) (ht : t ∈ toks) (hcast : t.castable = true) (hspell : t.text = declName)
    (hfile : t.file = own ∨ (isLocal = false ∧ t.file ∈ graphFiles))
    (huniq : ∀ t' ∈ toks, (t'.file, t'.start, t'.stop) = (t.file, t.start, t.stop) → t'.cls = t.cls) :
    (t.file, t.start, t.stop) ∈ references toks ⟨id, some declName, searchScope graphFiles isLocal own⟩ ↔ t.cls = some id := by
  constructor
  · intro hr
    obtain ⟨n, t', hn, ht', heq, -, -, -, hcls⟩ := (mem_references _ _ _).mp hr
    rw [← huniq t' ht' heq.symm, hcls]
  · intro hcls
    refine (mem_references _ _ _).mpr ⟨declName, t, rfl, ht, rfl, ?_, hspell, hcast, hcls⟩
    rcases hfile with h | ⟨hl, h⟩
    · rw [h]; exact own_in_scope _ _ _
    · subst hl; exact graph_in_scope _ _ _ h

/-- the scope before the fix missed the declaration itself for a free-standing module (no package: empty graph) -/
example : (5 : Nat) ∉ ([] : List Nat) ∧ 5 ∈ searchScope [] false 5 := by simp [searchScope]

/-- asking again from any listed occurrence gives the same set: the answer depends only on the
definition the occurrence classifies to -/
theorem refs_closed (toks : List Tok) (defs : Nat → DefInfo) (hid : ∀ i, (defs i).id = i)
    (d : Nat) (t : Tok) (ht : t ∈ toks) (hr : (t.file, t.start, t.stop) ∈ references toks (defs d))
    (huniq : ∀ t' ∈ toks, (t'.file, t'.start, t'.stop) = (t.file, t.start, t.stop) → t'.cls = t.cls) :
    ∃ d', t.cls = some d' ∧ references toks (defs d') = references toks (defs d) := by
  have _ := ht
  obtain ⟨n, t', hn, ht', heq, -, -, -, hcls⟩ := (mem_references _ _ _).mp hr
  have h := huniq t' ht' heq.symm
  rw [hid] at hcls
  exact ⟨d, by rw [← h, hcls], rfl⟩

example : references
    [⟨0, 4, 5, "x", true, some 7⟩, ⟨0, 9, 10, "x", true, some 8⟩, ⟨1, 2, 3, "x", true, some 7⟩, ⟨0, 4, 5, "x", true, some 7⟩]
    ⟨7, some "x", [0, 1]⟩ = [(0, 4, 5), (1, 2, 3)] := by decide

end Glas.Props.C06
