import Glas.Model.Dsl
import Glas.Gen.Parser
/-!
# C02, obligations (d) and (e): witnesses that the *current* parser violates them

The full-strength C02 also demands that the parser's own progress guard (`parser is stuck`, 1024
look-aheads without a `bump` or a finished node) never fires and that recursion depth is bounded.  The first
used to be false on deep nesting (repaired, see `stuck_repaired`); the second still is.  These are kernel-evaluated witnesses on the generated program; they are replayed on
the implementation by the check (`KNOWN-FINDING C02/stuck/...`).  This module is built separately:
when the defect is repaired in /repo these witnesses stop checking, which is reported as information
and never as a violation.
-/
namespace Glas.Props.C02Witness
open Glas.Dsl Glas.Gen

/-- `fn f() {` followed by `n` unclosed `[` -/
def unclosed (n : Nat) : List Kind :=
  [K_FN_KW, K_IDENT, K_L_PAREN, K_R_PAREN, K_L_BRACE] ++ List.replicate n K_L_SQUARE

/-- 185 unclosed `[` at end of input used to exhaust the look-ahead fuel while the parser unwinds (recorded finding
`C02/stuck/unclosed-openers-at-eof`, repaired in /repo e83622f: a finished node refills the budget); the run now ends -/
theorem stuck_repaired :
    (match runMain glasProg 200000 (unclosed 185) with | .ok _ => true | _ => false) = true := by
  decide +kernel

/-- recursion depth grows linearly with the nesting (no nesting limit): 100 unclosed `[` reach call
depth 405 -/
theorem depth_witness :
    (match runMain glasProg 200000 (unclosed 100) with | .ok σ => decide (400 ≤ σ.maxDepth) | _ => false) = true := by
  decide +kernel

end Glas.Props.C02Witness
