import Glas.Lemmas.Text
import Glas.Model.TextSpec
/-!
# C19 — the semantic-token stream decodes to exactly the highlighted identifiers (encoder half)
-/
namespace Glas.Props.C19
open Glas.Text

/-- column conversion inside one line: the UTF-16 column of a character boundary is mapped to its
byte offset (the loop of `pos_for_line_col`) -/
theorem col_to_byte (cs : List Char) (k : Nat) (hk : k ≤ cs.length) :
    posForCol (diffsOf cs 0) (u16sum (cs.take k)) = u8sum (cs.take k) := by
  have := posForCol_correct cs 0 k hk
  simpa using this

example : toSemanticTokens (lineMap "ß💣f\ng".toList)
    ([(2, 3, 1), (4, 5, 2)].map (hlBytes "ß💣f\ng".toList)) (0, 0) [] =
    some [⟨0, 3, 1, 1⟩, ⟨1, 0, 1, 2⟩] := by decide

end Glas.Props.C19
