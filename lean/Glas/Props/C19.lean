import Glas.Lemmas.Text
import Glas.Lemmas.TextSem
import Glas.Model.TextSpec
/-!
# C19 — the semantic-token stream decodes to exactly the highlighted identifiers (encoder half)
-/
namespace Glas.Props.C19
open Glas.Text

/-- encoding never fails and decodes, by the LSP rules, to exactly the highlighted
`(line, UTF-16 start, UTF-16 length, type)` — whatever characters precede a token on its line -/
theorem decode_encode (t : List Char) (hls : List Hl) (hok : ∀ h ∈ hls, hlOk t h)
    (hs : hlSorted hls) (hlen : u8sum t < U32) :
    ∃ ts, toSemanticTokens (lineMap t) (hls.map (hlBytes t)) (0, 0) [] = some ts ∧
      decode ts = hls.map (hlExpected t) := by
  have _ := hlen
  have := encode_gen t hls (0, 0) [] [] hok hs
    (by intro h hls' _; unfold posLe; simp only; omega)
    (by intro more; simp [decode])
  simpa using this

/-- the decoded tokens are strictly increasing in `(line, start)` and do not overlap -/
theorem strictly_increasing (t : List Char) (hls : List Hl) (hok : ∀ h ∈ hls, hlOk t h)
    (hs : hlSorted hls) :
    List.Pairwise (fun a b => posLt (a.1, a.2.1 + a.2.2.1 - 1) (b.1, b.2.1)) (hls.map (hlExpected t)) := by
  rw [List.pairwise_map]
  have hp := hlSorted_pairwise hls (fun h hh => (hok h hh).1) hs
  exact hp.imp_of_mem (fun {a b} ha hb hab => hl_pair_lt t a b (hok a ha) (hok b hb) hab)

/-- every decoded token lies inside its line -/
theorem inside_line (t : List Char) (h : Hl) (hok : hlOk t h) :
    (hlExpected t h).2.1 + (hlExpected t h).2.2.1 ≤ lineLen16 t (hlExpected t h).1 ∧
    0 < (hlExpected t h).2.2.1 := by
  exact hl_inside t h hok

example : toSemanticTokens (lineMap "ß💣f\ng".toList)
    ([(2, 3, 1), (4, 5, 2)].map (hlBytes "ß💣f\ng".toList)) (0, 0) [] =
    some [⟨0, 3, 1, 1⟩, ⟨1, 0, 1, 2⟩] := by decide

end Glas.Props.C19
