import Glas.Props.C10Collect
import Glas.Lemmas.CollectSpec
/-!
# C11 ("the same workspace gives the same answers ... in every query order"), the collector's part

`finish_infer` asks one collector for the type variables of a recursion group in the order a hash map hands them
out.  `C10Collect.order_matters` shows a cyclic table on which that order changes an answer (the recorded finding).
Here is the other half: **on a table without cyclic types the answer, up to the letters chosen for type
variables, is the plain unfolding of the table - whatever the collector was asked before.**  So the order of the
requests can show in a displayed type only through a cycle cut (`?`) or through letters (the other recorded finding).
-/
namespace Glas.Props.C11Collect
open Glas.UF Glas.Collect Glas.Lemmas.Collect Glas.Props.C10Collect

theorem collect_spec_ok (tbl : Table N) (hwf : WF tbl) (hcl : Closed tbl) (h : Nat → Nat) (hac : Acyclic tbl h) :
    ∀ fuel x st, x < tbl.length → st.cache.length = tbl.length → pending st < fuel →
      InvS tbl h st (h (rootOf tbl x) + 1) →
      ∃ t st', collect tbl fuel x st = .ok t st' ∧ Step tbl.length st st' ∧ GoodT tbl h (rootOf tbl x) t ∧
        FrameS tbl h st st' := by
  intro fuel
  induction fuel with
  | zero => intro x st _ _ hp; omega
  | succ fuel ih =>
    intro x st hx hl hp hinv
    have hr := rootOf_lt hwf hx
    have hroot : parentOf tbl (rootOf tbl x) = rootOf tbl x := root_fuelOf_isRoot hwf x
    obtain ⟨node, hnode⟩ := rootOf_val hwf hx
    have hget : ∃ c, st.cache[rootOf tbl x]? = some c := by
      rw [List.getElem?_eq_getElem (by omega)]; exact ⟨_, rfl⟩
    obtain ⟨c, hc⟩ := hget
    cases c with
    | some t =>
      refine ⟨t, st, ?_, ⟨hl, Nat.le_refl _⟩, ?_, FrameS.refl st⟩
      · simp only [collect, hx, if_true, hc]
      · rcases hinv _ t hc with g | g
        · exact g
        · omega
    | none =>
      have hp1 := setCache_pending_of_none st (rootOf tbl x) .unknown hc
      have hl1 : (setCache st (rootOf tbl x) .unknown).cache.length = tbl.length := by
        rw [setCache_length]; exact hl
      have hinv1 : InvS tbl h (setCache st (rootOf tbl x) .unknown) (h (rootOf tbl x)) := by
        intro j t e
        by_cases hj : rootOf tbl x = j
        · subst hj; exact Or.inr (Nat.le_refl _)
        · rw [setCache_get_ne _ _ _ _ hj] at e
          rcases hinv j t e with g | g
          · exact Or.inl g
          · exact Or.inr (by omega)
      have hrec : RecOk3 tbl h (pending (setCache st (rootOf tbl x) .unknown)) (h (rootOf tbl x)) (collect tbl fuel) := by
        intro y sty hy hly hpy hlt hiy
        exact ih y sty hy hly (by omega) (InvS.mono (a := h (rootOf tbl x)) hiy (by omega))
      have hch : ∀ c ∈ node.children, c < tbl.length ∧ h (rootOf tbl c) < h (rootOf tbl x) :=
        fun c hc' => ⟨hcl _ node hnode c hc', hac _ node hr hroot hnode c hc'⟩
      obtain ⟨t, st', h1, s1, n1, e1, f1⟩ := collectNode_ok3 tbl h _ _ (collect tbl fuel) hrec node
        (setCache st (rootOf tbl x) .unknown) hch hl1 (Nat.le_refl _) hinv1
      have hgood : GoodT tbl h (rootOf tbl x) t := by
        refine ⟨n1, ?_⟩
        rw [e1]
        simp only [specC, hnode]
        apply specNode_congr
        intro c hc'
        have hcc := hch c hc'
        have hrc := rootOf_lt hwf hcc.1
        have hrr : parentOf tbl (rootOf tbl c) = rootOf tbl c := root_fuelOf_isRoot hwf c
        simp only [childSpec]
        exact (specC_stable tbl hwf hcl h hac (h (rootOf tbl c)) (rootOf tbl c) (h (rootOf tbl x)) (Nat.le_refl _) hrc hrr (by omega)).symm
      refine ⟨t, setCache st' (rootOf tbl x) t, ?_, ⟨?_, ?_⟩, hgood, ?_⟩
      · simp only [collect, hx, if_true, hc, hnode, h1]
      · rw [setCache_length]; exact s1.len
      · have := setCache_pending_le st' (rootOf tbl x) t
        have := s1.pend
        omega
      · intro j t' e
        by_cases hj : rootOf tbl x = j
        · subst hj
          rw [setCache_get st' _ t (by rw [s1.len]; exact hr)] at e
          cases e
          exact Or.inl hgood
        · rw [setCache_get_ne _ _ _ _ hj] at e
          rcases f1 j t' e with g | g
          · exact Or.inl g
          · rw [setCache_get_ne _ _ _ _ hj] at g
            exact Or.inr g

/-- every finished entry of the cache is the unfolding of its class -/
def Faithful (tbl : Table N) (h : Nat → Nat) (st : St) : Prop :=
  ∀ (j : Nat) (t : T), st.cache[j]? = some (some t) → GoodT tbl h j t

theorem initSt_faithful (tbl : Table N) (h : Nat → Nat) : Faithful tbl h (initSt tbl) := by
  intro j t e
  simp only [initSt] at e
  rw [List.getElem?_replicate] at e
  split at e <;> simp at e

/-- **C11 (collector, acyclic tables)**: whatever was asked before (any faithful state - every state a collector
reaches from `Collector::new` on this table is one), the answer for `x` is placeholder-free and, letters erased,
the unfolding of `x`'s class; the state stays faithful -/
theorem collect_is_unfolding (tbl : Table N) (hwf : WF tbl) (hcl : Closed tbl) (h : Nat → Nat) (hac : Acyclic tbl h)
    (x : Nat) (st : St) (hx : x < tbl.length) (hl : st.cache.length = tbl.length) (hf : Faithful tbl h st) :
    ∃ t st', collect tbl (fuelFor tbl) x st = .ok t st' ∧ noUnk t = true ∧
      eraseL t = specC tbl (h (rootOf tbl x) + 1) (rootOf tbl x) ∧
      Faithful tbl h st' ∧ st'.cache.length = tbl.length := by
  have hp : pending st < fuelFor tbl := by
    have : pending st ≤ st.cache.length := by
      simp only [pending]; exact List.length_filter_le _ _
    unfold fuelFor; omega
  obtain ⟨t, st', h1, s1, g1, f1⟩ := collect_spec_ok tbl hwf hcl h hac _ x st hx hl hp
    (fun j t e => Or.inl (hf j t e))
  refine ⟨t, st', h1, g1.1, g1.2, ?_, s1.len⟩
  intro j t' e
  rcases f1 j t' e with g | g
  · exact g
  · exact hf j t' g

/-- **order independence**: two collectors with different pasts give, letters erased, the same answer for `x` -/
theorem order_independent (tbl : Table N) (hwf : WF tbl) (hcl : Closed tbl) (h : Nat → Nat) (hac : Acyclic tbl h)
    (x : Nat) (st1 st2 : St) (hx : x < tbl.length)
    (hl1 : st1.cache.length = tbl.length) (hl2 : st2.cache.length = tbl.length)
    (hf1 : Faithful tbl h st1) (hf2 : Faithful tbl h st2) :
    ∃ t1 s1 t2 s2, collect tbl (fuelFor tbl) x st1 = .ok t1 s1 ∧ collect tbl (fuelFor tbl) x st2 = .ok t2 s2 ∧
      eraseL t1 = eraseL t2 := by
  obtain ⟨t1, s1, a1, _, e1, _, _⟩ := collect_is_unfolding tbl hwf hcl h hac x st1 hx hl1 hf1
  obtain ⟨t2, s2, a2, _, e2, _, _⟩ := collect_is_unfolding tbl hwf hcl h hac x st2 hx hl2 hf2
  exact ⟨t1, s1, t2, s2, a1, a2, by rw [e1, e2]⟩

/-- ... and for a whole run: the answers of `collectAll` are, letters erased, the unfoldings of the requested
variables, in the order of the requests - nothing of an answer depends on the other requests -/
theorem collectAll_is_unfolding (tbl : Table N) (hwf : WF tbl) (hcl : Closed tbl) (h : Nat → Nat) (hac : Acyclic tbl h) :
    ∀ (xs : List Nat) (st : St) (acc : List T), (∀ x ∈ xs, x < tbl.length) → st.cache.length = tbl.length →
      Faithful tbl h st →
      ∃ ts st', collectAll tbl xs st acc = .ok ts st' ∧
        ts.map eraseL = acc.reverse.map eraseL ++ xs.map (fun x => specC tbl (h (rootOf tbl x) + 1) (rootOf tbl x)) := by
  intro xs
  induction xs with
  | nil => intro st acc _ _ _; exact ⟨acc.reverse, st, rfl, by simp⟩
  | cons x xs ih =>
    intro st acc hx hl hf
    obtain ⟨t, st', h1, _, e1, f1, l1⟩ := collect_is_unfolding tbl hwf hcl h hac x st (hx x (by simp)) hl hf
    obtain ⟨ts, st2, h2, e2⟩ := ih st' (t :: acc) (fun y hy => hx y (by simp [hy])) l1 f1
    refine ⟨ts, st2, ?_, ?_⟩
    · simp only [collectAll, h1, h2]
    · rw [e2]; simp [e1]

/-- non-vacuity: the acyclic example of C10Collect meets the hypotheses with heights 2, 1, 0 -/
def height : Nat → Nat
  | 0 => 2
  | 1 => 1
  | _ => 0

theorem acyclicExample_wf : WF acyclicExample := by
  intro i hi
  have : i = 0 ∨ i = 1 ∨ i = 2 := by simp [acyclicExample] at hi; omega
  rcases this with rfl | rfl | rfl <;> simp [acyclicExample, parentOf, rankOf, valOf]

theorem acyclicExample_closed : Closed acyclicExample := by
  intro i n hv c hc
  have : i = 0 ∨ i = 1 ∨ i = 2 ∨ 3 ≤ i := by omega
  rcases this with rfl | rfl | rfl | h3
  · simp [acyclicExample, valOf] at hv; subst hv; simp [N.children] at hc; subst hc; simp [acyclicExample]
  · simp [acyclicExample, valOf] at hv; subst hv; simp [N.children] at hc; subst hc; simp [acyclicExample]
  · simp [acyclicExample, valOf] at hv; subst hv; simp [N.children] at hc
  · have : acyclicExample[i]? = none := by
      apply List.getElem?_eq_none; simp [acyclicExample]; omega
    simp [valOf, this] at hv

theorem acyclicExample_acyclic : Acyclic acyclicExample height := by
  intro i node hi _ hv c hc
  have : i = 0 ∨ i = 1 ∨ i = 2 := by simp [acyclicExample] at hi; omega
  rcases this with rfl | rfl | rfl
  · simp [acyclicExample, valOf] at hv; subst hv; simp [N.children] at hc; subst hc; decide
  · simp [acyclicExample, valOf] at hv; subst hv; simp [N.children] at hc; subst hc; decide
  · simp [acyclicExample, valOf] at hv; subst hv; simp [N.children] at hc

example : (match collectAll acyclicExample [0, 1] (initSt acyclicExample) [] with | .ok ts _ => ts.map eraseL | _ => []) =
    [specC acyclicExample 3 0, specC acyclicExample 2 1] := by decide

end Glas.Props.C11Collect
