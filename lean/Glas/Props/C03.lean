import Glas.Model.Items
import Glas.Gen.Parser
import Glas.Lemmas.ItemsLocal
import Glas.Lemmas.ItemsSeg
/-!
# C03 — a syntax error inside one definition does not disturb the others: locality of items

The module loop parses one top-level item after the other (`runItem`).  What an item's parse does
depends only on the tokens from its first token up to two tokens past its last one; it does not
depend on anything before it.  Hence damage confined to one item cannot change how the others are
parsed, *provided the damaged item's parse still ends at the item's own end* — that last condition
is what the implementation-side oracle tests (and where the recorded defects are).
-/
namespace Glas.Props.C03
open Glas.Dsl Glas.Items Glas.Gen

/-- the generated parser never looks further ahead than two tokens -/
theorem glas_lookahead : progMaxNth glasProg ≤ 2 := by decide +kernel

/-- **suffix locality**: parsing an item that starts at token `pre.length` of `pre ++ suf` is parsing
it at token 0 of `suf`, with positions shifted — whatever precedes it (any program) -/
theorem item_suffix_local (P : Prog) (f n : Nat) (pre suf : List Kind) :
    (match runItem P f n (pre ++ suf) pre.length, runItem P f n suf 0 with
     | .ok a, .ok b => a.start = b.start + pre.length ∧ a.stop = b.stop + pre.length ∧
         evKinds a.events = evKinds b.events ∧
         a.errs = b.errs.map (fun e => (e.1, e.2.1, e.2.2 + pre.length))
     | .panic w, .panic w' => w = w'
     | .oof, .oof => True
     | _, _ => False) := by
  have h := Glas.Lemmas.ItemsLocal.runItem_shift P f n pre suf 0
  rw [Nat.zero_add] at h
  rw [h]
  cases runItem P f n suf 0 with
  | ok b => exact ⟨rfl, rfl, rfl, rfl⟩
  | panic w => exact rfl
  | oof => exact trivial

/-- **prefix determinism**: an item's parse is determined by the tokens up to `maxNth` past the
token it stops at: two token lists that agree that far give the same result -/
theorem item_prefix_det (P : Prog) (f n : Nat) (toks toks' : List Kind) (pos : Nat) (o : ItemOut)
    (h : runItem P f n toks pos = .ok o)
    (hagree : toks.take (o.stop + progMaxNth P + 1) = toks'.take (o.stop + progMaxNth P + 1))
    (hlen : o.stop + progMaxNth P + 1 ≤ toks.length ∧ o.stop + progMaxNth P + 1 ≤ toks'.length) :
    runItem P f n toks' pos = .ok o :=
  Glas.Lemmas.ItemsLocal.runItem_prefix P f n toks toks' pos o h ⟨hagree, hlen.1, hlen.2⟩

/-- **C03, conditional form, for the whole module loop.**  A file `pre ++ vic ++ post`; the definition(s) `vic` are
damaged into `vic'`, the first `progMaxNth P + 1` tokens (for the generated parser: three, `glas_lookahead`) staying
as they were.  IF the module loop over the damaged file, started at the victim, comes to stand exactly at the victim's
end (*containment* - the hypothesis the implementation-side oracle tests, and where the recorded defects are), THEN
the whole damaged file is parsed into: the very same items as before in front of the victim, whatever the victim has
become, and behind it the items `post` parses into on its own - the same as in the undamaged file, moved by the
change of length.  (Any program of the DSL; item by item, see `Glas/Model/Items.lean`.) -/
theorem C03_conditional (P : Prog) (f n : Nat) (pre vic vic' post : List Kind) (k1 k2 k3 : Nat)
    (ipre iv' ipost0 : List ItemOut)
    (hhead : vic.take (progMaxNth P + 1) = vic'.take (progMaxNth P + 1))
    (hlen : progMaxNth P + 1 ≤ vic.length) (hlen' : progMaxNth P + 1 ≤ vic'.length)
    (hpre : parseSeg P f n (pre ++ vic ++ post) k1 0 pre.length = some ipre)
    (hcontain : parseSeg P f n (pre ++ vic' ++ post) k2 pre.length (pre.length + vic'.length) = some iv')
    (hpost : parseSeg P f n post k3 0 post.length = some ipost0) :
    parseItems P f n (pre ++ vic' ++ post) (k1 + k2 + k3) =
        some (ipre ++ iv' ++ ipost0.map (fun o => o.shift (pre.length + vic'.length))) ∧
    parseSeg P f n (pre ++ vic ++ post) k3 (pre.length + vic.length) (pre ++ vic ++ post).length =
        some (ipost0.map (fun o => o.shift (pre.length + vic.length))) := by
  have htake : ∀ v : List Kind, progMaxNth P + 1 ≤ v.length →
      (pre ++ v ++ post).take (pre.length + progMaxNth P + 1) = pre ++ v.take (progMaxNth P + 1) := by
    intro v hv
    have e1 : pre.length + progMaxNth P + 1 = pre.length + (progMaxNth P + 1) := by omega
    rw [e1, List.append_assoc, List.take_length_add_append, List.take_append_of_le_length hv]
  have hag : Glas.Lemmas.ItemsLocal.Agree (pre.length + progMaxNth P + 1) (pre ++ vic ++ post) (pre ++ vic' ++ post) := by
    refine ⟨?_, by simp; omega, by simp; omega⟩
    rw [htake vic hlen, htake vic' hlen', hhead]
  have hpre' := Glas.Lemmas.ItemsSeg.parseSeg_prefix P f n _ _ pre.length hag k1 0 ipre hpre
  have hsh : ∀ (v : List Kind), parseSeg P f n (pre ++ v ++ post) k3 (pre.length + v.length) (pre ++ v ++ post).length =
      some (ipost0.map (fun o => o.shift (pre.length + v.length))) := by
    intro v
    have := Glas.Lemmas.ItemsSeg.parseSeg_shift P f n (pre ++ v) post k3 0 post.length
    simp only [List.length_append, Nat.zero_add] at this ⊢
    have e : pre.length + v.length + post.length = post.length + (pre.length + v.length) := by omega
    rw [e, this, hpost]
    rfl
  refine ⟨?_, hsh vic⟩
  unfold parseItems
  have h12 := Glas.Lemmas.ItemsSeg.parseSeg_append P f n _ k1 0 pre.length (pre.length + vic'.length) ipre iv' k2
    (Nat.zero_le _) (Nat.le_add_right _ _) hpre' hcontain
  have h123 := Glas.Lemmas.ItemsSeg.parseSeg_append P f n _ (k1 + k2) 0 (pre.length + vic'.length)
    (pre ++ vic' ++ post).length (ipre ++ iv') _ k3 (Nat.zero_le _) (by simp) h12 (hsh vic')
  exact h123

/-- non-vacuity on the generated parser: `fn a() { 1 }`, `fn b() { 2 }`, `fn c() { 3 }`; the body of `b` damaged into
`{ 1 ) , }`; the hypotheses hold and the items in front and behind are what they were -/
example :
    let fa := [K_FN_KW, K_IDENT, K_L_PAREN, K_R_PAREN, K_L_BRACE, K_INTEGER, K_R_BRACE]
    let vic' := [K_FN_KW, K_IDENT, K_L_PAREN, K_R_PAREN, K_L_BRACE, K_INTEGER, K_R_PAREN, K_COMMA, K_R_BRACE]
    ((parseSeg glasProg 1 4000 (fa ++ fa ++ fa) 3 0 7).map (fun l => l.map (fun o => (o.start, o.stop))) = some [(0, 7)]) ∧
    ((parseSeg glasProg 1 4000 (fa ++ vic' ++ fa) 3 7 16).map (fun l => l.map (fun o => (o.start, o.stop))) = some [(7, 16)]) ∧
    ((parseItems glasProg 1 4000 (fa ++ vic' ++ fa) 5).map (fun l => l.map (fun o => (o.start, o.stop, o.errs.length))) =
      some [(0, 7, 0), (7, 16, 2), (16, 23, 0)]) := by decide +kernel

end Glas.Props.C03
