import Glas.Model.Items
import Glas.Gen.Parser
import Glas.Lemmas.ItemsLocal
/-!
# C03 — a syntax error inside one definition does not disturb the others: locality of items

The module loop parses one top-level item after the other (`runItem`).  What an item's parse does
depends only on the tokens from its first token up to two tokens past its last one; it does not
depend on anything before it.  Hence damage confined to one item cannot change how the others are
parsed, *provided the damaged item's parse still ends at the item's own end* — that last condition
is what the implementation-side oracle tests (and where the recorded defects are).
-/
namespace Glas.Props.C03
open Glas.Dsl Glas.Items Glas.Gen

/-- the generated parser never looks further ahead than two tokens -/
theorem glas_lookahead : progMaxNth glasProg ≤ 2 := by decide +kernel

/-- **suffix locality**: parsing an item that starts at token `pre.length` of `pre ++ suf` is parsing
it at token 0 of `suf`, with positions shifted — whatever precedes it (any program) -/
theorem item_suffix_local (P : Prog) (f n : Nat) (pre suf : List Kind) :
    (match runItem P f n (pre ++ suf) pre.length, runItem P f n suf 0 with
     | .ok a, .ok b => a.start = b.start + pre.length ∧ a.stop = b.stop + pre.length ∧
         evKinds a.events = evKinds b.events ∧
         a.errs = b.errs.map (fun e => (e.1, e.2.1, e.2.2 + pre.length))
     | .panic w, .panic w' => w = w'
     | .oof, .oof => True
     | _, _ => False) := by
  have h := Glas.Lemmas.ItemsLocal.runItem_shift P f n pre suf 0
  rw [Nat.zero_add] at h
  rw [h]
  cases runItem P f n suf 0 with
  | ok b => exact ⟨rfl, rfl, rfl, rfl⟩
  | panic w => exact rfl
  | oof => exact trivial

/-- **prefix determinism**: an item's parse is determined by the tokens up to `maxNth` past the
token it stops at: two token lists that agree that far give the same result -/
theorem item_prefix_det (P : Prog) (f n : Nat) (toks toks' : List Kind) (pos : Nat) (o : ItemOut)
    (h : runItem P f n toks pos = .ok o)
    (hagree : toks.take (o.stop + progMaxNth P + 1) = toks'.take (o.stop + progMaxNth P + 1))
    (hlen : o.stop + progMaxNth P + 1 ≤ toks.length ∧ o.stop + progMaxNth P + 1 ≤ toks'.length) :
    runItem P f n toks' pos = .ok o :=
  Glas.Lemmas.ItemsLocal.runItem_prefix P f n toks toks' pos o h ⟨hagree, hlen.1, hlen.2⟩

end Glas.Props.C03
