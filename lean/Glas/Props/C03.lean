import Glas.Model.Items
import Glas.Gen.Parser
import Glas.Lemmas.ItemsLocal
import Glas.Lemmas.ItemsSeg
import Glas.Lemmas.ItemsMain
import Glas.Lemmas.TreeItems
import Glas.Gen.Policy
/-!
# C03 — a syntax error inside one definition does not disturb the others: locality of items

The module loop parses one top-level item after the other (`runItem`).  What an item's parse does
depends only on the tokens from its first token up to two tokens past its last one; it does not
depend on anything before it.  Hence damage confined to one item cannot change how the others are
parsed, *provided the damaged item's parse still ends at the item's own end* — that last condition
is what the implementation-side oracle tests (and where the recorded defects are).

`runMain_is_items` ties the item-wise iteration to the run the other theorems (C01, C02) speak about:
a normally ending `runMain` parses exactly the items `parseItems` finds, and its events and errors are
theirs in order (history independence of the interpreter, `Lemmas/ItemsHist.lean`: the events, errors,
identities and depth accumulated before an item do not influence its parse; the look-ahead counter
does, but only towards the parser's own `parser is stuck` guard).  `C03_module` is the property for the
run itself.
-/
namespace Glas.Props.C03
open Glas.Dsl Glas.Items Glas.Gen

/-- the generated parser never looks further ahead than two tokens -/
theorem glas_lookahead : progMaxNth glasProg ≤ 2 := by decide +kernel

/-- **suffix locality**: parsing an item that starts at token `pre.length` of `pre ++ suf` is parsing
it at token 0 of `suf`, with positions shifted — whatever precedes it (any program) -/
theorem item_suffix_local (P : Prog) (f n : Nat) (pre suf : List Kind) :
    (match runItem P f n (pre ++ suf) pre.length, runItem P f n suf 0 with
     | .ok a, .ok b => a.start = b.start + pre.length ∧ a.stop = b.stop + pre.length ∧
         evKinds a.events = evKinds b.events ∧
         a.errs = b.errs.map (fun e => (e.1, e.2.1, e.2.2 + pre.length))
     | .panic w, .panic w' => w = w'
     | .oof, .oof => True
     | _, _ => False) := by
  have h := Glas.Lemmas.ItemsLocal.runItem_shift P f n pre suf 0
  rw [Nat.zero_add] at h
  rw [h]
  cases runItem P f n suf 0 with
  | ok b => exact ⟨rfl, rfl, rfl, rfl⟩
  | panic w => exact rfl
  | oof => exact trivial

/-- **prefix determinism**: an item's parse is determined by the tokens up to `maxNth` past the
token it stops at: two token lists that agree that far give the same result -/
theorem item_prefix_det (P : Prog) (f n : Nat) (toks toks' : List Kind) (pos : Nat) (o : ItemOut)
    (h : runItem P f n toks pos = .ok o)
    (hagree : toks.take (o.stop + progMaxNth P + 1) = toks'.take (o.stop + progMaxNth P + 1))
    (hlen : o.stop + progMaxNth P + 1 ≤ toks.length ∧ o.stop + progMaxNth P + 1 ≤ toks'.length) :
    runItem P f n toks' pos = .ok o :=
  Glas.Lemmas.ItemsLocal.runItem_prefix P f n toks toks' pos o h ⟨hagree, hlen.1, hlen.2⟩

/-- **C03, conditional form, for the whole module loop.**  A file `pre ++ vic ++ post`; the definition(s) `vic` are
damaged into `vic'`, the first `progMaxNth P + 1` tokens (for the generated parser: three, `glas_lookahead`) staying
as they were.  IF the module loop over the damaged file, started at the victim, comes to stand exactly at the victim's
end (*containment* - the hypothesis the implementation-side oracle tests, and where the recorded defects are), THEN
the whole damaged file is parsed into: the very same items as before in front of the victim, whatever the victim has
become, and behind it the items `post` parses into on its own - the same as in the undamaged file, moved by the
change of length.  (Any program of the DSL; item by item, see `Glas/Model/Items.lean`.) -/
theorem C03_conditional (P : Prog) (f n : Nat) (pre vic vic' post : List Kind) (k1 k2 k3 : Nat)
    (ipre iv' ipost0 : List ItemOut)
    (hhead : vic.take (progMaxNth P + 1) = vic'.take (progMaxNth P + 1))
    (hlen : progMaxNth P + 1 ≤ vic.length) (hlen' : progMaxNth P + 1 ≤ vic'.length)
    (hpre : parseSeg P f n (pre ++ vic ++ post) k1 0 pre.length = some ipre)
    (hcontain : parseSeg P f n (pre ++ vic' ++ post) k2 pre.length (pre.length + vic'.length) = some iv')
    (hpost : parseSeg P f n post k3 0 post.length = some ipost0) :
    parseItems P f n (pre ++ vic' ++ post) (k1 + k2 + k3) =
        some (ipre ++ iv' ++ ipost0.map (fun o => o.shift (pre.length + vic'.length))) ∧
    parseSeg P f n (pre ++ vic ++ post) k3 (pre.length + vic.length) (pre ++ vic ++ post).length =
        some (ipost0.map (fun o => o.shift (pre.length + vic.length))) := by
  have htake : ∀ v : List Kind, progMaxNth P + 1 ≤ v.length →
      (pre ++ v ++ post).take (pre.length + progMaxNth P + 1) = pre ++ v.take (progMaxNth P + 1) := by
    intro v hv
    have e1 : pre.length + progMaxNth P + 1 = pre.length + (progMaxNth P + 1) := by omega
    rw [e1, List.append_assoc, List.take_length_add_append, List.take_append_of_le_length hv]
  have hag : Glas.Lemmas.ItemsLocal.Agree (pre.length + progMaxNth P + 1) (pre ++ vic ++ post) (pre ++ vic' ++ post) := by
    refine ⟨?_, by simp; omega, by simp; omega⟩
    rw [htake vic hlen, htake vic' hlen', hhead]
  have hpre' := Glas.Lemmas.ItemsSeg.parseSeg_prefix P f n _ _ pre.length hag k1 0 ipre hpre
  have hsh : ∀ (v : List Kind), parseSeg P f n (pre ++ v ++ post) k3 (pre.length + v.length) (pre ++ v ++ post).length =
      some (ipost0.map (fun o => o.shift (pre.length + v.length))) := by
    intro v
    have := Glas.Lemmas.ItemsSeg.parseSeg_shift P f n (pre ++ v) post k3 0 post.length
    simp only [List.length_append, Nat.zero_add] at this ⊢
    have e : pre.length + v.length + post.length = post.length + (pre.length + v.length) := by omega
    rw [e, this, hpost]
    rfl
  refine ⟨?_, hsh vic⟩
  unfold parseItems
  have h12 := Glas.Lemmas.ItemsSeg.parseSeg_append P f n _ k1 0 pre.length (pre.length + vic'.length) ipre iv' k2
    (Nat.zero_le _) (Nat.le_add_right _ _) hpre' hcontain
  have h123 := Glas.Lemmas.ItemsSeg.parseSeg_append P f n _ (k1 + k2) 0 (pre.length + vic'.length)
    (pre ++ vic' ++ post).length (ipre ++ iv') _ k3 (Nat.zero_le _) (by simp) h12 (hsh vic')
  exact h123

/-- non-vacuity on the generated parser: `fn a() { 1 }`, `fn b() { 2 }`, `fn c() { 3 }`; the body of `b` damaged into
`{ 1 ) , }`; the hypotheses hold and the items in front and behind are what they were -/
example :
    let fa := [K_FN_KW, K_IDENT, K_L_PAREN, K_R_PAREN, K_L_BRACE, K_INTEGER, K_R_BRACE]
    let vic' := [K_FN_KW, K_IDENT, K_L_PAREN, K_R_PAREN, K_L_BRACE, K_INTEGER, K_R_PAREN, K_COMMA, K_R_BRACE]
    ((parseSeg glasProg 1 4000 (fa ++ fa ++ fa) 3 0 7).map (fun l => l.map (fun o => (o.start, o.stop))) = some [(0, 7)]) ∧
    ((parseSeg glasProg 1 4000 (fa ++ vic' ++ fa) 3 7 16).map (fun l => l.map (fun o => (o.start, o.stop))) = some [(7, 16)]) ∧
    ((parseItems glasProg 1 4000 (fa ++ vic' ++ fa) 5).map (fun l => l.map (fun o => (o.start, o.stop, o.errs.length))) =
      some [(0, 7, 0), (7, 16, 2), (16, 23, 0)]) := by decide +kernel

/-- the generated `module` procedure is the loop the item-wise model iterates: open the root node,
`while !p.eof() { statement(p) }`, close it as `SOURCE_FILE` -/
theorem glas_mainShape :
    (glasProg.procs[glasProg.main]?).map (fun p => p.body) =
      some (Glas.Lemmas.Dsl.mainBody I_statement K_SOURCE_FILE) := by decide +kernel

/-- **`runMain` is the item-wise iteration** (any program whose main has that shape, any fuel, any tokens):
if the run ends normally, `parseItems` - one `statement` after the other, each from a fresh state - finds
items, and the run's node events are the root's opening, the items' events in order, the root's closing;
its syntax errors are the items' errors in order. -/
theorem runMain_is_items (P : Prog) (f k : Nat)
    (hP : (P.procs[P.main]?).map (fun p => p.body) = some (Glas.Lemmas.Dsl.mainBody f k))
    (n : Nat) (toks : List Kind) (σ : St) (hr : runMain P n toks = .ok σ) :
    ∃ items, parseItems P f n toks n = some items ∧
      evKinds σ.events = some k :: (items.flatMap (fun o => evKinds o.events) ++ [some 0]) ∧
      σ.errs = items.flatMap (fun o => o.errs) :=
  let ⟨items, h1, h2, h3, _⟩ := Glas.Lemmas.ItemsMain.runMain_items P f k hP n toks σ hr
  ⟨items, h1, h2, h3⟩

/-- **C03 for the run itself.**  Under the hypotheses of `C03_conditional` (containment of the damage), every
normally ending run of the parser over the damaged file `pre ++ vic' ++ post` consists of: the root's opening, the
events of the very items the undamaged file has in front of the victim, the victim's own items, the events of the
items `post` parses into on its own, the root's closing - and likewise for the reported errors (positions moved). -/
theorem C03_module (P : Prog) (f k : Nat)
    (hP : (P.procs[P.main]?).map (fun p => p.body) = some (Glas.Lemmas.Dsl.mainBody f k))
    (n : Nat) (pre vic vic' post : List Kind) (k1 k2 k3 : Nat)
    (ipre iv' ipost0 : List ItemOut)
    (hhead : vic.take (progMaxNth P + 1) = vic'.take (progMaxNth P + 1))
    (hlen : progMaxNth P + 1 ≤ vic.length) (hlen' : progMaxNth P + 1 ≤ vic'.length)
    (hpre : parseSeg P f n (pre ++ vic ++ post) k1 0 pre.length = some ipre)
    (hcontain : parseSeg P f n (pre ++ vic' ++ post) k2 pre.length (pre.length + vic'.length) = some iv')
    (hpost : parseSeg P f n post k3 0 post.length = some ipost0)
    (σ' : St) (hr : runMain P n (pre ++ vic' ++ post) = .ok σ') :
    let items := ipre ++ iv' ++ ipost0.map (fun o => o.shift (pre.length + vic'.length))
    evKinds σ'.events = some k :: (items.flatMap (fun o => evKinds o.events) ++ [some 0]) ∧
    σ'.errs = items.flatMap (fun o => o.errs) := by
  obtain ⟨items, hit, hev, herr⟩ := runMain_is_items P f k hP n _ σ' hr
  have hc := (C03_conditional P f n pre vic vic' post k1 k2 k3 ipre iv' ipost0 hhead hlen hlen' hpre hcontain hpost).1
  unfold parseItems at hit hc
  have h1 := Glas.Lemmas.ItemsSeg.parseSeg_mono P f n _ _ _ _ _ hit (n + (k1 + k2 + k3)) (by omega)
  have h2 := Glas.Lemmas.ItemsSeg.parseSeg_mono P f n _ _ _ _ _ hc (n + (k1 + k2 + k3)) (by omega)
  rw [h1] at h2
  simp only [Option.some.injEq] at h2
  subst h2
  exact ⟨hev, herr⟩

/-! ## the same at the level of trees -/

open Glas.Tree Glas.Lemmas.TreeItems in
/-- the generated tree-builder policy opens the root with `start; eat(module docs)`, drops the root's closing event,
flushes the trailing trivia and closes the root at the end -/
theorem glas_policyShape :
    glasPolicy.onOpen K_SOURCE_FILE = [.start, .eat is_module_doc] ∧ glasPolicy.popLast = true ∧
    glasPolicy.finalFlush = some is_trivia ∧ glasPolicy.finalClose = true := ⟨rfl, rfl, rfl, rfl⟩

open Glas.Tree Glas.Lemmas.TreeItems in
/-- **the tree is built item by item**: for every normally ending run (any program with a well-shaped main, any policy
of the shape above) the syntax tree is the root node with: the leading tokens the root's opening eats, then the forests
of the items - each built from the item's own events by an EMPTY builder on the raw tokens the previous item left
(`forests`) -, then the trailing tokens of the final flush -/
theorem tree_is_items (P : Prog) (f k : Nat)
    (hP : (P.procs[P.main]?).map (fun p => p.body) = some (Glas.Lemmas.Dsl.mainBody f k))
    (π : Policy) (p0 pf : Kind → Bool)
    (hopen : π.onOpen k = [.start, .eat p0]) (hpop : π.popLast = true) (hflush : π.finalFlush = some pf)
    (hclose : π.finalClose = true)
    (n : Nat) (toks : List Kind) (σ : St) (hr : runMain P n toks = .ok σ) (raw : List RawTok) :
    ∃ items, parseItems P f n toks n = some items ∧
      ∀ Fs r2, forests π (items.map (fun o => o.events)) (eatList p0 raw).2 = some (Fs, r2) →
        buildTree π σ.events raw = .ok (.node k ((eatList p0 raw).1 ++ Fs ++ (eatList pf r2).1)) := by
  obtain ⟨items, hit, _, _, hex⟩ := Glas.Lemmas.ItemsMain.runMain_items P f k hP n toks σ hr
  refine ⟨items, hit, ?_⟩
  intro Fs r2 hF
  rw [← buildTree_eraseId, hex]
  have hflat : items.flatMap (fun o => o.events.map eraseId) =
      ((items.map (fun o => o.events)).map (fun E => E.map eraseId)).flatten := by
    simp [List.flatMap, List.map_map, Function.comp_def]
  rw [hflat]
  exact buildTree_forests π k 0 true p0 pf hopen hpop hflush hclose _ raw r2 Fs
    (by rw [forests_eraseId]; exact hF)

open Glas.Tree Glas.Lemmas.TreeItems in
/-- **C03 at the level of trees** (conditional, as `C03_module`): under containment of the damage, the tree of the damaged
file is the root with - between the leading and trailing tokens - the forests built from the very events the items in
front of the victim have in the UNDAMAGED file, then the victim's, then those built from the events of the items `post`
parses into on its own; each forest is built by an empty builder on the raw tokens left by the one before -/
theorem C03_tree (P : Prog) (f k : Nat)
    (hP : (P.procs[P.main]?).map (fun p => p.body) = some (Glas.Lemmas.Dsl.mainBody f k))
    (π : Policy) (p0 pf : Kind → Bool)
    (hopen : π.onOpen k = [.start, .eat p0]) (hpop : π.popLast = true) (hflush : π.finalFlush = some pf)
    (hclose : π.finalClose = true)
    (n : Nat) (pre vic vic' post : List Kind) (k1 k2 k3 : Nat)
    (ipre iv' ipost0 : List ItemOut)
    (hhead : vic.take (progMaxNth P + 1) = vic'.take (progMaxNth P + 1))
    (hlen : progMaxNth P + 1 ≤ vic.length) (hlen' : progMaxNth P + 1 ≤ vic'.length)
    (hpre : parseSeg P f n (pre ++ vic ++ post) k1 0 pre.length = some ipre)
    (hcontain : parseSeg P f n (pre ++ vic' ++ post) k2 pre.length (pre.length + vic'.length) = some iv')
    (hpost : parseSeg P f n post k3 0 post.length = some ipost0)
    (σ' : St) (hr : runMain P n (pre ++ vic' ++ post) = .ok σ') (raw : List RawTok)
    (Fpre Fv Fpost : List Tree) (ra rb rc : List RawTok)
    (h1 : forests π (ipre.map (fun o => o.events)) (eatList p0 raw).2 = some (Fpre, ra))
    (h2 : forests π (iv'.map (fun o => o.events)) ra = some (Fv, rb))
    (h3 : forests π (ipost0.map (fun o => o.events)) rb = some (Fpost, rc)) :
    buildTree π σ'.events raw =
      .ok (.node k ((eatList p0 raw).1 ++ (Fpre ++ Fv ++ Fpost) ++ (eatList pf rc).1)) := by
  obtain ⟨items, hit, htree⟩ := tree_is_items P f k hP π p0 pf hopen hpop hflush hclose n _ σ' hr raw
  have hc := (C03_conditional P f n pre vic vic' post k1 k2 k3 ipre iv' ipost0 hhead hlen hlen' hpre hcontain hpost).1
  unfold parseItems at hit hc
  have e1 := Glas.Lemmas.ItemsSeg.parseSeg_mono P f n _ _ _ _ _ hit (n + (k1 + k2 + k3)) (by omega)
  have e2 := Glas.Lemmas.ItemsSeg.parseSeg_mono P f n _ _ _ _ _ hc (n + (k1 + k2 + k3)) (by omega)
  rw [e1] at e2
  simp only [Option.some.injEq] at e2
  subst e2
  apply htree
  have hsh : (ipost0.map (fun o => o.shift (pre.length + vic'.length))).map (fun o => o.events) =
      ipost0.map (fun o => o.events) := by
    simp [List.map_map, Function.comp_def, ItemOut.shift]
  rw [List.map_append, List.map_append, hsh]
  exact forests_append π _ _ _ _ _ _ _ (forests_append π _ _ _ _ _ _ _ h1 h2) h3

open Glas.Tree Glas.Lemmas.TreeItems in
/-- non-vacuity of `tree_is_items` / `C03_tree` on the generated parser and policy: for the damaged file of the example
(raw tokens = the tokens, no trivia) the item forests exist - three items, three top-level forests of one node each -/
example :
    let fa := [K_FN_KW, K_IDENT, K_L_PAREN, K_R_PAREN, K_L_BRACE, K_INTEGER, K_R_BRACE]
    let vic' := [K_FN_KW, K_IDENT, K_L_PAREN, K_R_PAREN, K_L_BRACE, K_INTEGER, K_R_PAREN, K_COMMA, K_R_BRACE]
    let raw : List RawTok := (fa ++ vic' ++ fa).map (fun k => (k, ['x']))
    (match parseItems glasProg I_statement 4000 (fa ++ vic' ++ fa) 5 with
     | some items =>
       (match forests glasPolicy (items.map (fun o => o.events)) (eatList is_module_doc raw).2 with
        | some (Fs, r2) => decide (Fs.length = 3) && r2.isEmpty
        | none => false)
     | none => false) = true := by decide +kernel

/-- non-vacuity: the run over the damaged file of the example above ends normally, and its fourteen node events
and two errors are those of the three items -/
example :
    let fa := [K_FN_KW, K_IDENT, K_L_PAREN, K_R_PAREN, K_L_BRACE, K_INTEGER, K_R_BRACE]
    let vic' := [K_FN_KW, K_IDENT, K_L_PAREN, K_R_PAREN, K_L_BRACE, K_INTEGER, K_R_PAREN, K_COMMA, K_R_BRACE]
    (match runMain glasProg 4000 (fa ++ vic' ++ fa), parseItems glasProg I_statement 4000 (fa ++ vic' ++ fa) 5 with
     | .ok σ, some items =>
         decide (evKinds σ.events = some K_SOURCE_FILE :: (items.flatMap (fun o => evKinds o.events) ++ [some 0])) &&
         decide (σ.errs = items.flatMap (fun o => o.errs)) && decide (σ.errs.length = 2)
     | _, _ => false) = true := by decide +kernel

end Glas.Props.C03
