import Glas.Model.TreeRanges
/-! C20: theorems being merged (placeholder) -/
namespace Glas.Props.C20
theorem placeholder : (1 : Nat) = 1 := rfl
end Glas.Props.C20
