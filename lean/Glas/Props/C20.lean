import Glas.Model.TreeRanges
import Glas.Model.SyntaxCmd
import Glas.Props.C01
import Glas.Lemmas.TreeRangesLemmas
/-!
# C20 — every reported range lies inside the document it refers to (the syntax-tree part)

Every range the analysis reports is (checked on the implementation by the `sweep` monitor) the
range of a node or token of the file's syntax tree, or a documented empty range.  These theorems
show that such ranges are within the text and on character boundaries, for every text.
-/
namespace Glas.Props.C20
open Glas.Tree Glas.Dsl Glas.SyntaxCmd

/-- every node/token range of a tree lies inside the tree's extent and is well-formed -/
theorem ranges_in_bounds (t : Tree) (off : Nat) :
    ∀ r ∈ t.ranges off, off ≤ r.1 ∧ r.1 ≤ r.2 ∧ r.2 ≤ off + t.len :=
  Glas.Lemmas.TreeRanges.ranges_bounds t off

/-- both ends of every node/token range are character boundaries of the text formed by the leaves -/
theorem ranges_on_char_boundaries (t : Tree) :
    ∀ r ∈ t.ranges 0, r.1 ∈ charBoundaries ((t.leaves.map (fun x => x.2)).flatten) 0 ∧
                       r.2 ∈ charBoundaries ((t.leaves.map (fun x => x.2)).flatten) 0 :=
  Glas.Lemmas.TreeRanges.ranges_cb t 0

/-- **C20 (tree part)**: whenever the model of `parse_module` returns a tree for a text `s`, every
node and token range is inside `[0, length s]`, starts and ends on character boundaries of `s` -/
theorem C20_tree_ranges (n : Nat) (s : List Char) (t : Tree) (σ : St) (raw : List RawTok)
    (h : parseModel n s = .ok (t, σ, raw)) :
    ∀ r ∈ t.ranges 0, r.1 ≤ r.2 ∧ r.2 ≤ Tree.u8len s ∧
      r.1 ∈ charBoundaries s 0 ∧ r.2 ∈ charBoundaries s 0 := by
  intro r hr
  have hflat : (t.leaves.map (fun x => x.2)).flatten = s :=
    (Glas.Props.C01.C01_lossless n s t σ raw h).2.2.1
  have hlen : t.len = Tree.u8len s := by
    rw [Glas.Lemmas.TreeRanges.len_eq t]; exact congrArg Tree.u8len hflat
  have hb := ranges_in_bounds t 0 r hr
  have hc := ranges_on_char_boundaries t r hr
  rw [hflat] at hc
  rw [hlen] at hb
  exact ⟨hb.2.1, by omega, hc.1, hc.2⟩

end Glas.Props.C20
