import Glas.Model.Pratt
import Glas.Gen.Parser
import Glas.Lemmas.Pratt
/-!
# C04 — the Pratt loop groups binary and prefix operators as the stratified reference grammar does
-/
namespace Glas.Props.C04Pratt
open Glas.Pratt Glas.Gen

/-- the table `expr_bp` uses, read off the generated tables -/
def glasTable : Table :=
  { inf := fun k => if S_INFIX_OPS.testBit k then some ((T_infixL[k]?).getD 0, (T_infixR[k]?).getD 0) else none,
    pref := fun k => if S_PREFIX_OPS.testBit k then some ((T_prefixR[k]?).getD 0) else none }

/-- precedence level of an infix operator: number of distinct smaller left binding powers -/
def levelOf (T : Table) (ops : List Nat) (k : Nat) : Option Nat :=
  match T.inf k with
  | none => none
  | some (l, _) => some ((ops.filterMap (fun k' => (T.inf k').map (fun p => p.1))).eraseDups.filter (fun l' => l' < l)).length

/-- conditions on a table under which the loop implements the stratified grammar (all decidable
for a finite operator list): left powers positive, right power = just above the left one and below
the next level's left power, prefix powers above every infix power -/
structure TableOK (T : Table) (ops : List Nat) : Prop where
  complete : ∀ k, (T.inf k).isSome → k ∈ ops
  lpos : ∀ k l r, T.inf k = some (l, r) → 0 < l ∧ l < r
  tight : ∀ k l r k' l' r', T.inf k = some (l, r) → T.inf k' = some (l', r') → (l < l' → r < l') ∧ (l = l' → r = r')
  prefHigh : ∀ p rp k l r, T.pref p = some rp → T.inf k = some (l, r) → r < rp

/-- the distinct left binding powers of the operators in `ops` -/
def leftPowers (T : Table) (ops : List Nat) : List Nat :=
  (ops.filterMap (fun k' => (T.inf k').map (fun p => p.1))).eraseDups

theorem levelOf_eq (T : Table) (ops : List Nat) (k l r : Nat) (h : T.inf k = some (l, r)) :
    levelOf T ops k = some ((leftPowers T ops).filter (fun l' => l' < l)).length := by
  simp [levelOf, leftPowers, h]

theorem mem_leftPowers (T : Table) (ops : List Nat) (hT : TableOK T ops) (k l r : Nat)
    (h : T.inf k = some (l, r)) : l ∈ leftPowers T ops := by
  have hk : k ∈ ops := hT.complete k (by simp [h])
  simp only [leftPowers, List.mem_eraseDups, List.mem_filterMap]
  exact ⟨k, hk, by simp [h]⟩

/-- `levelOf` orders the operators as their left powers do -/
theorem levelOK_of_tableOK (T : Table) (ops : List Nat) (hT : TableOK T ops) :
    LevelOK T (levelOf T ops) ((leftPowers T ops).length + 1) where
  some_inf := by
    intro k m h
    cases hi : T.inf k with
    | none => simp [levelOf, hi] at h
    | some p => exact ⟨p.1, p.2, rfl⟩
  inf_some := by
    intro k l r h
    exact ⟨_, levelOf_eq T ops k l r h⟩
  bound := by
    intro k m h
    cases hi : T.inf k with
    | none => simp [levelOf, hi] at h
    | some p =>
      rw [levelOf_eq T ops k p.1 p.2 hi] at h
      injection h with h
      have := List.length_filter_le (fun l' => decide (l' < p.1)) (leftPowers T ops)
      omega
  mono := by
    intro k l r m k' l' r' m' hi hk hi' hk'
    rw [levelOf_eq T ops k l r hi] at hk
    rw [levelOf_eq T ops k' l' r' hi'] at hk'
    injection hk with hk
    injection hk' with hk'
    subst hk hk'
    constructor
    · intro h
      rcases Nat.lt_or_ge l l' with hl | hl
      · exact hl
      · have := cnt_mono (leftPowers T ops) hl
        omega
    · intro h
      exact cnt_strict (leftPowers T ops) h (mem_leftPowers T ops hT k l r hi)
  lpos := hT.lpos
  tight := fun k l r k' l' r' h h' => (hT.tight k l r k' l' r' h h').1
  prefHigh := hT.prefHigh

/-- **Pratt round trip** (generic): for every table satisfying `TableOK`, every expression of the
stratified grammar is parsed back from its token string, whatever follows it that is not an infix
operator -/
theorem pratt_roundtrip (T : Table) (ops : List Nat) (hT : TableOK T ops) (e : Ast)
    (he : Lvl (levelOf T ops) (fun k => (T.pref k).isSome) 0 e) (rest : List Tok)
    (hrest : ∀ k r', rest = .op k :: r' → T.inf k = none) :
    ∃ f, exprBp T f 0 (print e ++ rest) = some (e, rest) := by
  apply parse_cont T (levelOf T ops) _ (levelOK_of_tableOK T ops hT) 0 e he 0 rest ?_ ?_ 1 (e, rest) ?_
  · intro k m l r _ _ hi
    exact (hT.lpos k l r hi).1
  · intro k r' m hr hk
    have := hrest k r' hr
    simp [levelOf, this] at hk
  · apply infixLoop_stop
    intro k r' l r hr hi
    rw [hrest k r' hr] at hi
    cases hi

def glasOps : List Nat := (List.range kindNames.length).filter (fun k => S_INFIX_OPS.testBit k)

/-- executable form of `TableOK`, over the lists of all infix and all prefix operators -/
def tableOKb (T : Table) (ops prefs : List Nat) : Bool :=
  ops.all (fun k =>
    match T.inf k with
    | none => true
    | some (l, r) =>
      decide (0 < l) && decide (l < r) &&
      ops.all (fun k' =>
        match T.inf k' with
        | none => true
        | some (l', r') => (!decide (l < l') || decide (r < l')) && (!decide (l = l') || decide (r = r'))) &&
      prefs.all (fun p =>
        match T.pref p with
        | none => true
        | some rp => decide (r < rp)))

theorem tableOKb_sound (T : Table) (ops prefs : List Nat)
    (hc : ∀ k, (T.inf k).isSome → k ∈ ops) (hp : ∀ p, (T.pref p).isSome → p ∈ prefs)
    (h : tableOKb T ops prefs = true) : TableOK T ops := by
  have key : ∀ k l r, T.inf k = some (l, r) →
      (0 < l ∧ l < r) ∧
      (∀ k' l' r', T.inf k' = some (l', r') → (l < l' → r < l') ∧ (l = l' → r = r')) ∧
      (∀ p rp, T.pref p = some rp → r < rp) := by
    intro k l r hi
    have hk := hc k (by simp [hi])
    have h1 := List.all_eq_true.1 h k hk
    simp only [hi, Bool.and_eq_true, decide_eq_true_eq] at h1
    obtain ⟨⟨h1, h2⟩, h3⟩ := h1
    refine ⟨h1, ?_, ?_⟩
    · intro k' l' r' hi'
      have hk' := hc k' (by simp [hi'])
      have := List.all_eq_true.1 h2 k' hk'
      simp only [hi', Bool.and_eq_true, Bool.or_eq_true, Bool.not_eq_true', decide_eq_true_eq,
        decide_eq_false_iff_not] at this
      constructor
      · intro hl; rcases this.1 with h | h
        · exact absurd hl h
        · exact h
      · intro hl; rcases this.2 with h | h
        · exact absurd hl h
        · exact h
    · intro p rp hpp
      have hp' := hp p (by simp [hpp])
      have := List.all_eq_true.1 h3 p hp'
      simpa [hpp] using this
  exact
    { complete := hc
      lpos := fun k l r hi => (key k l r hi).1
      tight := fun k l r k' l' r' hi hi' => (key k l r hi).2.1 k' l' r' hi'
      prefHigh := fun p rp k l r hpp hi => (key k l r hi).2.2 p rp hpp }

def glasPrefs : List Nat := (List.range kindNames.length).filter (fun k => S_PREFIX_OPS.testBit k)

/-- both operator masks fit in the range of kinds (so `glasOps`, `glasPrefs` list all operators) -/
theorem masks_in_range : (decide (S_INFIX_OPS < 2 ^ kindNames.length) &&
    decide (S_PREFIX_OPS < 2 ^ kindNames.length)) = true := by
  decide +kernel

theorem glas_tableOKb : tableOKb glasTable glasOps glasPrefs = true := by
  decide +kernel

theorem glas_tableOK : TableOK glasTable glasOps := by
  have hm := masks_in_range
  simp only [Bool.and_eq_true, decide_eq_true_eq] at hm
  apply tableOKb_sound glasTable glasOps glasPrefs ?_ ?_ glas_tableOKb
  · intro k hk
    have hb : S_INFIX_OPS.testBit k = true := by
      cases hb : S_INFIX_OPS.testBit k with
      | true => rfl
      | false => simp [glasTable, hb] at hk
    simp only [glasOps, List.mem_filter, List.mem_range]
    exact ⟨testBit_lt_of_lt_two_pow hm.1 hb, hb⟩
  · intro p hp
    have hb : S_PREFIX_OPS.testBit p = true := by
      cases hb : S_PREFIX_OPS.testBit p with
      | true => rfl
      | false => simp [glasTable, hb] at hp
    simp only [glasPrefs, List.mem_filter, List.mem_range]
    exact ⟨testBit_lt_of_lt_two_pow hm.2 hb, hb⟩

/-- the generated tables make `expr_bp` group every operator expression as Gleam's grammar does -/
theorem C04_pratt (e : Ast)
    (he : Lvl (levelOf glasTable glasOps) (fun k => (glasTable.pref k).isSome) 0 e) :
    ∃ f, exprBp glasTable f 0 (print e) = some (e, []) := by
  have := pratt_roundtrip glasTable glasOps glas_tableOK e he [] (by intro k r' h; cases h)
  simpa using this

end Glas.Props.C04Pratt
