import Glas.Model.Db
import Glas.Lemmas.Db
/-!
# C11 — answers after any edit history equal a fresh analysis of the result (the input layer)

Queries are pure functions of the inputs they can reach (salsa is trusted to recompute what
depends on a changed input).  What remains to show is that the *inputs* reachable after a history
of changes are those a freshly started analysis of the final workspace has.
-/
namespace Glas.Props.C11
open Glas.Db Glas.Project

/-- the workspace a history of changes leaves behind, as the document store sees it: the last
root list and graph that were set, every file with the last content written -/
def finalWorkspace (w : Workspace) : List Change → Workspace
  | [] => w
  | c :: cs =>
    finalWorkspace
      { roots := c.roots.getD w.roots, graph := c.graph.getD w.graph,
        content := c.files.foldl (fun acc f => setKey acc f.1 f.2) w.content } cs

/-- every file of a live root has been given a content (the server sets the content of a file
before it puts it into a root) -/
def Covered (w : Workspace) : Prop := ∀ f ∈ liveFiles w.roots, (getKey w.content f).isSome

/-- the invariant `Agrees` (and distinct keys of the stored content) along a whole history -/
theorem agrees_final (i : Inputs) (w : Workspace) (cs : List Change) (h : Agrees i w) (hu : Uniq w.content) :
    Agrees (cs.foldl applyChange i) (finalWorkspace w cs) ∧ Uniq (finalWorkspace w cs).content := by
  induction cs generalizing i w with
  | nil => exact ⟨h, hu⟩
  | cons c cs ih =>
    simp only [List.foldl_cons, finalWorkspace]
    exact ih _ _ (agrees_step i w c h) (uniq_foldl _ _ hu)

/-- **history independence of the reachable inputs**: after any sequence of changes the view of the
database restricted to the live roots equals the view of a database that received the final
workspace in one change — stale entries of dropped roots and removed files are not reachable -/
theorem apply_history_independent (cs : List Change) :
    let w := finalWorkspace { roots := [], graph := [], content := [] } cs
    view (cs.foldl applyChange empty) w.roots.length
      = view (applyChange empty (snapshotChange w)) w.roots.length := by
  intro w
  obtain ⟨ha, hu⟩ := agrees_final empty { roots := [], graph := [], content := [] } cs agrees_empty trivial
  rw [view_of_agrees _ _ ha, view_of_agrees _ _ (agrees_snapshot _ hu)]

/-- file contents: the last write wins, whatever was written before -/
theorem content_last_write (i : Inputs) (cs : List Change) (f : Nat) (t : List Char) (c : Change)
    (hc : (f, t) ∈ c.files) (hlast : ∀ t', (f, t') ∈ c.files → t' = t) :
    getKey ((cs ++ [c]).foldl applyChange i).content f = some t := by
  rw [List.foldl_append, List.foldl_cons, List.foldl_nil]
  generalize cs.foldl applyChange i = j
  obtain ⟨og, or, fs⟩ := c
  have : (applyChange j ⟨og, or, fs⟩).content
      = fs.foldl (fun acc f => setKey acc f.1 f.2) j.content := by
    cases og <;> cases or <;> rfl
  rw [this]
  exact getKey_foldl_last fs _ f t hc hlast

/-- the module map of a live root is a function of that root alone (derived inside `Change::apply`) -/
theorem moduleMap_of_root (i : Inputs) (c : Change) (rs : List Root) (hr : c.roots = some rs) (k : Nat) (r : Root)
    (hk : rs[k]? = some r) :
    (applyChange i c).moduleMaps[k]? = some (moduleMapOf r) := by
  obtain ⟨og, or, fs⟩ := c
  simp only at hr
  subst hr
  have hlt : k < rs.length := by
    rcases Nat.lt_or_ge k rs.length with h | h
    · exact h
    · rw [List.getElem?_eq_none h] at hk; cases hk
  have : (applyChange i ⟨og, some rs, fs⟩).moduleMaps
      = rs.map moduleMapOf ++ i.moduleMaps.drop rs.length := by
    cases og <;> rfl
  rw [this, List.getElem?_append_left (by simpa using hlt), List.getElem?_map, hk]
  rfl

example :
    let r0 : Root := ⟨["w".toList], [(0, ["w".toList, "src".toList, "a.gleam".toList]), (1, ["w".toList, "gleam.toml".toList])]⟩
    let r0' : Root := ⟨["w".toList], [(0, ["w".toList, "src".toList, "a.gleam".toList])]⟩
    let cs : List Change := [⟨some [], some [r0], [(0, "x".toList), (1, [])]⟩, ⟨none, none, [(0, "y".toList)]⟩, ⟨none, some [r0'], []⟩]
    view (cs.foldl applyChange empty) 1 = view (applyChange empty (snapshotChange (finalWorkspace ⟨[], [], []⟩ cs))) 1 := by decide

end Glas.Props.C11
