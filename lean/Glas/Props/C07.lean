import Glas.Model.Edits
import Glas.Model.ScopeSpec
import Glas.Lemmas.Edits
import Glas.Lemmas.Alpha
import Glas.Lemmas.AlphaMod
import Glas.Props.C05
/-!
# C07 — rename to a fresh name preserves what every identifier means
-/
namespace Glas.Props.C07
open Glas.Edits Glas.Scope

/-- applying the edits of a rename to the text is the token-level rename: only the selected whole
tokens change, everything else is untouched -/
theorem applyEdits_eq_rename (ts : List Text) (sel : Nat → Bool) (new : Text) :
    applyEdits ts.flatten (editsOf ts sel new) = (renameToks ts sel new).flatten := by
  have h := applyEdits_editsFrom sel new ts [] 0
  simpa [editsOf_eq, renameToks_eq] using h

/-- renaming back restores the original text, provided the selected tokens were all spelled `old` -/
theorem rename_back (ts : List Text) (sel : Nat → Bool) (old new : Text)
    (hold : ∀ i t, ts[i]? = some t → sel i = true → t = old) :
    renameToks (renameToks ts sel new) sel old = ts := by
  apply List.ext_getElem?
  intro i
  rw [renameToks_eq, renameToks_eq, getElem?_renameFrom, getElem?_renameFrom]
  cases hi : ts[i]? with
  | none => rfl
  | some t =>
    simp only [Option.map_some, Nat.zero_add]
    cases hs : sel i with
    | false => simp
    | true => simp [hold i t hi hs]

/-- edits of a rename never overlap and are ascending -/
theorem edits_disjoint (ts : List Text) (sel : Nat → Bool) (new : Text) :
    List.Pairwise (fun a b => a.2.1 ≤ b.1) (editsOf ts sel new) := by
  exact editsFrom_pairwise sel new ts 0 0

mutual
  /-- rename binder `pid` (and nothing else) in a pattern -/
  def renPat (pid : Nat) (y : Name) : Pat → Pat
    | .var id name => if id = pid then .var id y else .var id name
    | .wild => .wild
    | .node ps => .node (renPats pid y ps)
  def renPats (pid : Nat) (y : Name) : Pats → Pats
    | .nil => .nil
    | .cons p ps => .cons (renPat pid y p) (renPats pid y ps)
end

mutual
  /-- rename binder `pid` to `y` together with exactly the occurrences `occs` (its references) -/
  def renExpr (pid : Nat) (occs : List Nat) (y : Name) : Expr → Expr
    | .var occ name => if occs.contains occ then .var occ y else .var occ name
    | .hole id => .hole id
    | .leaf => .leaf
    | .block ss => .block (renStmts pid occs y ss)
    | .call f args => .call (renExpr pid occs y f) (renExprs pid occs y args)
    | .node es => .node (renExprs pid occs y es)
    | .case_ subjects clauses => .case_ (renExprs pid occs y subjects) (renClauses pid occs y clauses)
    | .lam params body => .lam (renPats pid y params) (renExpr pid occs y body)
  def renExprs (pid : Nat) (occs : List Nat) (y : Name) : Exprs → Exprs
    | .nil => .nil
    | .cons e es => .cons (renExpr pid occs y e) (renExprs pid occs y es)
  def renStmts (pid : Nat) (occs : List Nat) (y : Name) : Stmts → Stmts
    | .nil => .nil
    | .cons (.let_ p e) ss => .cons (.let_ (renPat pid y p) (renExpr pid occs y e)) (renStmts pid occs y ss)
    | .cons (.use_ ps e) ss => .cons (.use_ (renPats pid y ps) (renExpr pid occs y e)) (renStmts pid occs y ss)
    | .cons (.expr e) ss => .cons (.expr (renExpr pid occs y e)) (renStmts pid occs y ss)
  def renClauses (pid : Nat) (occs : List Nat) (y : Name) : Clauses → Clauses
    | .nil => .nil
    | .cons (.mk pats body) cs => .cons (.mk (renPats pid y pats) (renExpr pid occs y body)) (renClauses pid occs y cs)
end

mutual
  def patNames : Pat → List Name
    | .var _ name => [name]
    | .wild => []
    | .node ps => patsNames ps
  def patsNames : Pats → List Name
    | .nil => []
    | .cons p ps => patNames p ++ patsNames ps
end

mutual
  /-- names of all binders occurring anywhere in an expression (for freshness) -/
  def exprBinderNames : Expr → List Name
    | .var _ _ => []
    | .hole _ => []
    | .leaf => []
    | .block ss => stmtsBinderNames ss
    | .call f args => exprBinderNames f ++ exprsBinderNames args
    | .node es => exprsBinderNames es
    | .case_ subjects clauses => exprsBinderNames subjects ++ clausesBinderNames clauses
    | .lam params body => patsNames params ++ exprBinderNames body
  def exprsBinderNames : Exprs → List Name
    | .nil => []
    | .cons e es => exprBinderNames e ++ exprsBinderNames es
  def stmtsBinderNames : Stmts → List Name
    | .nil => []
    | .cons (.let_ p e) ss => patNames p ++ exprBinderNames e ++ stmtsBinderNames ss
    | .cons (.use_ ps e) ss => patsNames ps ++ exprBinderNames e ++ stmtsBinderNames ss
    | .cons (.expr e) ss => exprBinderNames e ++ stmtsBinderNames ss
  def clausesBinderNames : Clauses → List Name
    | .nil => []
    | .cons (.mk pats body) cs => patsNames pats ++ exprBinderNames body ++ clausesBinderNames cs
end

/-- what every occurrence of `f` is bound to under Gleam's rules -/
def bindings (f : Function) : List (Nat × Option Nat) := specExpr f.body [patsBinders f.params]

/-- the occurrences bound to binder `pid` -/
def refsOf (f : Function) (pid : Nat) : List Nat :=
  ((bindings f).filter (fun p => p.2 == some pid)).map (fun p => p.1)

/-- the function after renaming binder `pid` and exactly its references to `y` -/
def renameFn (f : Function) (pid : Nat) (y : Name) : Function :=
  { params := renPats pid y f.params, body := renExpr pid (refsOf f pid) y f.body }

/-! ### the generalised statement behind `alpha_fresh` -/

mutual
  theorem patBinders_renPat (pid : Nat) (y : Name) : ∀ (p : Pat),
      patBinders (renPat pid y p) = renFrame pid y (patBinders p)
    | .var id name => by
      simp only [renPat]
      split <;> simp_all [patBinders, renFrame]
    | .wild => by simp [renPat, patBinders, renFrame]
    | .node ps => by simp only [renPat, patBinders]; exact patsBinders_renPats pid y ps
  theorem patsBinders_renPats (pid : Nat) (y : Name) : ∀ (ps : Pats),
      patsBinders (renPats pid y ps) = renFrame pid y (patsBinders ps)
    | .nil => by simp [renPats, patsBinders, renFrame]
    | .cons p ps => by
      simp only [renPats, patsBinders, renFrame_append]
      rw [patBinders_renPat pid y p, patsBinders_renPats pid y ps]
end

mutual
  theorem patBinders_names : ∀ (p : Pat), (patBinders p).map (·.1) = patNames p
    | .var id name => by simp [patBinders, patNames]
    | .wild => by simp [patBinders, patNames]
    | .node ps => by simp only [patBinders, patNames]; exact patsBinders_names ps
  theorem patsBinders_names : ∀ (ps : Pats), (patsBinders ps).map (·.1) = patsNames ps
    | .nil => by simp [patsBinders, patsNames]
    | .cons p ps => by
      simp only [patsBinders, patsNames, List.map_append]
      rw [patBinders_names p, patsBinders_names ps]
end

theorem freshFrame_pat {y : Name} (p : Pat) (h : ∀ n ∈ patNames p, n ≠ y) :
    FreshFrame y (patBinders p) := by
  intro e he
  exact h e.1 (by rw [← patBinders_names]; exact List.mem_map_of_mem he)

theorem freshFrame_pats {y : Name} (ps : Pats) (h : ∀ n ∈ patsNames ps, n ≠ y) :
    FreshFrame y (patsBinders ps) := by
  intro e he
  exact h e.1 (by rw [← patsBinders_names]; exact List.mem_map_of_mem he)

/-- one occurrence -/
theorem ren_var (pid : Nat) (occs : List Nat) (y : Name) (occ : Nat) (name : Name) (env : Env)
    (hf : FreshEnv y env) (hn : name ≠ y) (hs : Sel pid occs [(occ, lookupEnv env name)]) :
    specExpr (renExpr pid occs y (.var occ name)) (renEnv pid y env) = [(occ, lookupEnv env name)] := by
  have h := hs (occ, lookupEnv env name) List.mem_cons_self
  simp only at h
  simp only [renExpr]
  split
  · rename_i hc
    have hl := h.mp hc
    simp only [specExpr]
    rw [lookupEnv_ren_hit pid y name env hf hl, hl]
  · rename_i hc
    have hl : lookupEnv env name ≠ some pid := fun e => hc (h.mpr e)
    simp only [specExpr]
    rw [lookupEnv_ren_other pid y name hn env hl]

mutual
  theorem ren_expr (pid : Nat) (occs : List Nat) (y : Name) : ∀ (e : Expr) (env : Env),
      FreshEnv y env → (∀ n ∈ exprBinderNames e, n ≠ y) → (∀ p ∈ occNames e, p.2 ≠ y) →
      Sel pid occs (specExpr e env) →
      specExpr (renExpr pid occs y e) (renEnv pid y env) = specExpr e env
    | .var occ name, env, hf, _, ho, hs => by
      simp only [specExpr] at hs ⊢
      exact ren_var pid occs y occ name env hf (ho (occ, name) (by simp [occNames])) hs
    | .hole _, env, _, _, _, _ => by simp [renExpr, specExpr]
    | .leaf, env, _, _, _, _ => by simp [renExpr, specExpr]
    | .block ss, env, hf, hb, ho, hs => by
      simp only [renExpr, specExpr, exprBinderNames, occNames] at hb ho hs ⊢
      exact ren_stmts pid occs y ss env hf hb ho hs
    | .call f args, env, hf, hb, ho, hs => by
      simp only [renExpr, specExpr, exprBinderNames, occNames, List.mem_append, Sel.append_iff] at hb ho hs ⊢
      rw [ren_exprs pid occs y args env hf (fun n h => hb n (Or.inr h)) (fun p h => ho p (Or.inl h)) hs.1,
        ren_expr pid occs y f env hf (fun n h => hb n (Or.inl h)) (fun p h => ho p (Or.inr h)) hs.2]
    | .node es, env, hf, hb, ho, hs => by
      simp only [renExpr, specExpr, exprBinderNames, occNames] at hb ho hs ⊢
      exact ren_exprs pid occs y es env hf hb ho hs
    | .case_ subjects clauses, env, hf, hb, ho, hs => by
      simp only [renExpr, specExpr, exprBinderNames, occNames, List.mem_append, Sel.append_iff] at hb ho hs ⊢
      rw [ren_exprs pid occs y subjects env hf (fun n h => hb n (Or.inl h)) (fun p h => ho p (Or.inl h)) hs.1,
        ren_clauses pid occs y clauses env hf (fun n h => hb n (Or.inr h)) (fun p h => ho p (Or.inr h)) hs.2]
    | .lam params body, env, hf, hb, ho, hs => by
      simp only [renExpr, specExpr, exprBinderNames, occNames, List.mem_append] at hb ho hs ⊢
      rw [patsBinders_renPats, ← renEnv_cons]
      exact ren_expr pid occs y body _
        (FreshEnv.cons (freshFrame_pats params (fun n h => hb n (Or.inl h))) hf)
        (fun n h => hb n (Or.inr h)) ho hs
  theorem ren_exprs (pid : Nat) (occs : List Nat) (y : Name) : ∀ (es : Exprs) (env : Env),
      FreshEnv y env → (∀ n ∈ exprsBinderNames es, n ≠ y) → (∀ p ∈ occNamesExprs es, p.2 ≠ y) →
      Sel pid occs (specExprs es env) →
      specExprs (renExprs pid occs y es) (renEnv pid y env) = specExprs es env
    | .nil, env, _, _, _, _ => by simp [renExprs, specExprs]
    | .cons e es, env, hf, hb, ho, hs => by
      simp only [renExprs, specExprs, exprsBinderNames, occNamesExprs, List.mem_append, Sel.append_iff] at hb ho hs ⊢
      rw [ren_expr pid occs y e env hf (fun n h => hb n (Or.inl h)) (fun p h => ho p (Or.inl h)) hs.1,
        ren_exprs pid occs y es env hf (fun n h => hb n (Or.inr h)) (fun p h => ho p (Or.inr h)) hs.2]
  theorem ren_stmts (pid : Nat) (occs : List Nat) (y : Name) : ∀ (ss : Stmts) (env : Env),
      FreshEnv y env → (∀ n ∈ stmtsBinderNames ss, n ≠ y) → (∀ p ∈ occNamesStmts ss, p.2 ≠ y) →
      Sel pid occs (specStmts ss env) →
      specStmts (renStmts pid occs y ss) (renEnv pid y env) = specStmts ss env
    | .nil, env, _, _, _, _ => by simp [renStmts, specStmts]
    | .cons (.let_ p e) ss, env, hf, hb, ho, hs => by
      simp only [renStmts, specStmts, stmtsBinderNames, occNamesStmts, List.mem_append, Sel.append_iff] at hb ho hs ⊢
      rw [ren_expr pid occs y e env hf (fun n h => hb n (Or.inl (Or.inr h))) (fun p h => ho p (Or.inl h)) hs.1,
        patBinders_renPat, ← renEnv_cons,
        ren_stmts pid occs y ss _
          (FreshEnv.cons (freshFrame_pat p (fun n h => hb n (Or.inl (Or.inl h)))) hf)
          (fun n h => hb n (Or.inr h)) (fun p h => ho p (Or.inr h)) hs.2]
    | .cons (.use_ ps e) ss, env, hf, hb, ho, hs => by
      simp only [renStmts, specStmts, stmtsBinderNames, occNamesStmts, List.mem_append, Sel.append_iff] at hb ho hs ⊢
      rw [ren_expr pid occs y e env hf (fun n h => hb n (Or.inl (Or.inr h))) (fun p h => ho p (Or.inl h)) hs.1,
        patsBinders_renPats, ← renEnv_cons,
        ren_stmts pid occs y ss _
          (FreshEnv.cons (freshFrame_pats ps (fun n h => hb n (Or.inl (Or.inl h)))) hf)
          (fun n h => hb n (Or.inr h)) (fun p h => ho p (Or.inr h)) hs.2]
    | .cons (.expr e) ss, env, hf, hb, ho, hs => by
      simp only [renStmts, specStmts, stmtsBinderNames, occNamesStmts, List.mem_append, Sel.append_iff] at hb ho hs ⊢
      rw [ren_expr pid occs y e env hf (fun n h => hb n (Or.inl h)) (fun p h => ho p (Or.inl h)) hs.1,
        ren_stmts pid occs y ss env hf (fun n h => hb n (Or.inr h)) (fun p h => ho p (Or.inr h)) hs.2]
  theorem ren_clauses (pid : Nat) (occs : List Nat) (y : Name) : ∀ (cs : Clauses) (env : Env),
      FreshEnv y env → (∀ n ∈ clausesBinderNames cs, n ≠ y) → (∀ p ∈ occNamesClauses cs, p.2 ≠ y) →
      Sel pid occs (specClauses cs env) →
      specClauses (renClauses pid occs y cs) (renEnv pid y env) = specClauses cs env
    | .nil, env, _, _, _, _ => by simp [renClauses, specClauses]
    | .cons (.mk pats body) cs, env, hf, hb, ho, hs => by
      simp only [renClauses, specClauses, clausesBinderNames, occNamesClauses, List.mem_append, Sel.append_iff] at hb ho hs ⊢
      rw [patsBinders_renPats, ← renEnv_cons,
        ren_expr pid occs y body _
          (FreshEnv.cons (freshFrame_pats pats (fun n h => hb n (Or.inl (Or.inl h)))) hf)
          (fun n h => hb n (Or.inl (Or.inr h))) (fun p h => ho p (Or.inl h)) hs.1,
        ren_clauses pid occs y cs env hf (fun n h => hb n (Or.inr h)) (fun p h => ho p (Or.inr h)) hs.2]
end

/-- **alpha-renaming with a fresh name preserves every binding** (local binders): if `y` is spelled
by no binder and by no occurrence of the function, and occurrence ids are distinct, then after
renaming binder `pid` together with exactly the occurrences bound to it, every occurrence still
denotes the same binder -/
theorem alpha_fresh (f : Function) (pid : Nat) (y : Name)
    (hnd : ((occNames f.body).map (fun p => p.1)).Nodup)
    (hfreshOcc : ∀ p ∈ occNames f.body, p.2 ≠ y)
    (hfreshBind : ∀ n ∈ patsNames f.params ++ exprBinderNames f.body, n ≠ y) :
    bindings (renameFn f pid y) = bindings f := by
  have hnd' : ((bindings f).map (·.1)).Nodup := by
    unfold bindings; rw [specExpr_fst]; exact hnd
  have hs : Sel pid (refsOf f pid) (specExpr f.body [patsBinders f.params]) :=
    sel_of_nodup pid (bindings f) hnd'
  have hf : FreshEnv y [patsBinders f.params] :=
    FreshEnv.cons (freshFrame_pats f.params (fun n h => hfreshBind n (List.mem_append_left _ h)))
      (fun fr h => by cases h)
  have h := ren_expr pid (refsOf f pid) y f.body [patsBinders f.params] hf
    (fun n h => hfreshBind n (List.mem_append_right _ h)) hfreshOcc hs
  simp only [bindings, renameFn]
  rw [patsBinders_renPats]
  exact h

example :
    let f : Function :=
      { params := .cons (.var 0 "a") .nil,
        body := .block (.cons (.let_ (.var 1 "a") (.var 10 "a"))
                 (.cons (.expr (.node (.cons (.var 11 "a") (.cons (.var 12 "b") .nil)))) .nil)) }
    bindings (renameFn f 1 "z") = bindings f ∧ refsOf f 1 = [11] ∧ refsOf f 0 = [10] := by decide

/-! ### module-level symbols (functions, constants, constructors, unqualified imports)

The module's value table is the outermost frame of the environment (`modFrame`): `resolve_name` walks
the scope chain first and falls back to the table.  Renaming an entry of the table is then the same
theorem: in **every** function of the module, respelling the entry and exactly the occurrences it
captures leaves the binding of every occurrence unchanged — locals that shadow the old name keep
shadowing, nothing is captured by the new one. -/

/-- what every occurrence of a function is bound to inside a module with value frame `mf` -/
def bindingsIn (f : Function) (mf : Frame) : List (Nat × Option Nat) :=
  specExpr f.body [patsBinders f.params, mf]

def refsIn (f : Function) (mf : Frame) (pid : Nat) : List Nat :=
  ((bindingsIn f mf).filter (fun p => p.2 == some pid)).map (fun p => p.1)

/-- a function of the module after renaming definition `pid` (a local binder or an entry of the value
table) and exactly its references in this function -/
def renameIn (f : Function) (mf : Frame) (pid : Nat) (y : Name) : Function :=
  { params := renPats pid y f.params, body := renExpr pid (refsIn f mf pid) y f.body }

/-- **alpha-renaming of a module-level symbol with a fresh name** -/
theorem alpha_fresh_module (f : Function) (mf : Frame) (pid : Nat) (y : Name)
    (hnd : ((occNames f.body).map (fun p => p.1)).Nodup)
    (hfreshOcc : ∀ p ∈ occNames f.body, p.2 ≠ y)
    (hfreshBind : ∀ n ∈ patsNames f.params ++ exprBinderNames f.body, n ≠ y)
    (hfreshMod : ∀ e ∈ mf, e.1 ≠ y) :
    bindingsIn (renameIn f mf pid y) (renFrame pid y mf) = bindingsIn f mf := by
  have hnd' : ((bindingsIn f mf).map (·.1)).Nodup := by
    unfold bindingsIn; rw [specExpr_fst]; exact hnd
  have hs : Sel pid (refsIn f mf pid) (specExpr f.body [patsBinders f.params, mf]) :=
    sel_of_nodup pid (bindingsIn f mf) hnd'
  have hf : FreshEnv y [patsBinders f.params, mf] :=
    FreshEnv.cons (freshFrame_pats f.params (fun n h => hfreshBind n (List.mem_append_left _ h)))
      (FreshEnv.cons hfreshMod (fun fr h => by cases h))
  have h := ren_expr pid (refsIn f mf pid) y f.body [patsBinders f.params, mf] hf
    (fun n h => hfreshBind n (List.mem_append_right _ h)) hfreshOcc hs
  simp only [bindingsIn, renameIn]
  rw [patsBinders_renPats]
  exact h

/-- the table after the rename is the table with the entry respelled -/
theorem renFrame_modFrame (base : Nat) (values : List (Name × ValEntry)) (i : Nat) (y : Name) :
    renFrame (base + i) y (modFrame base values) =
      modFrame base (values.map (fun v => if v.2 = some i then (y, v.2) else v)) := by
  induction values with
  | nil => rfl
  | cons v r ih =>
    obtain ⟨k, w⟩ := v
    cases w with
    | none =>
      simp only [modFrame, List.filterMap_cons, Option.map_none, List.map_cons] at ih ⊢
      simp only [reduceCtorEq, if_false, Option.map_none]
      exact ih
    | some j =>
      simp only [modFrame, List.filterMap_cons, Option.map_some, List.map_cons, renFrame] at ih ⊢
      by_cases hj : j = i
      · subst hj
        simp only [if_true, Option.map_some, List.cons.injEq, true_and]
        exact ih
      · have h1 : ¬ base + j = base + i := by omega
        have h2 : ¬ some j = some i := by simp [hj]
        simp only [h1, h2, if_false, Option.map_some, List.cons.injEq, true_and]
        exact ih

/-- **the implementation's `resolve_name`** (scope arena first, then the module's value table; built-ins
and unresolved names aside) **is the environment semantics with the table as outermost frame**, at every
occurrence of every function — so `alpha_fresh_module` speaks about what go-to-definition computes -/
theorem resolve_name_refines_module (f : Function) (values : List (Name × ValEntry)) (builtins : List Name)
    (base : Nat) (hnd : ((occNames f.body).map (fun p => p.1)).Nodup) (hkeys : (values.map (·.1)).Nodup) :
    (occNames f.body).map (fun on => (on.1, encDef base (resolveOcc (buildScopes f) values builtins on.1 on.2))) =
      bindingsIn f (modFrame base values) := by
  have hloc := Glas.Props.C05.scopes_refine_spec f hnd
  unfold bindingsIn
  have : [patsBinders f.params, modFrame base values] = [patsBinders f.params] ++ [modFrame base values] := rfl
  rw [this, spec_module_expr, ← hloc]
  unfold implResolveAll withModule
  rw [List.zipWith_map_left]
  rw [List.zipWith_self]
  refine List.map_congr_left ?_
  intro on _
  simp only [resolveOcc, resolveName]
  cases hrc : resolveChain (buildScopes f).arena (buildScopes f).arena.length
      (lookupAssoc (buildScopes f).byOcc on.1) on.2 with
  | some id => simp [encDef]
  | none =>
    simp only [findEntry_modFrame base values hkeys]
    cases hv : findVal values on.2 with
    | none => cases builtins.contains on.2 <;> simp [encDef]
    | some w =>
      cases w with
      | none => cases builtins.contains on.2 <;> simp [encDef]
      | some i => simp [encDef]

end Glas.Props.C07
