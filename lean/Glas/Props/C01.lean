import Glas.Model.SyntaxCmd
import Glas.Model.SyntaxSpec
/-!
# C01 — the syntax tree is lossless for every input text

`parseModel` (Glas/Model/SyntaxCmd.lean) is the complete model of `parse_module`: the generated
lexer rules, the generated parser program run by `exec`, the generated tree-builder policy.
Everything here holds for every text, every program `P` of the DSL (generic theorems) and, through
decidable side conditions, for the generated `glasProg` / `glasPolicy`.
-/
namespace Glas.Props.C01
open Glas.Dsl Glas.Tree Glas.Lexer Glas.Gen Glas.SyntaxCmd Glas.SyntaxSpec

/-- the lexer's tokens are non-empty and their concatenation is the input, for any rule table -/
theorem lex_tiles (rules : List Rule) (ek : Kind) (s : List Char) :
    ((lex rules ek s).map (fun t => t.2)).flatten = s ∧ ∀ t ∈ lex rules ek s, t.2 ≠ [] := by
  sorry

/-- no rule of the generated table drops its text (`logos::skip`) -/
theorem glas_noSkip : skipKinds = [] := by decide

/-- only `bump` moves the position, and it emits exactly one `Advance` (any program, any statement) -/
theorem exec_advances (P : Prog) (n : Nat) (s : Stmt) (σ : St) (fr : Frame) :
    match exec P n s σ fr with
    | .norm σ' _ | .brk σ' _ | .ret σ' _ =>
        σ'.toks = σ.toks ∧ σ.pos ≤ σ'.pos ∧ advCount σ'.events + σ.pos = advCount σ.events + σ'.pos
    | _ => True := by
  sorry

theorem glas_mainShape : MainShape glasProg := by
  sorry

/-- a run of a well-shaped main that ends normally has consumed every token -/
theorem main_consumes_all (P : Prog) (h : MainShape P) (n : Nat) (toks : List Kind) (σ : St)
    (hr : runMain P n toks = .ok σ) :
    σ.pos = toks.length ∧ σ.toks = toks ∧ advCount σ.events = toks.length := by
  sorry

theorem glas_policyOK : PolicyOK glasPolicy parserTrivia := by
  sorry

/-- whatever events a normally ending run of a well-shaped main produced, the tree builder
succeeds on them and the leaves of the tree are the raw tokens, in order -/
theorem buildTree_lossless (P : Prog) (π : Policy) (triv : Kind → Bool) (hP : MainShape P)
    (hπ : PolicyOK π triv) (n : Nat) (raw : List RawTok) (σ : St)
    (hr : runMain P n ((raw.filter (fun t => !triv t.1)).map (fun t => t.1)) = .ok σ) :
    ∃ t, buildTree π σ.events raw = .ok t ∧ t.leaves = raw := by
  sorry

/-- **C01**: whenever the model of `parse_module` returns a tree — with or without syntax errors —
the leaves are exactly the lexer's tokens, their texts concatenate to the input, each is non-empty,
and their byte ranges tile `[0, length)` -/
theorem C01_lossless (n : Nat) (s : List Char) (t : Tree) (σ : St) (raw : List RawTok)
    (h : parseModel n s = .ok (t, σ, raw)) :
    raw = lexText s ∧ t.leaves = raw ∧ ((t.leaves.map (fun x => x.2)).flatten = s) ∧
    (∀ x ∈ t.leaves, x.2 ≠ []) ∧ Tiles (ranges t.leaves 0) 0 (SyntaxSpec.u8len s) := by
  sorry

end Glas.Props.C01
