import Glas.Model.SyntaxCmd
import Glas.Model.SyntaxSpec
import Glas.Lemmas.Lexer
import Glas.Lemmas.DslMain
import Glas.Lemmas.TreeRanges
import Glas.Lemmas.TreeCounter
/-!
# C01 — the syntax tree is lossless for every input text

`parseModel` (Glas/Model/SyntaxCmd.lean) is the complete model of `parse_module`: the generated
lexer rules, the generated parser program run by `exec`, the generated tree-builder policy.
Everything here holds for every text, every program `P` of the DSL (generic theorems) and, through
decidable side conditions, for the generated `glasProg` / `glasPolicy`.
-/
namespace Glas.Props.C01
open Glas.Dsl Glas.Tree Glas.Lexer Glas.Gen Glas.SyntaxCmd Glas.SyntaxSpec

/-- the lexer's tokens are non-empty and their concatenation is the input, for any rule table -/
theorem lex_tiles (rules : List Rule) (ek : Kind) (s : List Char) :
    ((lex rules ek s).map (fun t => t.2)).flatten = s ∧ ∀ t ∈ lex rules ek s, t.2 ≠ [] :=
  Glas.Lemmas.Lexer.lexFuel_tiles rules ek s.length s (Nat.le_refl _)

/-- no rule of the generated table drops its text (`logos::skip`) -/
theorem glas_noSkip : skipKinds = [] := by decide

/-- only `bump` moves the position, and it emits exactly one `Advance` (any program, any statement) -/
theorem exec_advances (P : Prog) (n : Nat) (s : Stmt) (σ : St) (fr : Frame) :
    match exec P n s σ fr with
    | .norm σ' _ | .brk σ' _ | .ret σ' _ =>
        σ'.toks = σ.toks ∧ σ.pos ≤ σ'.pos ∧ advCount σ'.events + σ.pos = advCount σ.events + σ'.pos
    | _ => True := by
  have h := Glas.Lemmas.Dsl.exec_advOut P n s σ fr
  generalize exec P n s σ fr = o at h
  cases o <;> first | exact h | trivial

theorem glas_mainShape : MainShape glasProg := ⟨_, _, rfl⟩

/-- a run of a well-shaped main that ends normally has consumed every token -/
theorem main_consumes_all (P : Prog) (h : MainShape P) (n : Nat) (toks : List Kind) (σ : St)
    (hr : runMain P n toks = .ok σ) :
    σ.pos = toks.length ∧ σ.toks = toks ∧ advCount σ.events = toks.length := by
  obtain ⟨f, k, hP⟩ := h
  obtain ⟨h1, h2, h3, _⟩ := Glas.Lemmas.Dsl.run_shape P f k hP n toks σ hr
  exact ⟨h1, h2, h3⟩

theorem glas_policyOK : PolicyOK glasPolicy parserTrivia where
  pop := rfl
  fin := rfl
  flush := ⟨_, rfl, fun _ => rfl⟩
  extra := rfl
  adv := fun _ => rfl
  opens := by
    intro k p k' hmem hp
    simp only [glasPolicy] at hmem
    have key : p = is_module_doc ∨ p = is_whitespace ∨ p = is_stmt_doc ∨ p = is_trivia := by
      split at hmem
      · simp at hmem; simp [hmem]
      · split at hmem
        · simp at hmem; rcases hmem with h | h <;> simp [h]
        · simp at hmem; simp [hmem]
    rcases key with rfl | rfl | rfl | rfl <;>
      simp only [parserTrivia, is_trivia, is_module_doc, is_stmt_doc, is_whitespace, Bool.and_eq_true,
        Bool.or_eq_true, decide_eq_true_eq, beq_iff_eq] at hp ⊢ <;>
      simp only [K_WHITESPACE, K_COMMENT, K_COMMENT_MODULE] at hp ⊢ <;> omega
  oneStart := by
    intro k
    simp only [glasPolicy]
    split
    · rfl
    · split <;> rfl

/-- why `buildTree_lossless` below needs its `hroot` hypothesis: without it (a policy whose root
kind eats trivia before starting its node) the statement is false — counterexample in
`Glas/Lemmas/TreeCounter.lean` -/
theorem buildTree_rootStart_needed :
    ¬ ∀ (P : Prog) (π : Policy) (triv : Kind → Bool), MainShape P → PolicyOK π triv →
      ∀ (n : Nat) (raw : List RawTok) (σ : St),
        runMain P n ((raw.filter (fun t => !triv t.1)).map (fun t => t.1)) = .ok σ →
        ∃ t, buildTree π σ.events raw = .ok t ∧ t.leaves = raw :=
  Glas.Lemmas.Tree.Counter.refutation

/-- whatever events a normally ending run of a well-shaped main produced, the tree builder
succeeds on them and the leaves of the tree are the raw tokens, in order — provided the root kind
`k` (the kind main closes its node with) starts its node before anything is eaten -/
theorem buildTree_lossless (P : Prog) (π : Policy) (triv : Kind → Bool) (f : Nat) (k : Kind)
    (hP : (P.procs[P.main]?).map (fun p => p.body) =
      some (.seq (.open 0) (.seq (.loop (.ite (.not .eof) (.call f [] [] .none) .brk)) (.close 0 k none))))
    (hroot : ∃ acts, π.onOpen k = .start :: acts)
    (hπ : PolicyOK π triv) (n : Nat) (raw : List RawTok) (σ : St)
    (hr : runMain P n ((raw.filter (fun t => !triv t.1)).map (fun t => t.1)) = .ok σ) :
    ∃ t, buildTree π σ.events raw = .ok t ∧ t.leaves = raw := by
  obtain ⟨acts, hroot⟩ := hroot
  obtain ⟨_, _, hadv, mid, hev, hok, hund, hcnt⟩ := Glas.Lemmas.Dsl.run_shape P f k hP n _ σ hr
  rw [hev]
  refine Glas.Lemmas.Tree.buildTree_ok π triv hπ k 0 acts hroot mid raw hok hund hcnt ?_
  rw [Glas.Lemmas.Tree.ntc_eq, ← hadv, hev]
  simp [advCount, Glas.Lemmas.Dsl.advCount_append]

/-- the root kind of the generated program starts its node first -/
theorem glas_rootStart : ∃ f k, (glasProg.procs[glasProg.main]?).map (fun p => p.body) =
      some (.seq (.open 0) (.seq (.loop (.ite (.not .eof) (.call f [] [] .none) .brk))
        (.close 0 k none))) ∧
    ∃ acts, glasPolicy.onOpen k = .start :: acts :=
  ⟨_, _, rfl, _, rfl⟩

/-- **C01**: whenever the model of `parse_module` returns a tree — with or without syntax errors —
the leaves are exactly the lexer's tokens, their texts concatenate to the input, each is non-empty,
and their byte ranges tile `[0, length)` -/
theorem C01_lossless (n : Nat) (s : List Char) (t : Tree) (σ : St) (raw : List RawTok)
    (h : parseModel n s = .ok (t, σ, raw)) :
    raw = lexText s ∧ t.leaves = raw ∧ ((t.leaves.map (fun x => x.2)).flatten = s) ∧
    (∀ x ∈ t.leaves, x.2 ≠ []) ∧ Tiles (ranges t.leaves 0) 0 (SyntaxSpec.u8len s) := by
  unfold parseModel at h
  simp only at h
  split at h
  · exact absurd h (by simp)
  · exact absurd h (by simp)
  · rename_i σ' hrun
    split at h
    · exact absurd h (by simp)
    · rename_i t' hbuild
      simp only [Except.ok.injEq, Prod.mk.injEq] at h
      obtain ⟨rfl, rfl, rfl⟩ := h
      obtain ⟨f, k, hP, hroot⟩ := glas_rootStart
      obtain ⟨t'', hb, hleaves⟩ := buildTree_lossless glasProg glasPolicy parserTrivia f
        k hP hroot glas_policyOK n (lexText s) σ' hrun
      rw [hbuild] at hb
      simp only [Except.ok.injEq] at hb
      subst hb
      obtain ⟨hflat, hne⟩ := lex_tiles glasRules lexErrorKind s
      have htiles := Glas.Lemmas.Tree.tiles_ranges (lexText s) 0 hne
      rw [hleaves]
      refine ⟨rfl, rfl, hflat, hne, ?_⟩
      have e : (List.map (fun x => x.2) (lexText s)).flatten = s := hflat
      rw [e, Nat.zero_add] at htiles
      exact htiles

end Glas.Props.C01
