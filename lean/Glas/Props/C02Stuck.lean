import Glas.Props.C02La
import Glas.Props.C02Marks
/-!
# C02 / C01 without exception

`C02_total` and `C01_total` (mark discipline, termination, safety) left one outcome open: the parser's own
`parser is stuck` guard.  `C02_never_stuck` (`Props/C02La.lean`) closes it: on every token list the model of the
parser ends normally, on every text the model of `parse_module` returns a lossless tree.

(What is *not* covered: the depth of the Rust call stack - the recorded finding `C02/unbounded-recursion`.)
-/
namespace Glas.Props.C02Stuck
open Glas.Dsl Glas.Check Glas.Gen Glas.LaCheck Glas.SyntaxCmd Glas.Props.C02Marks Glas.Props.C02La

/-- **C02 for the model, without exception**: on every token list the parser, run with the linear fuel of
`C02_terminates`, ends normally with every node finished -/
theorem C02_always_ok (toks : List Kind) : ∃ σ, runMain glasProg (bound glasProg toks.length) toks = .ok σ := by
  rcases C02_total toks with h | ⟨σ, hσ⟩
  · exact h
  · exact absurd hσ (C02_never_stuck _ toks σ)

/-- **C01/C02 for the whole model of `parse_module`, without exception**: for every text the model returns a
tree whose leaves are the lexer's tokens (so `C01_lossless` applies) -/
theorem C01_always (s : List Char) :
    ∃ t σ, parseModel (bound glasProg (parserToks s).length) s = .ok (t, σ, lexText s) ∧ t.leaves = lexText s := by
  obtain ⟨σ, hσ⟩ := C02_always_ok (parserToks s)
  obtain ⟨f, k, hP, hroot⟩ := Glas.Props.C01.glas_rootStart
  obtain ⟨t, hb, hleaves⟩ := Glas.Props.C01.buildTree_lossless glasProg glasPolicy parserTrivia f k hP hroot
    Glas.Props.C01.glas_policyOK (bound glasProg (parserToks s).length) (lexText s) σ hσ
  refine ⟨t, σ, ?_, hleaves⟩
  unfold parseModel
  unfold parserToks at hσ ⊢
  simp only
  rw [hσ]
  simp only
  rw [hb]

end Glas.Props.C02Stuck
