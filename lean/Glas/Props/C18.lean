import Glas.Model.ScopeSpec
import Glas.Lemmas.ScopeTrav
import Glas.Lemmas.ScopeNames
/-!
# C18 — completions list what is in scope (names): the two code paths agree
-/
namespace Glas.Props.C18
open Glas.Scope

/-- at every completion hole the local names offered (`values_names_in_scope` walking the scope
arena) are exactly the names visible under Gleam's rules, each denoting the innermost binder -/
theorem holes_refine_spec (f : Function) (hnd : (holeIds f.body).Nodup) :
    implHolesAll f = specHoles f.body [patsBinders f.params] := by
  obtain ⟨new, hh, hkeys, hres⟩ := (trav_buildScopes f).hole
  simp only [List.nil_append] at hh
  have hnd' : ((([] : List (Nat × Nat)) ++ new).map (·.1)).Nodup := by
    simpa [hkeys] using hnd
  have hz := map_lookup_eq_zipWith (fun h : Nat => h)
    (fun h o => (h, dedupNames (chainEntries (buildScopes f).arena (buildScopes f).arena.length o)))
    new (holeIds f.body) [] (by simpa using hkeys) hnd'
  have hspec := hres _ (List.prefix_refl _)
  unfold implHolesAll
  simp only [hh]
  simp only [List.nil_append] at hz
  exact hz.trans hspec

/-- a name is offered exactly when `resolve_name` resolves it to a local or module-level value, and
the offered definition is the one `resolve_name` finds (so accepting a completion inserts a name
that resolves, to that very definition) -/
theorem completion_iff_resolvable (S : Scopes) (values : List (Name × ValEntry)) (scope : Option Nat)
    (hkeys : (values.map (fun p => p.1)).Nodup) (name : Name) (d : Def) :
    (name, d) ∈ namesInScope S values scope ↔ (resolveName S values [] scope name = some d) := by
  rw [namesInScope_eq, mem_addAll, firstDef_append, firstDef_map, firstDef_valDefs name values hkeys,
    findEntry_chainEntries]
  unfold resolveName
  cases resolveChain S.arena S.arena.length scope name with
  | some id => simp
  | none =>
    cases findVal values name with
    | none => simp
    | some w =>
      cases w with
      | none => simp
      | some i => simp

/-- the value table built by `module_scope_with_map_query` has one entry per name -/
theorem buildValues_keys_nodup (decls : List (Name × ValEntry)) :
    ((buildValues decls).map (fun p => p.1)).Nodup := by
  exact foldl_insertVal_keys_nodup decls [] List.nodup_nil

/-- no name is offered twice -/
theorem completion_nodup (S : Scopes) (values : List (Name × ValEntry)) (scope : Option Nat) :
    ((namesInScope S values scope).map (fun p => p.1)).Nodup := by
  rw [namesInScope_eq]
  exact addAll_nodup _ [] List.nodup_nil

example :
    let f : Function :=
      { params := .cons (.var 0 "a") (.cons (.var 1 "b") .nil),
        body := .block (.cons (.let_ (.var 2 "a") .leaf) (.cons (.expr (.hole 7)) .nil)) }
    implHolesAll f = [(7, [("a", 2), ("b", 1)])] := by decide

end Glas.Props.C18
