import Glas.Model.UnionFind
import Glas.Lemmas.UnionFind
/-!
# C09 (part 1) — the union-find table of type inference is a correct partition structure

Type variables that were unified stay unified, nothing else gets merged, the class value survives
on the left, and `get_mut` never meets a root without a value.
-/
namespace Glas.Props.C09UF
open Glas.UF

def rootOf {α} (t : Table α) (x : Nat) : Nat := root t x (fuelOf t)

/-- `find` returns the root, leaves every class as it was (path compression only), keeps the
table well-formed -/
theorem find_spec {α} (t : Table α) (x : Nat) (h : WF t) (hx : x < t.length) :
    let r := find t x (fuelOf t)
    r.2 = rootOf t x ∧ parentOf r.1 r.2 = r.2 ∧ r.2 < t.length ∧ WF r.1 ∧ r.1.length = t.length ∧
    (∀ y, y < t.length → rootOf r.1 y = rootOf t y) ∧
    (∀ y, y < t.length → parentOf t y = y → valOf r.1 y = valOf t y) :=
  find_spec' t x h hx

/-- `push`: a new singleton class carrying `v`; nothing else changes -/
theorem push_spec {α} (t : Table α) (v : α) (h : WF t) :
    let r := push t v
    WF r.1 ∧ r.2 = t.length ∧ r.1.length = t.length + 1 ∧ rootOf r.1 r.2 = r.2 ∧ valOf r.1 r.2 = some v ∧
    (∀ y, y < t.length → rootOf r.1 y = rootOf t y ∧ valOf r.1 y = valOf t y) :=
  push_spec' t v h

/-- `unify a b`: afterwards `a` and `b` are in one class whose root is the returned index; classes
that were equal stay equal; classes other than those of `a` and `b` keep their root and value; the
merged class carries the value of `a`'s class and the value of `b`'s class is returned -/
theorem unify_spec {α} (t : Table α) (a b : Nat) (h : WF t) (ha : a < t.length) (hb : b < t.length) :
    let r := unify t a b
    WF r.1 ∧ r.1.length = t.length ∧
    rootOf r.1 a = r.2.1 ∧ rootOf r.1 b = r.2.1 ∧
    (∀ x y, x < t.length → y < t.length → rootOf t x = rootOf t y → rootOf r.1 x = rootOf r.1 y) ∧
    (∀ x, x < t.length → rootOf t x ≠ rootOf t a → rootOf t x ≠ rootOf t b →
        rootOf r.1 x = rootOf t x ∧ valOf r.1 (rootOf t x) = valOf t (rootOf t x)) ∧
    (∀ x y, x < t.length → y < t.length → rootOf r.1 x = rootOf r.1 y →
        rootOf t x = rootOf t y ∨
        ((rootOf t x = rootOf t a ∨ rootOf t x = rootOf t b) ∧ (rootOf t y = rootOf t a ∨ rootOf t y = rootOf t b))) ∧
    valOf r.1 r.2.1 = valOf t (rootOf t a) ∧
    (rootOf t a ≠ rootOf t b → r.2.2 = valOf t (rootOf t b)) ∧
    (rootOf t a = rootOf t b → r.2.2 = none) :=
  unify_spec' t a b h ha hb

/-- operations of the inference engine on the table -/
inductive UOp (α : Type) where
  | push (v : α)
  | find (x : Nat)
  | unify (a b : Nat)
  | set (x : Nat) (v : α)      -- `*table.get_mut(x) = v`

def applyOp {α} (t : Table α) : UOp α → Table α
  | .push v => (push t v).1
  | .find x => if x < t.length then (find t x (fuelOf t)).1 else t
  | .unify a b => if a < t.length ∧ b < t.length then (unify t a b).1 else t
  | .set x v => if x < t.length then
      let r := find t x (fuelOf t)
      setVal r.1 r.2 (some v)
    else t

/-- every table the engine can reach is well-formed, so `get_mut(x).unwrap()` never fails and
`find` terminates within `fuelOf` steps -/
theorem applyOp_wf {α} (t : Table α) (op : UOp α) (h : WF t) : WF (applyOp t op) := by
  cases op with
  | push v => exact (push_spec t v h).1
  | find x =>
    simp only [applyOp]; split
    · next hx => exact (find_spec t x h hx).2.2.2.1
    · exact h
  | unify a b =>
    simp only [applyOp]; split
    · next hab => exact (unify_spec t a b h hab.1 hab.2).1
    · exact h
  | set x v =>
    simp only [applyOp]; split
    · next hx => exact setVal_some_wf (find_spec t x h hx).2.2.2.1 _ v
    · exact h

theorem foldl_applyOp_wf {α} (ops : List (UOp α)) (t : Table α) (h : WF t) :
    WF (ops.foldl applyOp t) := by
  induction ops generalizing t with
  | nil => exact h
  | cons op ops ih => exact ih _ (applyOp_wf t op h)

theorem reachable_wf {α} (ops : List (UOp α)) : WF (ops.foldl applyOp ([] : Table α)) :=
  foldl_applyOp_wf ops [] wf_nil

theorem get_total {α} (t : Table α) (x : Nat) (h : WF t) (hx : x < t.length) :
    ((get t x).2).isSome = true := by
  have hs := find_spec t x h hx
  rw [get_eq]
  exact (hs.2.2.2.1 _ (hs.2.2.2.2.1 ▸ hs.2.2.1)).2.2 hs.2.1

example : rootOf ((unify (push (push ([] : Table Nat) 7).1 8).1 0 1).1) 0 = 1 := by decide

end Glas.Props.C09UF
