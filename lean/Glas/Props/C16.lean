import Glas.Model.Conc
import Glas.Gen.Choreo
import Glas.Lemmas.Conc
/-!
# C16 — edits racing with requests never deadlock (lock choreography of the main loop and of the
request handlers)
-/
namespace Glas.Props.C16
open Glas.Conc Glas.ChoreoSpec Glas.Gen

/-- entry points of the main loop that touch the document store or the database -/
def entries : List String := ["on_did_open", "on_did_change", "on_did_close", "on_set_package_graph", "spawn_with_snapshot"]

/-- the extracted methods obey the discipline: the document-store guard is released before the
database write is requested, every guard is released, no nested acquisition -/
theorem glas_disciplined :
    entries.all (fun m => disciplined (inline serverMethods 6 [.call m]) false) = true := by decide

/-- the extracted handlers obey theirs: no second read guard while one is held -/
theorem glas_handlers_disciplined :
    handlerTasks.all (fun h => taskDisciplined h.2 0) = true := by decide

theorem serverFlags_ok : serverFlags.snapshotBeforeSpawn = true ∧ serverFlags.snapVfsIsRead = true := by decide

/-- a task in the middle of a disciplined handler -/
def TaskOK (t : Task) : Prop := taskDisciplined t.prog t.held = true

/-- **no deadlock**: for any disciplined main-loop work, any disciplined handlers and any in-flight
request tasks, every reachable state (early exits of tasks included) is finished or some thread
can take a step that is not an early exit -/
theorem deadlock_free (ops : List Op) (h : disciplined ops false = true)
    (handlers : List (List TOp)) (hh : ∀ p ∈ handlers, taskDisciplined p 0 = true)
    (tasks : List Task) (ht : ∀ t ∈ tasks, TaskOK t)
    (acts : List LAct) (s : LockSys)
    (hr : lrun (initLock ops handlers tasks) acts = some s) :
    finished s = true ∨ ∃ a s', isProgress a = true ∧ lstep s a = some s' := by
  exact inv_progress s (lrun_inv acts _ s hr (initLock_inv ops h handlers hh tasks ht))

/-- **the system quiesces**: from every reachable state there is a schedule of progress steps that
finishes all work (so under a fair scheduler every request is answered and the loop keeps
accepting messages) -/
theorem can_finish (ops : List Op) (h : disciplined ops false = true)
    (handlers : List (List TOp)) (hh : ∀ p ∈ handlers, taskDisciplined p 0 = true)
    (tasks : List Task) (ht : ∀ t ∈ tasks, TaskOK t)
    (acts : List LAct) (s : LockSys)
    (hr : lrun (initLock ops handlers tasks) acts = some s) :
    ∃ more s', more.all isProgress = true ∧ lrun s more = some s' ∧ finished s' = true := by
  obtain ⟨s', ⟨more, hp, hrun⟩, hf⟩ :=
    linv_can_finish s (lrun_inv acts _ s hr (initLock_inv ops h handlers hh tasks ht))
  exact ⟨more, s', hp, hrun, hf⟩

/-- the main-loop discipline is needed: holding the document-store guard across the database write
deadlocks against a request task that is about to read the store -/
theorem undisciplined_main_deadlocks :
    ∃ s, lrun (initLock [.acqVfsW, .dbWrite, .relVfs] [] [{ prog := [.acqR, .relR, .query 3], held := 0 }])
        [.main 0, .main 0] = some s ∧ finished s = false ∧ ∀ a, isProgress a = true → lstep s a = none := by
  refine ⟨_, rfl, by decide, ?_⟩
  exact stuck_of_single _ _ rfl (by decide) (by decide)

/-- the handler discipline is needed: a second read guard requested while one is held deadlocks
against the loop thread parked in `vfs.write()` -/
theorem undisciplined_handler_deadlocks :
    ∃ s, lrun (initLock [.acqVfsW, .relVfs] [] [{ prog := [.acqR, .acqR, .relR, .relR], held := 0 }])
        [.task 0, .main 0] = some s ∧ finished s = false ∧ ∀ a, isProgress a = true → lstep s a = none := by
  refine ⟨_, rfl, by decide, ?_⟩
  exact stuck_of_single _ _ rfl (by decide) (by decide)

/-- the handlers of edits write the document store only after in-flight requests were cancelled
and waited for (`request_cancellation` before the first write guard) -/
theorem glas_store_quiet :
    ["on_did_open", "on_did_change"].all (fun m => storeQuiet (inline serverMethods 6 [.call m]) false false) = true := by decide

/-- **no answer mixes versions**: under that discipline, whenever the loop thread holds the write
guard of the document store no request task is alive - so every task sees, from its first to its
last step, the store of the moment its snapshot was taken -/
theorem store_stable (ops : List Op) (handlers : List (List TOp)) (tasks : List Task)
    (h : storeQuiet ops (!tasks.any taskAlive) false = true)
    (acts : List LAct) (s : LockSys)
    (hr : lrun (initLock ops handlers tasks) acts = some s) :
    s.mainHoldsVfs = true → s.tasks.any taskAlive = false :=
  (lrun_sq acts _ s hr (initLock_sq ops handlers tasks h)).2

/-- the discipline is needed: without the cancellation a task spawned earlier is alive while the
store is written -/
theorem store_unstable_without_cancel :
    ∃ s, lrun (initLock [.snap, .spawn, .acqVfsW, .relVfs, .dbWrite] [[.acqR, .relR, .query 1]] []) [.main 0, .main 0, .main 0] = some s ∧
      s.mainHoldsVfs = true ∧ s.tasks.any taskAlive = true :=
  ⟨_, rfl, by decide, by decide⟩

end Glas.Props.C16
