import Glas.Lemmas.DepthSound
import Glas.Props.C02Stuck
/-!
# C02 (e) — the recursion depth grows at most linearly with the input

The model records the number of open procedure activations (`St.depth`) and its maximum (`St.maxDepth`).
There is no constant bound on the current tree (recorded finding `C02/abort/unbounded-recursion`, witness
`C02Witness.depth_witness`); what holds, for every input, is a linear one with a small slope computed from
the regenerated program: at most `rankBound` activations per token.
-/
namespace Glas.Props.C02Depth
open Glas.Dsl Glas.Check Glas.Gen

/-- generic: for a program that passes `check`, every normally ending run has at most `rankBound · (tokens + 1)`
nested activations -/
theorem depth_linear (P : Prog) (h : check P = true) (n : Nat) (toks : List Kind) (σ : St)
    (hr : runMain P n toks = .ok σ) : σ.maxDepth ≤ rankBound (infer P) * (toks.length + 1) :=
  maxDepth_linear (Γ := infer P) h n toks σ hr

/-- the slope for the generated parser (kernel evaluation) -/
theorem glas_rankBound : rankBound (infer glasProg) = 5 := by decide +kernel

/-- **C02 (e), quantified**: on EVERY token list the parser ends normally (`C02_always_ok`) and never has more than
`5 · (number of tokens + 1)` activations open at once -/
theorem C02_depth_linear (toks : List Kind) :
    ∃ σ, runMain glasProg (bound glasProg toks.length) toks = .ok σ ∧ σ.maxDepth ≤ 5 * (toks.length + 1) := by
  obtain ⟨σ, hσ⟩ := Glas.Props.C02Stuck.C02_always_ok toks
  refine ⟨σ, hσ, ?_⟩
  have := depth_linear glasProg Glas.Props.C02.glas_checked _ toks σ hσ
  rw [glas_rankBound] at this
  exact this

end Glas.Props.C02Depth
