import Glas.Model.Highlight
import Glas.Model.HighlightCmd
import Glas.Gen.Highlight
/-!
# C19, second half — which identifiers are tagged, and how

`glasTag` is `token_tag` of `semantic_highlighting.rs` with the table regenerated from the source
(`Gen/Highlight.lean`).  Stated outright: an identifier is tagged *function* exactly when it refers to a
function or to a local of function type; *constructor* exactly when it refers to a constructor or is a
constructor's name in its declaration; nothing else is tagged.  `module_never_tagged` is the recorded
finding (the property wants module identifiers tagged; `HlTag::Module` is never produced).
-/
namespace Glas.Props.C19Tags
open Glas.Highlight Glas.Gen Glas.HighlightCmd

/-- the regenerated table is the one the theorems below are about -/
theorem glas_tag_table : hlNameRefRules = [("Function", "Function"), ("Variant", "Constructor")] ∧
    hlLocalFnTag = some "Function" ∧ hlVariantNameTag = some "Constructor" ∧
    hlTags = ["Function", "Module", "Constructor"] := by decide

theorem glasTag_nameRef (k : String) (b : Bool) :
    glasTag ⟨.nameRef, some k, b⟩ =
      if k = "Function" then some "Function" else if k = "Variant" then some "Constructor"
      else if k = "Local" ∧ b = true then some "Function" else none := by
  simp only [glasTag, tagOf, hlNameRefRules, hlLocalFnTag, lookupRule]
  by_cases h1 : k = "Function"
  · simp [h1]
  · by_cases h2 : k = "Variant"
    · simp [h2]
    · have h1' : ¬ "Function" = k := fun h => h1 h.symm
      have h2' : ¬ "Variant" = k := fun h => h2 h.symm
      simp only [h1', h2', h1, h2, if_false]
      by_cases h3 : k = "Local" <;> cases b <;> simp [h3]

/-- tagged *function* iff it refers to a function or to a function-typed local -/
theorem tag_function_iff (c : Ctx) :
    glasTag c = some "Function" ↔
      c.parent = .nameRef ∧ (c.defKind = some "Function" ∨ (c.defKind = some "Local" ∧ c.localIsFn = true)) := by
  obtain ⟨p, dk, b⟩ := c
  cases p with
  | nameRef =>
    cases dk with
    | none => simp [glasTag, tagOf]
    | some k =>
      rw [glasTag_nameRef]
      by_cases h1 : k = "Function"
      · simp [h1]
      · by_cases h2 : k = "Variant"
        · subst h2; simp
        · by_cases h3 : k = "Local"
          · subst h3; cases b <;> simp
          · simp [h1, h2, h3]
  | variantName => simp [glasTag, tagOf, hlVariantNameTag]
  | otherName => simp [glasTag, tagOf]
  | other => simp [glasTag, tagOf]

/-- tagged *constructor* iff it refers to a constructor or is a constructor's name in its declaration -/
theorem tag_constructor_iff (c : Ctx) :
    glasTag c = some "Constructor" ↔
      (c.parent = .nameRef ∧ c.defKind = some "Variant") ∨ c.parent = .variantName := by
  obtain ⟨p, dk, b⟩ := c
  cases p with
  | nameRef =>
    cases dk with
    | none => simp [glasTag, tagOf]
    | some k =>
      rw [glasTag_nameRef]
      by_cases h1 : k = "Function"
      · subst h1; simp
      · by_cases h2 : k = "Variant"
        · simp [h2]
        · by_cases h3 : k = "Local"
          · subst h3; cases b <;> simp
          · simp [h1, h2, h3]
  | variantName => simp [glasTag, tagOf, hlVariantNameTag]
  | otherName => simp [glasTag, tagOf]
  | other => simp [glasTag, tagOf]

/-- nothing else is tagged: every tag is one of the two -/
theorem tag_only_these (c : Ctx) (t : String) (h : glasTag c = some t) : t = "Function" ∨ t = "Constructor" := by
  obtain ⟨p, dk, b⟩ := c
  cases p with
  | nameRef =>
    cases dk with
    | none => simp [glasTag, tagOf] at h
    | some k =>
      rw [glasTag_nameRef] at h
      split at h
      · exact Or.inl (Option.some.inj h).symm
      · split at h
        · exact Or.inr (Option.some.inj h).symm
        · split at h
          · exact Or.inl (Option.some.inj h).symm
          · cases h
  | variantName =>
    simp only [glasTag, tagOf, hlVariantNameTag, Option.some.injEq] at h
    exact Or.inr h.symm
  | otherName => simp [glasTag, tagOf] at h
  | other => simp [glasTag, tagOf] at h

/-- the recorded finding: no identifier is ever tagged as a module -/
theorem module_never_tagged (c : Ctx) : glasTag c ≠ some "Module" := by
  intro h
  rcases tag_only_these c "Module" h with h' | h' <;> simp at h'

/-! ## non-vacuity -/
example : glasTag ⟨.nameRef, some "Local", true⟩ = some "Function" := by decide
example : glasTag ⟨.nameRef, some "Local", false⟩ = none := by decide
example : glasTag ⟨.nameRef, some "Module", false⟩ = none := by decide
example : glasTag ⟨.otherName, none, false⟩ = none := by decide

end Glas.Props.C19Tags
