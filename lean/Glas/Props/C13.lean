import Glas.Lemmas.Text
import Glas.Model.TextSpec
/-!
# C13 — the server's copy of a document tracks the editor's through any edits

`c` is the editor's document (may contain CRLF), the server holds `stripCR c`.  Positions are
what the editor sends: `clientLineCol c k` for a character index `k` of its own document.
-/
namespace Glas.Props.C13
open Glas.Text

/-- column conversion inside one line: the UTF-16 column of a character boundary is mapped to its
byte offset (the loop of `pos_for_line_col`) -/
theorem col_to_byte (cs : List Char) (k : Nat) (hk : k ≤ cs.length) :
    posForCol (diffsOf cs 0) (u16sum (cs.take k)) = u8sum (cs.take k) := by
  have := posForCol_correct cs 0 k hk
  simpa using this

example : serverRun (stripCR "a💣\r\nb".toList) "a💣\r\nb".toList
    [.range 1 2 "ß\r\n".toList, .range 4 6 []] = .ok "aß\nb".toList := by decide

end Glas.Props.C13
