import Glas.Lemmas.Text
import Glas.Lemmas.TextCR
import Glas.Lemmas.TextTotal
import Glas.Model.TextSpec
/-!
# C13 — the server's copy of a document tracks the editor's through any edits

`c` is the editor's document (may contain CRLF), the server holds `stripCR c`.  Positions are
what the editor sends: `clientLineCol c k` for a character index `k` of its own document.
-/
namespace Glas.Props.C13
open Glas.Text

/-- on a document with LF/CRLF line breaks, at an index where an editor can place a position, the
position computed on the editor's text is the position of the corresponding character of the
server's CR-free text -/
theorem clientPos_strip (c : List Char) (k : Nat) (hwf : wfCRLF c = true) (hv : validIdx c k) :
    clientLineCol c k = clientLineCol (stripCR c) (stripCR (c.take k)).length := by
  exact clientLineCol_strip c k hwf hv

/-- a valid LSP position is converted to the byte offset of the same character in the server's
text -/
theorem pos_tracks (c : List Char) (k : Nat) (hwf : wfCRLF c = true) (hv : validIdx c k)
    (hlen : u8sum (stripCR c) < U32) :
    (lineMap (stripCR c)).posForLineCol (clientLineCol c k).1 (clientLineCol c k).2
      = some (u8sum (stripCR (c.take k))) := by
  rw [clientLineCol_strip c k hwf hv, posForLineCol_client _ _ hlen, (stripCR_take_drop c k).1]

/-- one ranged change: the server's new text is the editor's new text without carriage returns -/
theorem edit_tracks (c : List Char) (j k : Nat) (ins : List Char) (hwf : wfCRLF c = true)
    (hjk : j ≤ k) (hj : validIdx c j) (hk : validIdx c k) (hlen : u8sum (stripCR c) < U32) :
    serverApply (stripCR c) c (.range j k ins) = .ok (stripCR (clientApply c (.range j k ins))) := by
  have hpj := fromPos_tracks c j hwf hj hlen
  have hpk := fromPos_tracks c k hwf hk hlen
  have htj : c.take j = (c.take k).take j := by rw [List.take_take, Nat.min_eq_left hjk]
  have hle : u8sum (stripCR (c.take j)) ≤ u8sum (stripCR (c.take k)) := by
    have h := (stripCR_take_drop (c.take k) j).1
    rw [← htj] at h
    rw [← h]
    exact u8sum_take_le _ _
  have hkle : ¬ u8sum (stripCR (c.take k)) > u8sum (stripCR c) := by
    have := u8sum_take_le (stripCR c) (stripCR (c.take k)).length
    rw [(stripCR_take_drop c k).1] at this
    omega
  have hsj := splitAtByte_take (stripCR c) (stripCR (c.take j)).length
  have hsk := splitAtByte_take (stripCR c) (stripCR (c.take k)).length
  have hbj := isBoundary_take (stripCR c) (stripCR (c.take j)).length
  have hbk := isBoundary_take (stripCR c) (stripCR (c.take k)).length
  rw [(stripCR_take_drop c j).1, (stripCR_take_drop c j).2] at hsj
  rw [(stripCR_take_drop c k).1, (stripCR_take_drop c k).2] at hsk
  rw [(stripCR_take_drop c j).1] at hbj
  rw [(stripCR_take_drop c k).1] at hbk
  simp only [serverApply, applyChange, LineMap.fromRange, hpj, hpk, if_pos hle, changeFileContent,
    if_neg hkle, hbj, hbk, Bool.and_self, Bool.not_true, Bool.false_eq_true, if_false, hsj, hsk,
    clientApply]
  simp only [stripCR_append, stripCR_idem]

/-- any history of valid changes (ranged and full-text mixed; the line map is rebuilt after each,
as in `on_did_change`): the server's text equals the editor's text with carriage returns removed -/
theorem history_tracks (c : List Char) (es : List Edit) (hwf : wfCRLF c = true)
    (hlen : u8sum c < U32) (hv : ValidHistory c es) :
    serverRun (stripCR c) c es = .ok (stripCR (clientRun c es)) := by
  induction es generalizing c with
  | nil => rfl
  | cons e es ih =>
    obtain ⟨hve, hwf', hlen', hrest⟩ := hv
    have hstep : serverApply (stripCR c) c e = .ok (stripCR (clientApply c e)) := by
      cases e with
      | full ins => rfl
      | range j k ins =>
        obtain ⟨hjk, hj, hk⟩ := hve
        have := u8sum_stripCR_le c
        exact edit_tracks c j k ins hwf hjk hj hk (by omega)
    simp only [serverRun, hstep, clientRun]
    exact ih (clientApply c e) hwf' hlen' hrest

/-- non-vacuity: a CRLF document with a character outside the BMP, two edits -/
example : serverRun (stripCR "a💣\r\nb".toList) "a💣\r\nb".toList
    [.range 1 2 "ß\r\n".toList, .range 4 6 []] = .ok "aß\nb".toList := by decide

end Glas.Props.C13
