import Glas.Model.MarkCheck
import Glas.Gen.Parser
import Glas.Lemmas.MarkSound
import Glas.Lemmas.DslFuel
import Glas.Props.C02
import Glas.Props.C01
/-!
# C02 (and C01, C10) — the mark discipline: no node is left unfinished, no stale mark is used

`MarkOpened` / `MarkClosed` of `parser.rs` are raw indices into the event list and `start_node_before`
inserts an event, which moves every later one.  In the model (`Glas/Model/Dsl.lean`) the use of a mark
that no longer points at its own event is the outcome `markMisuse`, a node never finished is `leak`, a
value of the wrong shape handed back by a call is `badProg`; in Rust they are an unbalanced event list
(a panic inside rowan's builder, or a silently wrong tree).

`Glas.MarkCheck.mcheck` (`Glas/Model/MarkCheck.lean`) is an executable abstract interpreter (live marks
of the frame as a stack ordered by event position, each opened or closed); its soundness is proved once
for all programs (`mcheck_sound`), and the program regenerated from `parser.rs` is checked by kernel
evaluation (`glas_marks_checked`).  Together with `C02_safe` / `C02_terminates`:

* `C02_total`: for every token list the run of the generated parser, with fuel linear in the number of
  tokens, ends normally with every node finished — or in the parser's own `parser is stuck` guard (the
  recorded finding; witness in `C02Witness`).  Nothing else can happen.
* `C01_total`: for every text the model of `parse_module` returns a tree (and that tree is lossless,
  `C01_lossless`) — or the same guard fires.  The tree builder cannot fail.
-/
namespace Glas.Props.C02Marks
open Glas.Dsl Glas.MarkCheck Glas.Check Glas.Gen Glas.SyntaxCmd

/-- the generated parser passes the mark checker (kernel evaluation; includes the untrusted summary
inference `minfer`, whose result is validated by `mcheckWith`) -/
theorem glas_marks_checked : mcheck glasProg = true := by decide +kernel

/-- generic soundness: a program accepted by the mark checker never uses a stale or empty mark, never
leaves a node unfinished, never receives a value of the wrong shape from a call — on any token list,
with any amount of model fuel -/
theorem mcheck_sound (P : Prog) (h : mcheck P = true) (n : Nat) (toks : List Kind) :
    (∀ σ, runMain P n toks ≠ .panic .markMisuse σ) ∧ (∀ σ, runMain P n toks ≠ .panic .leak σ) ∧
    (∀ σ, runMain P n toks ≠ .panic .badProg σ) := by
  have := Glas.Lemmas.Mark.runMain_of_mcheckWith P (minfer P) h n toks
  refine ⟨fun σ heq => ?_, fun σ heq => ?_, fun σ heq => ?_⟩ <;>
    (rw [heq] at this; rcases this with h | h | h <;> cases h)

theorem C02_marks (n : Nat) (toks : List Kind) :
    (∀ σ, runMain glasProg n toks ≠ .panic .markMisuse σ) ∧ (∀ σ, runMain glasProg n toks ≠ .panic .leak σ) ∧
    (∀ σ, runMain glasProg n toks ≠ .panic .badProg σ) :=
  mcheck_sound glasProg glas_marks_checked n toks

/-- **C02 for the model, all parts together**: on every token list the parser, run with the linear fuel
of `C02_terminates`, ends normally with every node finished, or stops in its own look-ahead guard -/
theorem C02_total (toks : List Kind) :
    (∃ σ, runMain glasProg (bound glasProg toks.length) toks = .ok σ) ∨
    (∃ σ, runMain glasProg (bound glasProg toks.length) toks = .panic .stuck σ) := by
  have hsafe := Glas.Props.C02.C02_safe (bound glasProg toks.length) toks
  have hterm := Glas.Props.C02.C02_terminates toks
  have hmarks := C02_marks (bound glasProg toks.length) toks
  generalize runMain glasProg (bound glasProg toks.length) toks = o at hsafe hterm hmarks
  cases o with
  | ok σ => exact Or.inl ⟨σ, rfl⟩
  | oof => exact absurd rfl hterm
  | panic w σ =>
    cases w with
    | stuck => exact Or.inr ⟨σ, rfl⟩
    | bumpAtEof => exact absurd rfl (hsafe.1 σ)
    | assertFailed => exact absurd rfl (hsafe.2 σ)
    | markMisuse => exact absurd rfl (hmarks.1 σ)
    | leak => exact absurd rfl (hmarks.2.1 σ)
    | badProg => exact absurd rfl (hmarks.2.2 σ)

/-- **the outcome does not depend on the model fuel**: any amount of fuel from `bound` on gives the outcome of
`C02_total` (so the driver, which runs the model with a generous constant, computes *the* answer of the model) -/
theorem C02_result_stable (toks : List Kind) (n : Nat) (hn : bound glasProg toks.length ≤ n) :
    runMain glasProg n toks = runMain glasProg (bound glasProg toks.length) toks :=
  Glas.Lemmas.Dsl.runMain_fuel_mono glasProg _ n toks (Glas.Props.C02.C02_terminates toks) hn

/-- the parser's tokens of a text -/
def parserToks (s : List Char) : List Kind :=
  ((lexText s).filter (fun t => !parserTrivia t.1)).map (fun t => t.1)

theorem length_le_of_flatten {α} : ∀ (l : List (List α)), (∀ t ∈ l, t ≠ []) → l.length ≤ l.flatten.length
  | [], _ => Nat.le_refl _
  | t :: r, h => by
    have ht : t ≠ [] := h t List.mem_cons_self
    have hr := length_le_of_flatten r (fun x hx => h x (List.mem_cons_of_mem _ hx))
    have : 0 < t.length := List.length_pos_iff.mpr ht
    simp only [List.length_cons, List.flatten_cons, List.length_append]
    omega

/-- the parser sees at most as many tokens as the text has characters -/
theorem parserToks_le (s : List Char) : (parserToks s).length ≤ s.length := by
  obtain ⟨hflat, hne⟩ := Glas.Props.C01.lex_tiles glasRules lexErrorKind s
  have h1 : (parserToks s).length ≤ (lexText s).length := by
    unfold parserToks
    rw [List.length_map]
    exact List.length_filter_le _ _
  have h2 := length_le_of_flatten ((lexText s).map (fun t => t.2)) (by
    intro t ht
    obtain ⟨x, hx, rfl⟩ := List.mem_map.mp ht
    exact hne x hx)
  rw [List.length_map] at h2
  have h3 : ((lexText s).map (fun t => t.2)).flatten = s := hflat
  rw [h3] at h2
  omega

/-- the fuel the driver uses (`modelFuel`, the bound for the number of characters) is at least the bound for the
number of tokens … -/
theorem modelFuel_ge_bound (s : List Char) : bound glasProg (parserToks s).length ≤ modelFuel s := by
  have h := parserToks_le s
  show 2 + bodyBound glasProg + (parserToks s).length * tokCost (infer glasProg) glasProg +
      rankBound (infer glasProg) * bodyBound glasProg ≤ _
  unfold modelFuel fuelConsts
  simp only
  have := Nat.mul_le_mul_right (tokCost (infer glasProg) glasProg) h
  omega

/-- … hence **what the driver computes is the model's answer**: `parseModel` with the driver's fuel is `parseModel` with
the fuel of `C01_total` -/
theorem driver_fuel_canonical (s : List Char) :
    parseModel (modelFuel s) s = parseModel (bound glasProg (parserToks s).length) s := by
  have h := C02_result_stable (parserToks s) (modelFuel s) (modelFuel_ge_bound s)
  unfold parseModel
  unfold parserToks at h ⊢
  simp only
  rw [h]

/-- **C01/C02 for the whole model of `parse_module`**: for every text, with fuel linear in the number of
tokens, the model returns a tree whose leaves are the lexer's tokens (so `C01_lossless` applies), or the
parser's look-ahead guard fires; the tree builder never fails -/
theorem C01_total (s : List Char) :
    (∃ t σ, parseModel (bound glasProg (parserToks s).length) s = .ok (t, σ, lexText s) ∧ t.leaves = lexText s) ∨
    parseModel (bound glasProg (parserToks s).length) s = .error ("PANIC " ++ "stuck") := by
  rcases C02_total (parserToks s) with ⟨σ, hσ⟩ | ⟨σ, hσ⟩
  · left
    obtain ⟨f, k, hP, hroot⟩ := Glas.Props.C01.glas_rootStart
    obtain ⟨t, hb, hleaves⟩ := Glas.Props.C01.buildTree_lossless glasProg glasPolicy parserTrivia f k hP hroot
      Glas.Props.C01.glas_policyOK (bound glasProg (parserToks s).length) (lexText s) σ hσ
    refine ⟨t, σ, ?_, hleaves⟩
    unfold parseModel
    unfold parserToks at hσ ⊢
    simp only
    rw [hσ]
    simp only
    rw [hb]
  · right
    unfold parseModel
    unfold parserToks at hσ ⊢
    simp only
    rw [hσ]

/-! ## non-vacuity: the checker refuses programs that break the discipline -/

/-- a node that is never finished -/
example : mcheck { procs := [{ name := "m", nLocals := 0, nMarks := 1, body := .open 0 }], tables := [],
                   fuel := 8, eofKind := 0, errorKind := 1, main := 0 } = false := by decide +kernel

/-- … finished on one path only -/
example : mcheck { procs := [{ name := "m", nLocals := 0, nMarks := 1,
                               body := .seq (.open 0) (.ite .eof (.close 0 5 none) .skip) }], tables := [],
                   fuel := 8, eofKind := 0, errorKind := 1, main := 0 } = false := by decide +kernel

/-- a mark finished twice -/
example : mcheck { procs := [{ name := "m", nLocals := 0, nMarks := 1,
                               body := .seq (.open 0) (.seq (.close 0 5 none) (.close 0 5 none)) }], tables := [],
                   fuel := 8, eofKind := 0, errorKind := 1, main := 0 } = false := by decide +kernel

/-- `start_node_before` on a closed mark while a *later* node is still open (its index goes stale) -/
def staleProg : Prog :=
  { procs := [{ name := "m", nLocals := 0, nMarks := 4,
                body := .seq (.open 0) (.seq (.close 0 5 (some 1)) (.seq (.open 2)
                  (.seq (.openBefore 3 1) (.seq (.close 3 6 none) (.close 2 7 none))))) }],
    tables := [], fuel := 8, eofKind := 0, errorKind := 1, main := 0 }

example : mcheck staleProg = false := by decide +kernel

/-- … and the run of that program really ends in `markMisuse` -/
example : (match runMain staleProg 100 [] with | .panic .markMisuse _ => true | _ => false) = true := by
  decide +kernel

/-- a loop that opens a node per iteration into the same slot without finishing the previous one -/
example : mcheck { procs := [{ name := "m", nLocals := 0, nMarks := 1,
                               body := .seq (.loop (.ite .eof .brk (.seq (.open 0) .bump))) (.close 0 5 none) }],
                   tables := [], fuel := 8, eofKind := 0, errorKind := 1, main := 0 } = false := by decide +kernel

/-- the wrapped-operand shape of `expr_bp` is accepted: close, then repeatedly wrap the closed node -/
example : mcheck { procs := [{ name := "m", nLocals := 0, nMarks := 2,
                               body := .seq (.open 0) (.seq (.close 0 5 (some 0))
                                 (.loop (.ite .eof .brk (.seq (.openBefore 1 0) (.seq .bump (.close 1 6 (some 0))))))) }],
                   tables := [], fuel := 8, eofKind := 0, errorKind := 1, main := 0 } = true := by decide +kernel

/-- an opened mark handed to a callee that finishes it is accepted; handed to one that does not, refused -/
example : mcheck { procs := [{ name := "m", nLocals := 0, nMarks := 1, body := .seq (.open 0) (.call 1 [] [0] .none) },
                             { name := "f", nLocals := 0, nMarks := 1, body := .close 0 5 none }],
                   tables := [], fuel := 8, eofKind := 0, errorKind := 1, main := 0 } = true := by decide +kernel

example : mcheck { procs := [{ name := "m", nLocals := 0, nMarks := 1, body := .seq (.open 0) (.call 1 [] [0] .none) },
                             { name := "f", nLocals := 0, nMarks := 1, body := .skip }],
                   tables := [], fuel := 8, eofKind := 0, errorKind := 1, main := 0 } = false := by decide +kernel

end Glas.Props.C02Marks
