import Glas.Gen.Parser
/-!
# C04 — well-formed programs parse with Gleam's structure: the binding-power tables

`T_infixL`, `T_infixR`, `T_prefixR`, `S_INFIX_OPS`, `S_PREFIX_OPS` are generated from
`SyntaxKind::{infix_bp, prefix_bp}` on every run; these are the conditions under which the Pratt
loop of `expr_bp` groups operators the way Gleam's grammar prescribes.
-/
namespace Glas.Props.C04
open Glas.Gen

def lbp (k : Nat) : Nat := (T_infixL[k]?).getD 0
def rbp (k : Nat) : Nat := (T_infixR[k]?).getD 0
def pbp (k : Nat) : Nat := (T_prefixR[k]?).getD 0

/-- Gleam's binary operators by precedence level, loosest first -/
def gleamLevels : List (List Nat) :=
  [[K_VBAR_VBAR], [K_AMPER_AMPER], [K_EQ_EQ, K_NOT_EQ],
   [K_LESS, K_LESS_EQ, K_LESS_DOT, K_LESS_EQ_DOT, K_GREATER, K_GREATER_EQ, K_GREATER_DOT, K_GREATER_EQ_DOT],
   [K_LT_GT], [K_VBAR_GT], [K_PLUS, K_MINUS, K_PLUS_DOT, K_MINUS_DOT],
   [K_STAR, K_SLASH, K_STAR_DOT, K_SLASH_DOT, K_PERCENT]]

def allOps : List Nat := gleamLevels.flatten
def kinds : List Nat := List.range kindNames.length

/-- the infix operators are exactly Gleam's binary operators -/
theorem infix_ops_exact : kinds.all (fun k => S_INFIX_OPS.testBit k == allOps.contains k) = true := by
  decide +kernel

/-- the prefix operators are exactly `!` and `-` -/
theorem prefix_ops_exact : kinds.all (fun k => S_PREFIX_OPS.testBit k == [K_BANG, K_MINUS].contains k) = true := by
  decide +kernel

/-- every binary operator is left-associative: its right binding power exceeds its left one -/
theorem left_assoc : allOps.all (fun k => lbp k < rbp k) = true := by decide +kernel

/-- operators of one level share their binding powers -/
theorem level_uniform :
    gleamLevels.all (fun lv => lv.all (fun k => lv.all (fun k' => lbp k == lbp k' && rbp k == rbp k'))) = true := by
  decide +kernel

def strictlyIncreasing : List Nat → Bool
  | a :: b :: r => a < b && strictlyIncreasing (b :: r)
  | _ => true

/-- levels are ordered as in Gleam (`||` loosest … multiplicative tightest), and a level's right
power stays below the next level's left power, so a tighter operator on the right is absorbed -/
theorem levels_ordered :
    strictlyIncreasing (gleamLevels.flatMap (fun lv => match lv with | k :: _ => [lbp k, rbp k] | [] => [])) = true := by
  decide +kernel

/-- prefix operators bind tighter than every binary operator -/
theorem prefix_tighter : [K_BANG, K_MINUS].all (fun p => allOps.all (fun k => rbp k < pbp p && lbp k < pbp p)) = true := by
  decide +kernel

/-- the "non-associative chain" error of `expr_bp` (`lbp == min_bp`) can never fire on a well-formed
program: no left power equals 0, a right power or a prefix power -/
theorem no_spurious_noassoc :
    allOps.all (fun k => lbp k != 0 && allOps.all (fun k' => lbp k != rbp k') &&
      [K_BANG, K_MINUS].all (fun p => lbp k != pbp p)) = true := by
  decide +kernel

end Glas.Props.C04
