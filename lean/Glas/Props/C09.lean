import Glas.Model.TySpec
import Glas.Model.Infer
import Glas.Lemmas.TySpec
/-!
# C09 (part 2) — an assignment of types accepted by the checker is a typing under Gleam's rules

For every program of the core, every assignment of schemes to functions and of types to local
binders and every amount of fuel: if `checkFn` accepts a function, its body is typed by the
declarative rules `HasType` with exactly the assigned types.  The checker is run on every run on
the types glas displays and on the types the generator expects.
-/
namespace Glas.Props.C09
open Glas.TySpec

theorem beq_iff (a b : Ty) : Ty.beq a b = true ↔ a = b :=
  Ty.beq_iff a b

theorem checkPat_sound (D : Decls) (fuel : Nat) (p : Pat) (t : Ty) (h : checkPat D fuel p t = true) : PatOk D p t :=
  checkPat_sound' D fuel p t h

theorem synth_sound (D : Decls) (fuel : Nat) (e : Expr) (t : Ty) (h : synth D fuel e = some t) : HasType D e t :=
  (soundAt D fuel).synth e t h

theorem check_sound (D : Decls) (fuel : Nat) (e : Expr) (t : Ty) (h : check D fuel e t = true) : HasType D e t :=
  (soundAt D fuel).check e t h

/-- **soundness of the validator** -/
theorem checkFn_sound (D : Decls) (fuel : Nat) (f : FnDef) (h : checkFn D fuel f = true) : FnOk D f := by
  unfold checkFn at h
  split at h
  · rename_i sig hs
    split at h
    · rename_i ps r hty
      split at h
      · rename_i us hm
        simp only [Bool.and_eq_true] at h
        obtain ⟨⟨⟨hb, ha⟩, hr⟩, hc⟩ := h
        have hm' := mapM_option _ _ _ hm
        have hu := (Ty.beqs_iff _ _).1 hb
        subst hu
        refine ⟨sig, us, r, hs, hty, hm'.1.symm, fun i p t hp ht => hm'.2 i p t hp ht,
          annOk_sound us f.paramAnn ha, ?_, check_sound D fuel _ _ hc⟩
        intro a hra
        rw [hra] at hr
        exact (Ty.beq_iff _ _).1 hr
      · cases h
    · cases h
  · cases h

/-- the rules determine the type of an expression whose instantiations are fixed: literals,
locals, operators, tuples of such -/
theorem hasType_unique_ground (D : Decls) (e : Expr) (t u : Ty) (hg : ∀ n, e ≠ .fnref n) :
    (match e with | .int | .float | .str | .var _ => True | _ => False) →
    HasType D e t → HasType D e u → t = u := by
  intro hm h1 h2
  cases e with
  | int => cases h1; cases h2; rfl
  | float => cases h1; cases h2; rfl
  | str => cases h1; cases h2; rfl
  | var i =>
    cases h1 with
    | var _ _ ha =>
      cases h2 with
      | var _ _ hb => rw [ha] at hb; exact Option.some.inj hb
  | _ => exact hm.elim

/-! ## the checker accepts ordinary programs (non-vacuity) -/

def exampleDecls : Decls := { adts := [], fns := [⟨"f", [none], .fn [.int] .int⟩], locals := [(0, .int)] }
def exampleFn : FnDef := ⟨"f", [0], [some .int], some .int, .binop .intArith (.var 0) .int⟩

example : checkFn exampleDecls 10 exampleFn = true := by decide

example : FnOk exampleDecls exampleFn := checkFn_sound exampleDecls 10 exampleFn (by decide)

/-- a call of a polymorphic function: `fn g(x: Int) -> Int { id(x) }` with `id : fn(t) -> t`.
(`substTy` is compiled by well-founded recursion, so `decide` cannot evaluate calls; the
evaluation is replayed step by step.) -/
def exampleDecls2 : Decls := {
  adts := [],
  fns := [⟨"id", [none], .fn [.gen "t"] (.gen "t")⟩, ⟨"g", [none], .fn [.int] .int⟩],
  locals := [(0, .int)] }
def exampleFn2 : FnDef := ⟨"g", [0], [some .int], none, .call (.fnref "id") [(none, .var 0)]⟩

theorem example2_accepted : checkFn exampleDecls2 3 exampleFn2 = true := by
  have h1 : exampleDecls2.fn? "g" = some ⟨"g", [none], .fn [.int] .int⟩ := by rfl
  have h4 : synth exampleDecls2 2 (.var 0) = some .int := by rfl
  have h5 : matchTy 64 (.gen "t") .int [] = some [("t", .int)] := by rfl
  have h5' : matchTy 64 (.gen "t") .int [("t", .int)] = some [("t", .int)] := by rfl
  have h6 : substTy [("t", .int)] (.gen "t") = .int := by simp [substTy, List.lookup]
  have h7 : check exampleDecls2 2 (.var 0) .int = true := by rfl
  have h8 : orderArgs (labelsOf exampleDecls2 (.fnref "id")) 1 [(none, Expr.var 0)] = some [.var 0] := by rfl
  have h9 : calleeScheme exampleDecls2 2 (.fnref "id") = some ([.gen "t"], .gen "t", true) := by rfl
  have h10 : [0].mapM exampleDecls2.local? = some [.int] := by rfl
  have h11 : check exampleDecls2 3 (.call (.fnref "id") [(none, .var 0)]) .int = true := by
    unfold check
    simp only [h9, List.length_cons, List.length_nil, h8]
    simp [h4, h5, h5', h6, h7, Ty.beq]
  unfold checkFn
  simp only [exampleFn2, h1, h10]
  simp [h11, Ty.beqs, Ty.beq, annOk]

example : FnOk exampleDecls2 exampleFn2 := checkFn_sound _ _ _ example2_accepted

end Glas.Props.C09

/-! ## The property at full strength, and what is proved of it

`Glas.Infer.inferProgram` is the transliteration of the inference engine (`infer.rs`), tied to the
real engine on every run by comparing its result with the types glas displays. -/

namespace Glas.Props.C09
open Glas.TySpec Glas.Infer

/-- the assignment the engine computes, as declarations for the checker -/
def declsOf (adts : List Adt) (groups : List (List (FnDef × List (Option String)))) : Decls :=
  let r := inferProgram adts groups
  { adts := adts
    fns := groups.flatten.filterMap (fun f => (r.fnTys.lookup f.1.name).map (fun t => { name := f.1.name, labels := f.2, ty := t }))
    locals := r.locals }

/-- **C09, full strength (NOT proved)**: whenever a program can be typed at all with the engine's
own binder types being determined, the engine's assignment types every function under Gleam's
rules.  What is proved is the certificate form below; the gap is the soundness of unification-based
inference itself (`unify`, instantiation, group order), which is only validated per program. -/
def C09_full : Prop :=
  ∀ adts groups, (∃ D : Decls, D.adts = adts ∧ ∀ f ∈ groups.flatten, FnOk D f.1) →
    ∀ f ∈ groups.flatten, FnOk (declsOf adts groups) f.1

/-- **C09, certificate form (proved)**: for every program, if the checker accepts the engine's
assignment — which the driver evaluates for every generated program on every run — then that
assignment types every function under Gleam's rules. -/
theorem C09_partial (adts : List Adt) (groups : List (List (FnDef × List (Option String)))) (fuel : Nat)
    (h : ∀ f ∈ groups.flatten, checkFn (declsOf adts groups) fuel f.1 = true) :
    ∀ f ∈ groups.flatten, FnOk (declsOf adts groups) f.1 :=
  fun f hf => checkFn_sound _ fuel f.1 (h f hf)

end Glas.Props.C09
