import Glas.Model.Search
/-! Helper lemmas for C06: `eraseDups` yields a duplicate-free list; membership in `references`. -/
namespace Glas.Search

theorem nodup_eraseDups_aux {α : Type} [BEq α] [LawfulBEq α] :
    ∀ (n : Nat) (l : List α), l.length ≤ n → l.eraseDups.Nodup := by
  intro n
  induction n with
  | zero =>
    intro l hl
    have : l = [] := List.eq_nil_of_length_eq_zero (by omega)
    subst this; simp
  | succ n ih =>
    intro l hl
    cases l with
    | nil => simp
    | cons a as =>
      rw [List.eraseDups_cons, List.nodup_cons]
      constructor
      · intro hmem
        rw [List.mem_eraseDups, List.mem_filter] at hmem
        simp at hmem
      · apply ih
        have := List.length_filter_le (fun b => !b == a) as
        simp only [List.length_cons] at hl
        omega

theorem nodup_eraseDups {α : Type} [BEq α] [LawfulBEq α] (l : List α) : l.eraseDups.Nodup :=
  nodup_eraseDups_aux l.length l (Nat.le_refl _)

theorem hit_iff (d : DefInfo) (n : String) (t : Tok) :
    hit d n t = true ↔ t.file ∈ d.scope ∧ t.text = n ∧ t.castable = true ∧ t.cls = some d.id := by
  simp [hit, and_assoc]

theorem mem_references (toks : List Tok) (d : DefInfo) (r : Ref) :
    r ∈ references toks d ↔
      ∃ n t, d.searchName = some n ∧ t ∈ toks ∧ r = (t.file, t.start, t.stop) ∧
        t.file ∈ d.scope ∧ t.text = n ∧ t.castable = true ∧ t.cls = some d.id := by
  unfold references
  cases hn : d.searchName with
  | none => simp
  | some n =>
    simp only [List.mem_eraseDups, List.mem_map, List.mem_filter, hit_iff, Option.some.injEq]
    constructor
    · rintro ⟨t, ⟨ht, h⟩, rfl⟩
      exact ⟨n, t, rfl, ht, rfl, h⟩
    · rintro ⟨n', t, rfl, ht, rfl, h⟩
      exact ⟨t, ⟨ht, h⟩, rfl⟩

end Glas.Search
