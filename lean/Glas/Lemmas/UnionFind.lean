import Glas.Model.UnionFind
/-!
# Lemmas about the union-find model (M-uf)

* accessors of modified tables (`modifyAt`, `setParent`, `setVal`, `bumpRank`, `push`)
* `RootOf t x r`: fuel-free "the class root of `x` is `r`", deterministic, and computed by
  `root t x (fuelOf t)` on well-formed tables (ranks strictly increase along parent pointers and are
  bounded by `maxRank`)
* `Compress t t'`: `t'` is `t` with some nodes re-pointed directly at their root (what `find` does);
  keeps `WF` and every root
* `Link t t' l w`: `t'` is `t` with the root `l` hung under the root `w` (what `unify` does); keeps
  `WF`, the new root of a node is `w` if its old root was `l` and unchanged otherwise
-/
namespace Glas.UF

variable {α : Type}

/-! ### accessors of modified tables -/

theorem modifyAt_length (f : Node α → Node α) (t : Table α) (i : Nat) :
    (modifyAt f t i).length = t.length := by
  induction t generalizing i with
  | nil => rfl
  | cons n ns ih => cases i <;> simp [modifyAt, ih]

theorem modifyAt_getElem? (f : Node α → Node α) (t : Table α) (i j : Nat) :
    (modifyAt f t i)[j]? = if i = j then t[j]?.map f else t[j]? := by
  induction t generalizing i j with
  | nil => simp [modifyAt]
  | cons n ns ih =>
    cases i <;> cases j <;> simp [modifyAt, ih]

@[simp] theorem setParent_length (t : Table α) (x p : Nat) : (setParent t x p).length = t.length :=
  modifyAt_length _ _ _
@[simp] theorem setVal_length (t : Table α) (x : Nat) (v : Option α) : (setVal t x v).length = t.length :=
  modifyAt_length _ _ _
@[simp] theorem bumpRank_length (t : Table α) (x : Nat) : (bumpRank t x).length = t.length :=
  modifyAt_length _ _ _

theorem parentOf_ge (t : Table α) (x : Nat) (h : t.length ≤ x) : parentOf t x = x := by
  simp [parentOf, List.getElem?_eq_none h]

theorem lt_of_parentOf_ne (t : Table α) (x : Nat) (h : parentOf t x ≠ x) : x < t.length := by
  rcases Nat.lt_or_ge x t.length with h' | h'
  · exact h'
  · exact absurd (parentOf_ge t x h') h

theorem parentOf_setParent (t : Table α) (x p y : Nat) :
    parentOf (setParent t x p) y = if x = y ∧ y < t.length then p else parentOf t y := by
  unfold parentOf setParent
  rw [modifyAt_getElem?]
  by_cases hxy : x = y
  · subst hxy
    rcases Nat.lt_or_ge x t.length with h | h
    · simp [h]
    · simp [Nat.not_lt.mpr h]
  · simp [hxy]

@[simp] theorem rankOf_setParent (t : Table α) (x p y : Nat) :
    rankOf (setParent t x p) y = rankOf t y := by
  unfold rankOf setParent
  rw [modifyAt_getElem?]
  split
  · cases t[y]? <;> simp
  · rfl

@[simp] theorem valOf_setParent (t : Table α) (x p y : Nat) :
    valOf (setParent t x p) y = valOf t y := by
  unfold valOf setParent
  rw [modifyAt_getElem?]
  split
  · cases t[y]? <;> simp
  · rfl

@[simp] theorem parentOf_setVal (t : Table α) (x : Nat) (v : Option α) (y : Nat) :
    parentOf (setVal t x v) y = parentOf t y := by
  unfold parentOf setVal
  rw [modifyAt_getElem?]
  split
  · cases t[y]? <;> simp
  · rfl

@[simp] theorem rankOf_setVal (t : Table α) (x : Nat) (v : Option α) (y : Nat) :
    rankOf (setVal t x v) y = rankOf t y := by
  unfold rankOf setVal
  rw [modifyAt_getElem?]
  split
  · cases t[y]? <;> simp
  · rfl

theorem valOf_setVal (t : Table α) (x : Nat) (v : Option α) (y : Nat) :
    valOf (setVal t x v) y = if x = y ∧ y < t.length then v else valOf t y := by
  unfold valOf setVal
  rw [modifyAt_getElem?]
  by_cases hxy : x = y
  · subst hxy
    rcases Nat.lt_or_ge x t.length with h | h
    · simp [h]
    · simp [Nat.not_lt.mpr h]
  · simp [hxy]

@[simp] theorem parentOf_bumpRank (t : Table α) (x y : Nat) :
    parentOf (bumpRank t x) y = parentOf t y := by
  unfold parentOf bumpRank
  rw [modifyAt_getElem?]
  split
  · cases t[y]? <;> simp
  · rfl

@[simp] theorem valOf_bumpRank (t : Table α) (x y : Nat) :
    valOf (bumpRank t x) y = valOf t y := by
  unfold valOf bumpRank
  rw [modifyAt_getElem?]
  split
  · cases t[y]? <;> simp
  · rfl

theorem rankOf_bumpRank (t : Table α) (x y : Nat) :
    rankOf (bumpRank t x) y = if x = y ∧ y < t.length then rankOf t y + 1 else rankOf t y := by
  unfold rankOf bumpRank
  rw [modifyAt_getElem?]
  by_cases hxy : x = y
  · subst hxy
    rcases Nat.lt_or_ge x t.length with h | h
    · simp [h]
    · simp [Nat.not_lt.mpr h]
  · simp [hxy]

/-! ### `push` -/

theorem parentOf_push (t : Table α) (v : α) (y : Nat) :
    parentOf (push t v).1 y = parentOf t y := by
  unfold parentOf push
  rcases Nat.lt_trichotomy y t.length with h | h | h
  · simp [List.getElem?_append_left h]
  · subst h; simp
  · have h1 : (t ++ [({ val := some v, parent := t.length, rank := 0 } : Node α)]).length ≤ y := by
      simp; omega
    simp [List.getElem?_eq_none h1, List.getElem?_eq_none (Nat.le_of_lt h)]

theorem rankOf_push (t : Table α) (v : α) (y : Nat) :
    rankOf (push t v).1 y = rankOf t y := by
  unfold rankOf push
  rcases Nat.lt_trichotomy y t.length with h | h | h
  · simp [List.getElem?_append_left h]
  · subst h; simp
  · have h1 : (t ++ [({ val := some v, parent := t.length, rank := 0 } : Node α)]).length ≤ y := by
      simp; omega
    simp [List.getElem?_eq_none h1, List.getElem?_eq_none (Nat.le_of_lt h)]

theorem valOf_push (t : Table α) (v : α) (y : Nat) :
    valOf (push t v).1 y = if y = t.length then some v else valOf t y := by
  unfold valOf push
  rcases Nat.lt_trichotomy y t.length with h | h | h
  · simp [List.getElem?_append_left h, Nat.ne_of_lt h]
  · subst h; simp
  · have h1 : (t ++ [({ val := some v, parent := t.length, rank := 0 } : Node α)]).length ≤ y := by
      simp; omega
    simp [List.getElem?_eq_none h1, List.getElem?_eq_none (Nat.le_of_lt h), Nat.ne_of_gt h]

/-! ### `root` -/

theorem root_succ (t : Table α) (x n : Nat) :
    root t x (n + 1) = if parentOf t x = x then x else root t (parentOf t x) n := by
  simp [root]

theorem root_of_isRoot (t : Table α) (x n : Nat) (h : parentOf t x = x) : root t x n = x := by
  cases n <;> simp [root, h]

/-- fuel-free: `r` is the root of the class of `x` -/
inductive RootOf (t : Table α) : Nat → Nat → Prop
  | self {r : Nat} : parentOf t r = r → RootOf t r r
  | step {x r : Nat} : parentOf t x ≠ x → RootOf t (parentOf t x) r → RootOf t x r

theorem RootOf.isRoot {t : Table α} {x r : Nat} (h : RootOf t x r) : parentOf t r = r := by
  induction h with
  | self h => exact h
  | step _ _ ih => exact ih

theorem RootOf.unique {t : Table α} {x r r' : Nat} (h : RootOf t x r) (h' : RootOf t x r') : r = r' := by
  induction h with
  | self h =>
    cases h' with
    | self _ => rfl
    | step hne _ => exact absurd h hne
  | step hne _ ih =>
    cases h' with
    | self h => exact absurd h hne
    | step _ h2 => exact ih h2

theorem RootOf.of_root {t : Table α} (n : Nat) (x : Nat)
    (h : parentOf t (root t x n) = root t x n) : RootOf t x (root t x n) := by
  induction n generalizing x with
  | zero => exact RootOf.self h
  | succ n ih =>
    rw [root_succ] at h ⊢
    split
    · next hp => exact RootOf.self hp
    · next hp =>
      rw [if_neg hp] at h
      exact RootOf.step hp (ih _ h)

/-- a root of `x` under one fuel is the root under any fuel that reaches a root -/
theorem RootOf.root_eq {t : Table α} {x r : Nat} (h : RootOf t x r) (n : Nat)
    (hn : parentOf t (root t x n) = root t x n) : root t x n = r :=
  (RootOf.of_root n x hn).unique h

/-! ### ranks bound the path length -/

theorem foldl_max_ge_init (t : Table α) (a : Nat) : a ≤ t.foldl (fun m n => max m n.rank) a := by
  induction t generalizing a with
  | nil => exact Nat.le_refl _
  | cons n ns ih => exact Nat.le_trans (Nat.le_max_left _ _) (ih _)

theorem foldl_max_ge_mem (t : Table α) (a : Nat) (n : Node α) (h : n ∈ t) :
    n.rank ≤ t.foldl (fun m n => max m n.rank) a := by
  induction t generalizing a with
  | nil => cases h
  | cons m ms ih =>
    rcases List.mem_cons.mp h with h | h
    · subst h
      exact Nat.le_trans (Nat.le_max_right _ _) (foldl_max_ge_init ms _)
    · exact ih _ h

theorem rankOf_le_maxRank (t : Table α) (i : Nat) : rankOf t i ≤ maxRank t := by
  unfold rankOf maxRank
  rcases Nat.lt_or_ge i t.length with h | h
  · simp [List.getElem?_eq_getElem h]
    exact foldl_max_ge_mem t 0 t[i] (List.getElem_mem h)
  · simp [List.getElem?_eq_none h]

theorem root_isRoot_of_fuel {t : Table α} (h : WF t) (n : Nat) (x : Nat)
    (hn : maxRank t ≤ rankOf t x + n) : parentOf t (root t x n) = root t x n := by
  induction n generalizing x with
  | zero =>
    show parentOf t x = x
    rcases Nat.lt_or_ge x t.length with hx | hx
    · by_cases hp : parentOf t x = x
      · exact hp
      · have := (h x hx).2.1 hp
        have := rankOf_le_maxRank t (parentOf t x)
        omega
    · exact parentOf_ge t x hx
  | succ n ih =>
    rw [root_succ]
    split
    · next hp => exact hp
    · next hp =>
      have hx := lt_of_parentOf_ne t x hp
      have := (h x hx).2.1 hp
      exact ih _ (by omega)

theorem root_fuelOf_isRoot {t : Table α} (h : WF t) (x : Nat) :
    parentOf t (root t x (fuelOf t)) = root t x (fuelOf t) :=
  root_isRoot_of_fuel h _ x (by unfold fuelOf; omega)

theorem RootOf.of_fuelOf {t : Table α} (h : WF t) (x : Nat) : RootOf t x (root t x (fuelOf t)) :=
  RootOf.of_root _ x (root_fuelOf_isRoot h x)

theorem root_fuelOf_eq_iff {t : Table α} (h : WF t) (x r : Nat) :
    root t x (fuelOf t) = r ↔ RootOf t x r :=
  ⟨fun e => e ▸ RootOf.of_fuelOf h x, fun hr => (RootOf.of_fuelOf h x).unique hr⟩

/-- along the path to the root: stays in range, rank grows (strictly if the node is not the root) -/
theorem RootOf.bounds {t : Table α} (h : WF t) {x r : Nat} (hr : RootOf t x r) (hx : x < t.length) :
    r < t.length ∧ rankOf t x ≤ rankOf t r ∧ (x ≠ r → rankOf t x < rankOf t r) := by
  induction hr with
  | self _ => exact ⟨hx, Nat.le_refl _, fun h => absurd rfl h⟩
  | step hne _ ih =>
    have hw := h _ hx
    have := ih hw.1
    have := hw.2.1 hne
    exact ⟨by omega, by omega, fun _ => by omega⟩

/-! ### path compression -/

theorem find_succ (t : Table α) (x n : Nat) :
    find t x (n + 1) = if parentOf t x = x then (t, x)
      else (setParent (find t (parentOf t x) n).1 x (find t (parentOf t x) n).2,
            (find t (parentOf t x) n).2) := by
  simp [find]

/-- `t'` is `t` with some non-root nodes re-pointed directly at their root -/
structure Compress (t t' : Table α) : Prop where
  length_eq : t'.length = t.length
  rank_eq : ∀ y, rankOf t' y = rankOf t y
  val_eq : ∀ y, valOf t' y = valOf t y
  parent : ∀ y, parentOf t' y = parentOf t y ∨ (parentOf t y ≠ y ∧ RootOf t y (parentOf t' y))

theorem Compress.refl (t : Table α) : Compress t t :=
  ⟨rfl, fun _ => rfl, fun _ => rfl, fun _ => Or.inl rfl⟩

theorem find_compress (t : Table α) (n x : Nat) (h : parentOf t (root t x n) = root t x n) :
    (find t x n).2 = root t x n ∧ Compress t (find t x n).1 := by
  induction n generalizing x with
  | zero => exact ⟨rfl, Compress.refl t⟩
  | succ n ih =>
    rw [root_succ] at h ⊢
    rw [find_succ]
    by_cases hp : parentOf t x = x
    · rw [if_pos hp, if_pos hp]; exact ⟨rfl, Compress.refl t⟩
    · rw [if_neg hp] at h ⊢
      rw [if_neg hp]
      obtain ⟨hr, hc⟩ := ih _ h
      refine ⟨hr, ?_, ?_, ?_, ?_⟩
      · simp [hc.length_eq]
      · intro y; simp [hc.rank_eq]
      · intro y; simp [hc.val_eq]
      · intro y
        rw [parentOf_setParent]
        split
        · next hxy =>
          obtain ⟨rfl, _⟩ := hxy
          exact Or.inr ⟨hp, hr ▸ RootOf.step hp (RootOf.of_root n _ h)⟩
        · exact hc.parent y

theorem Compress.rootOf {t t' : Table α} (hc : Compress t t') {y r : Nat} (h : RootOf t y r) :
    RootOf t' y r := by
  induction h with
  | self hr =>
    rename_i r
    rcases hc.parent r with e | ⟨hne, _⟩
    · exact RootOf.self (e.trans hr)
    · exact absurd hr hne
  | step hne h1 ih =>
    rename_i x r
    rcases hc.parent x with e | ⟨_, hq⟩
    · exact RootOf.step (by rw [e]; exact hne) (by rw [e]; exact ih)
    · have hqr : parentOf t' x = r := hq.unique (RootOf.step hne h1)
      have hr : parentOf t r = r := h1.isRoot
      have hxr : r ≠ x := fun e => hne (e ▸ hr)
      exact RootOf.step (by rw [hqr]; exact hxr) (by rw [hqr]; exact RootOf.self ih.isRoot)

theorem Compress.wf {t t' : Table α} (hc : Compress t t') (h : WF t) : WF t' := by
  intro i hi
  rw [hc.length_eq] at hi ⊢
  have hw := h i hi
  rw [hc.rank_eq, hc.val_eq]
  rcases hc.parent i with e | ⟨hne, hq⟩
  · rw [e, hc.rank_eq]; exact hw
  · have hb := hq.bounds h hi
    rw [hc.rank_eq]
    refine ⟨hb.1, fun hn => hb.2.2 (fun e => hn e.symm), fun he => ?_⟩
    -- `i` would be its own root in `t`
    have : parentOf t i = i := by
      have := hq.isRoot
      rw [he] at this
      exact this
    exact absurd this hne

theorem find_fuelOf {t : Table α} (h : WF t) (x : Nat) :
    (find t x (fuelOf t)).2 = root t x (fuelOf t) ∧ Compress t (find t x (fuelOf t)).1 :=
  find_compress t _ x (root_fuelOf_isRoot h x)

/-- compression keeps the computed roots -/
theorem Compress.root_fuelOf {t t' : Table α} (hc : Compress t t') (h : WF t) (y : Nat) :
    root t' y (fuelOf t') = root t y (fuelOf t) :=
  (root_fuelOf_eq_iff (hc.wf h) y _).2 (hc.rootOf (RootOf.of_fuelOf h y))

theorem find_spec' (t : Table α) (x : Nat) (h : WF t) (hx : x < t.length) :
    let r := find t x (fuelOf t)
    r.2 = root t x (fuelOf t) ∧ parentOf r.1 r.2 = r.2 ∧ r.2 < t.length ∧ WF r.1 ∧
    r.1.length = t.length ∧
    (∀ y, y < t.length → root r.1 y (fuelOf r.1) = root t y (fuelOf t)) ∧
    (∀ y, y < t.length → parentOf t y = y → valOf r.1 y = valOf t y) := by
  intro r
  obtain ⟨hr, hc⟩ := find_fuelOf h x
  have hR : RootOf t x r.2 := hr ▸ RootOf.of_fuelOf h x
  exact ⟨hr, (hc.rootOf hR).isRoot, (hR.bounds h hx).1, hc.wf h, hc.length_eq,
    fun y _ => hc.root_fuelOf h y, fun y _ _ => hc.val_eq y⟩

/-! ### `push` -/

theorem push_wf {t : Table α} (h : WF t) (v : α) : WF (push t v).1 := by
  intro i hi
  have hlen : (push t v).1.length = t.length + 1 := by simp [push]
  rw [hlen] at hi ⊢
  rw [parentOf_push, rankOf_push, rankOf_push, valOf_push]
  rcases Nat.lt_or_ge i t.length with hlt | hge
  · have hw := h i hlt
    rw [if_neg (Nat.ne_of_lt hlt)]
    exact ⟨Nat.lt_succ_of_lt hw.1, hw.2.1, hw.2.2⟩
  · have hi' : i = t.length := by omega
    subst hi'
    rw [parentOf_ge t _ (Nat.le_refl _)]
    simp

theorem push_rootOf {t : Table α} (v : α) {y r : Nat} (h : RootOf t y r) : RootOf (push t v).1 y r := by
  induction h with
  | self hr => exact RootOf.self (by rw [parentOf_push]; exact hr)
  | step hne _ ih =>
    exact RootOf.step (by rw [parentOf_push]; exact hne) (by rw [parentOf_push]; exact ih)

theorem push_spec' (t : Table α) (v : α) (h : WF t) :
    let r := push t v
    WF r.1 ∧ r.2 = t.length ∧ r.1.length = t.length + 1 ∧ root r.1 r.2 (fuelOf r.1) = r.2 ∧
    valOf r.1 r.2 = some v ∧
    (∀ y, y < t.length → root r.1 y (fuelOf r.1) = root t y (fuelOf t) ∧ valOf r.1 y = valOf t y) := by
  intro r
  have hw : WF r.1 := push_wf h v
  refine ⟨hw, rfl, by simp [r, push], ?_, ?_, ?_⟩
  · apply root_of_isRoot
    show parentOf (push t v).1 t.length = t.length
    rw [parentOf_push]; exact parentOf_ge t _ (Nat.le_refl _)
  · show valOf (push t v).1 t.length = some v
    rw [valOf_push]; simp
  · intro y hy
    refine ⟨(root_fuelOf_eq_iff hw y _).2 (push_rootOf v (RootOf.of_fuelOf h y)), ?_⟩
    show valOf (push t v).1 y = valOf t y
    rw [valOf_push, if_neg (Nat.ne_of_lt hy)]

/-! ### linking two roots -/

/-- `t'` is `t` with the root `l` hung under the root `w` (rank of `w` possibly bumped, values of
`l` and `w` possibly changed, `w` carrying a value) -/
structure Link (t t' : Table α) (l w : Nat) : Prop where
  length_eq : t'.length = t.length
  parent : ∀ y, parentOf t' y = if y = l then w else parentOf t y
  rank_lt : rankOf t' l < rankOf t' w
  rank_eq : ∀ y, y ≠ w → rankOf t' y = rankOf t y
  rank_le : rankOf t w ≤ rankOf t' w
  val_eq : ∀ y, y ≠ l → y ≠ w → valOf t' y = valOf t y
  val_w : (valOf t' w).isSome = true

theorem Link.wf {t t' : Table α} {l w : Nat} (hk : Link t t' l w) (h : WF t) (hlw : l ≠ w)
    (hw : parentOf t w = w) (hwl : w < t.length) : WF t' := by
  intro i hi
  rw [hk.length_eq] at hi ⊢
  have hwf := h i hi
  rw [hk.parent i]
  by_cases hil : i = l
  · subst hil
    rw [if_pos rfl]
    exact ⟨hwl, fun _ => hk.rank_lt, fun e => absurd e.symm hlw⟩
  · rw [if_neg hil]
    refine ⟨hwf.1, fun hne => ?_, fun he => ?_⟩
    · have hiw : i ≠ w := fun e => hne (e ▸ hw)
      have h1 := hwf.2.1 hne
      rw [hk.rank_eq i hiw]
      by_cases hpw : parentOf t i = w
      · rw [hpw] at h1 ⊢
        exact Nat.lt_of_lt_of_le h1 hk.rank_le
      · rw [hk.rank_eq _ hpw]; exact h1
    · by_cases hiw : i = w
      · subst hiw; exact hk.val_w
      · rw [hk.val_eq i hil hiw]; exact hwf.2.2 he

theorem Link.rootOf {t t' : Table α} {l w : Nat} (hk : Link t t' l w) (hlw : l ≠ w)
    (hl : parentOf t l = l) (hw : parentOf t w = w) {y r : Nat} (h : RootOf t y r) :
    RootOf t' y (if r = l then w else r) := by
  have hw' : parentOf t' w = w := by
    rw [hk.parent, if_neg (fun e => hlw e.symm)]; exact hw
  induction h with
  | self hr =>
    rename_i r
    by_cases hrl : r = l
    · subst hrl
      rw [if_pos rfl]
      have hp : parentOf t' r = w := by rw [hk.parent, if_pos rfl]
      exact RootOf.step (by rw [hp]; exact fun e => hlw e.symm) (by rw [hp]; exact RootOf.self hw')
    · rw [if_neg hrl]
      exact RootOf.self (by rw [hk.parent, if_neg hrl]; exact hr)
  | step hne h1 ih =>
    rename_i x r
    have hxl : x ≠ l := fun e => hne (e ▸ hl)
    have hp : parentOf t' x = parentOf t x := by rw [hk.parent, if_neg hxl]
    exact RootOf.step (by rw [hp]; exact hne) (by rw [hp]; exact ih)

theorem Link.root_fuelOf {t t' : Table α} {l w : Nat} (hk : Link t t' l w) (h : WF t) (hlw : l ≠ w)
    (hl : parentOf t l = l) (hw : parentOf t w = w) (hwl : w < t.length) (y : Nat) :
    root t' y (fuelOf t') = if root t y (fuelOf t) = l then w else root t y (fuelOf t) :=
  (root_fuelOf_eq_iff (hk.wf h hlw hw hwl) y _).2 (hk.rootOf hlw hl hw (RootOf.of_fuelOf h y))

/-! ### `unify` -/

/-- the part of `unify` after the two `find`s, for distinct roots -/
def linkStep (t2 : Table α) (ra rb : Nat) : Table α × Nat × Option α :=
  let lhs := valOf t2 ra
  let rhs := valOf t2 rb
  let t3 := setVal (setVal t2 ra none) rb none
  if rankOf t3 ra < rankOf t3 rb then
    (setVal (setParent t3 ra rb) rb lhs, rb, rhs)
  else if rankOf t3 rb < rankOf t3 ra then
    (setVal (setParent t3 rb ra) ra lhs, ra, rhs)
  else
    (setVal (bumpRank (setParent t3 ra rb) rb) rb lhs, rb, rhs)

theorem unify_eq (t : Table α) (a b : Nat) :
    unify t a b =
      if (find t a (fuelOf t)).2 = (find (find t a (fuelOf t)).1 b (fuelOf (find t a (fuelOf t)).1)).2 then
        ((find (find t a (fuelOf t)).1 b (fuelOf (find t a (fuelOf t)).1)).1, (find t a (fuelOf t)).2, none)
      else
        linkStep (find (find t a (fuelOf t)).1 b (fuelOf (find t a (fuelOf t)).1)).1 (find t a (fuelOf t)).2
          (find (find t a (fuelOf t)).1 b (fuelOf (find t a (fuelOf t)).1)).2 := by
  simp only [unify, linkStep, beq_iff_eq]

theorem parentOf_setParent_of_lt (t : Table α) (x p y : Nat) (hx : x < t.length) :
    parentOf (setParent t x p) y = if y = x then p else parentOf t y := by
  rw [parentOf_setParent]
  by_cases h : y = x
  · subst h; simp [hx]
  · have h' : ¬ x = y := fun e => h e.symm
    simp [h, h']

theorem valOf_setVal_of_lt (t : Table α) (x : Nat) (v : Option α) (y : Nat) (hx : x < t.length) :
    valOf (setVal t x v) y = if y = x then v else valOf t y := by
  rw [valOf_setVal]
  by_cases h : y = x
  · subst h; simp [hx]
  · have h' : ¬ x = y := fun e => h e.symm
    simp [h, h']

theorem rankOf_bumpRank_of_lt (t : Table α) (x y : Nat) (hx : x < t.length) :
    rankOf (bumpRank t x) y = if y = x then rankOf t y + 1 else rankOf t y := by
  rw [rankOf_bumpRank]
  by_cases h : y = x
  · subst h; simp [hx]
  · have h' : ¬ x = y := fun e => h e.symm
    simp [h, h']

theorem linkStep_spec (t2 : Table α) (ra rb : Nat) (hne : ra ≠ rb) (hra : ra < t2.length)
    (hrb : rb < t2.length) (hv : (valOf t2 ra).isSome = true) :
    ∃ l w, ((l = ra ∧ w = rb) ∨ (l = rb ∧ w = ra)) ∧ Link t2 (linkStep t2 ra rb).1 l w ∧
      (linkStep t2 ra rb).2.1 = w ∧ (linkStep t2 ra rb).2.2 = valOf t2 rb ∧
      valOf (linkStep t2 ra rb).1 w = valOf t2 ra := by
  have hne' : rb ≠ ra := fun e => hne e.symm
  unfold linkStep
  simp only [rankOf_setVal]
  split
  · next hlt =>
    refine ⟨ra, rb, Or.inl ⟨rfl, rfl⟩, ⟨?_, ?_, ?_, ?_, ?_, ?_, ?_⟩, rfl, rfl, ?_⟩
    · simp
    · intro y; simp [parentOf_setParent_of_lt, hra]
    · simpa using hlt
    · intro y _; simp
    · simp
    · intro y h1 h2; simp [valOf_setVal_of_lt, hra, hrb, h1, h2]
    · simp [valOf_setVal_of_lt, hrb, hv]
    · simp [valOf_setVal_of_lt, hrb]
  · next hnlt =>
    split
    · next hlt =>
      refine ⟨rb, ra, Or.inr ⟨rfl, rfl⟩, ⟨?_, ?_, ?_, ?_, ?_, ?_, ?_⟩, rfl, rfl, ?_⟩
      · simp
      · intro y; simp [parentOf_setParent_of_lt, hrb]
      · simpa using hlt
      · intro y _; simp
      · simp
      · intro y h1 h2; simp [valOf_setVal_of_lt, hra, hrb, h1, h2]
      · simp [valOf_setVal_of_lt, hra, hv]
      · simp [valOf_setVal_of_lt, hra]
    · next hnlt' =>
      refine ⟨ra, rb, Or.inl ⟨rfl, rfl⟩, ⟨?_, ?_, ?_, ?_, ?_, ?_, ?_⟩, rfl, rfl, ?_⟩
      · simp
      · intro y; simp [parentOf_setParent_of_lt, hra]
      · simp [rankOf_bumpRank_of_lt, hrb, hne]; omega
      · intro y hy; simp [rankOf_bumpRank_of_lt, hrb, hy]
      · simp [rankOf_bumpRank_of_lt, hrb]
      · intro y h1 h2; simp [valOf_setVal_of_lt, hra, hrb, h1, h2]
      · simp [valOf_setVal_of_lt, hrb, hv]
      · simp [valOf_setVal_of_lt, hrb]

/-- `root` with the table's own fuel (the `rootOf` of the property files) -/
local notation:max "rootF(" t ", " x ")" => root t x (fuelOf t)

theorem unify_spec' (t : Table α) (a b : Nat) (h : WF t) (ha : a < t.length) (hb : b < t.length) :
    let r := unify t a b
    WF r.1 ∧ r.1.length = t.length ∧
    rootF(r.1, a) = r.2.1 ∧ rootF(r.1, b) = r.2.1 ∧
    (∀ x y, x < t.length → y < t.length → rootF(t, x) = rootF(t, y) → rootF(r.1, x) = rootF(r.1, y)) ∧
    (∀ x, x < t.length → rootF(t, x) ≠ rootF(t, a) → rootF(t, x) ≠ rootF(t, b) →
        rootF(r.1, x) = rootF(t, x) ∧ valOf r.1 (rootF(t, x)) = valOf t (rootF(t, x))) ∧
    (∀ x y, x < t.length → y < t.length → rootF(r.1, x) = rootF(r.1, y) →
        rootF(t, x) = rootF(t, y) ∨
        ((rootF(t, x) = rootF(t, a) ∨ rootF(t, x) = rootF(t, b)) ∧
         (rootF(t, y) = rootF(t, a) ∨ rootF(t, y) = rootF(t, b)))) ∧
    valOf r.1 r.2.1 = valOf t (rootF(t, a)) ∧
    (rootF(t, a) ≠ rootF(t, b) → r.2.2 = valOf t (rootF(t, b))) ∧
    (rootF(t, a) = rootF(t, b) → r.2.2 = none) := by
  obtain ⟨hra, hc1⟩ := find_fuelOf h a
  have hw1 := hc1.wf h
  obtain ⟨hrb, hc2⟩ := find_fuelOf hw1 b
  have hw2 := hc2.wf hw1
  have hu := unify_eq t a b
  generalize find t a (fuelOf t) = f1 at hu hra hc1 hw1 hrb hc2 hw2
  obtain ⟨t1, ra⟩ := f1
  generalize find t1 b (fuelOf t1) = f2 at hu hrb hc2 hw2
  obtain ⟨t2, rb⟩ := f2
  simp only at hu hra hc1 hw1 hrb hc2 hw2
  rw [hc1.root_fuelOf h b] at hrb
  have K2 : ∀ y, rootF(t2, y) = rootF(t, y) := fun y =>
    (hc2.root_fuelOf hw1 y).trans (hc1.root_fuelOf h y)
  have V2 : ∀ y, valOf t2 y = valOf t y := fun y => (hc2.val_eq y).trans (hc1.val_eq y)
  have L2 : t2.length = t.length := hc2.length_eq.trans hc1.length_eq
  subst hra hrb
  rw [hu]
  by_cases heq : rootF(t, a) = rootF(t, b)
  · rw [if_pos heq]
    dsimp only
    exact ⟨hw2, L2, K2 a, (K2 b).trans heq.symm, fun x y _ _ e => by rw [K2, K2]; exact e,
      fun x _ _ _ => ⟨K2 x, V2 _⟩, fun x y _ _ e => Or.inl (by rw [K2, K2] at e; exact e), V2 _,
      fun hne => absurd heq hne, fun _ => rfl⟩
  · rw [if_neg heq]
    have hRA : parentOf t2 (rootF(t, a)) = rootF(t, a) := by
      have := root_fuelOf_isRoot hw2 a; rwa [K2] at this
    have hRB : parentOf t2 (rootF(t, b)) = rootF(t, b) := by
      have := root_fuelOf_isRoot hw2 b; rwa [K2] at this
    have hA : rootF(t, a) < t2.length := by
      rw [L2]; exact ((RootOf.of_fuelOf h a).bounds h ha).1
    have hB : rootF(t, b) < t2.length := by
      rw [L2]; exact ((RootOf.of_fuelOf h b).bounds h hb).1
    have hv : (valOf t2 (rootF(t, a))).isSome = true := (hw2 _ hA).2.2 hRA
    obtain ⟨l, w0, hlw, hk, e1, e2, e3⟩ := linkStep_spec t2 _ _ heq hA hB hv
    generalize linkStep t2 (rootF(t, a)) (rootF(t, b)) = res at hk e1 e2 e3
    obtain ⟨t4, w, rv⟩ := res
    simp only at hk e1 e2 e3
    subst e1 e2
    dsimp only
    have hne : l ≠ w := by rcases hlw with ⟨rfl, rfl⟩ | ⟨rfl, rfl⟩ <;> first | exact heq | exact fun e => heq e.symm
    have hl : parentOf t2 l = l := by rcases hlw with ⟨rfl, rfl⟩ | ⟨rfl, rfl⟩ <;> assumption
    have hw : parentOf t2 w = w := by rcases hlw with ⟨rfl, rfl⟩ | ⟨rfl, rfl⟩ <;> assumption
    have hwl : w < t2.length := by rcases hlw with ⟨rfl, rfl⟩ | ⟨rfl, rfl⟩ <;> assumption
    have K4 : ∀ y, rootF(t4, y) = if rootF(t, y) = l then w else rootF(t, y) := by
      intro y
      have := hk.root_fuelOf hw2 hne hl hw hwl y
      rwa [K2] at this
    refine ⟨hk.wf hw2 hne hw hwl, hk.length_eq.trans L2, ?_, ?_, ?_, ?_, ?_, e3.trans (V2 _),
      fun _ => V2 _, fun e => absurd e heq⟩
    · rw [K4]; split <;> omega
    · rw [K4]; split <;> omega
    · intro x y _ _ e; rw [K4, K4, e]
    · intro x _ h1 h2
      have hxl : rootF(t, x) ≠ l := by omega
      have hxw : rootF(t, x) ≠ w := by omega
      exact ⟨by rw [K4, if_neg hxl], by rw [hk.val_eq _ hxl hxw, V2]⟩
    · intro x y _ _ e
      rw [K4, K4] at e
      split at e <;> split at e <;> omega

/-! ### reachability, `get` -/

theorem wf_nil : WF ([] : Table α) := fun i hi => absurd hi (Nat.not_lt_zero i)

theorem setVal_some_wf {t : Table α} (h : WF t) (x : Nat) (v : α) : WF (setVal t x (some v)) := by
  intro i hi
  rw [setVal_length] at hi ⊢
  have hw := h i hi
  rw [parentOf_setVal, rankOf_setVal, rankOf_setVal, valOf_setVal]
  refine ⟨hw.1, hw.2.1, fun e => ?_⟩
  split
  · rfl
  · exact hw.2.2 e

theorem get_eq (t : Table α) (x : Nat) :
    get t x = ((find t x (fuelOf t)).1, valOf (find t x (fuelOf t)).1 (find t x (fuelOf t)).2) := rfl

end Glas.UF
