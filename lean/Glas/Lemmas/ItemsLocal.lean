import Glas.Model.Items
import Glas.Lemmas.DslExec
/-!
Locality of `runItem` (for C03).

* `exec_shift`: a run on `pre ++ toks` from position `pos + pre.length` is the run on `toks` from
  `pos`, with the state mapped by `shiftSt pre` (tokens prefixed, positions shifted).
* `exec_prefix`: a run whose outcome stays at or below position `b` is unchanged when the token list
  is replaced by one agreeing with it on the first `b + M + 1` tokens (`M` bounds every `nth k`).
-/
namespace Glas.Lemmas.ItemsLocal
open Glas.Dsl Glas.Items Glas.Lemmas.Dsl

/-- map the state carried by an outcome -/
def mapOut (f : St → St) : Out → Out
  | .norm σ fr => .norm (f σ) fr
  | .brk σ fr => .brk (f σ) fr
  | .ret σ v => .ret (f σ) v
  | .panic w σ => .panic w (f σ)
  | .oof => .oof

/-! ## suffix locality -/

def shiftErr (d : Nat) (e : Nat × Nat × Nat) : Nat × Nat × Nat := (e.1, e.2.1, e.2.2 + d)

/-- the state of the run on `pre ++ toks` corresponding to `σ` -/
def shiftSt (pre : List Kind) (σ : St) : St :=
  { σ with toks := pre ++ σ.toks, pos := σ.pos + pre.length,
           errs := σ.errs.map (shiftErr pre.length) }

theorem kindAt_shift (ek : Kind) (pre toks : List Kind) (i : Nat) :
    kindAt ek (pre ++ toks) (i + pre.length) = kindAt ek toks i := by
  simp [kindAt, List.getElem?_append_right]

theorem beq_shift (a b c : Nat) : (a + c == c + b) = (a == b) := by
  rw [Bool.eq_iff_iff]; simp; omega

theorem evalE_shift (P : Prog) (pre toks : List Kind) (pos : Nat) (l : List Nat) (e : Expr) :
    evalE P (pre ++ toks) (pos + pre.length) l e = evalE P toks pos l e := by
  induction e with
  | nth k => simp only [evalE]; rw [Nat.add_right_comm, kindAt_shift]
  | eof => simp only [evalE, List.length_append, beq_shift]
  | _ => simp only [evalE, *]

theorem evalIn_shift (P : Prog) (pre : List Kind) (σ : St) (fr : Frame) (e : Expr) :
    evalIn P (shiftSt pre σ) fr e =
      (evalIn P σ fr e).map (fun x => (x.1, shiftSt pre x.2)) := by
  simp only [evalIn, shiftSt, evalE_shift]
  split <;> rfl

theorem evalArgs_shift (P : Prog) (pre : List Kind) (fr : Frame) (es : List Expr) (σ : St) :
    evalArgs P (shiftSt pre σ) fr es =
      (evalArgs P σ fr es).map (fun x => (x.1, shiftSt pre x.2)) := by
  induction es generalizing σ with
  | nil => rfl
  | cons e es ih =>
    simp only [evalArgs, evalIn_shift]
    cases evalIn P σ fr e with
    | none => rfl
    | some x =>
      simp only [Option.map_some, ih]
      cases evalArgs P x.2 fr es <;> rfl

@[simp] theorem shiftSt_events (pre : List Kind) (σ : St) : (shiftSt pre σ).events = σ.events := rfl
@[simp] theorem shiftSt_nextId (pre : List Kind) (σ : St) : (shiftSt pre σ).nextId = σ.nextId := rfl

theorem exec_shift (P : Prog) (pre : List Kind) (n : Nat) (s : Stmt) (σ : St) (fr : Frame) :
    exec P n s (shiftSt pre σ) fr = mapOut (shiftSt pre) (exec P n s σ fr) := by
  induction n generalizing s σ fr with
  | zero => rfl
  | succ n ih =>
    cases s with
    | skip => rfl
    | bump =>
      simp only [exec]
      have : ((shiftSt pre σ).pos < (shiftSt pre σ).toks.length) ↔ σ.pos < σ.toks.length := by
        simp only [shiftSt, List.length_append]; omega
      by_cases h : σ.pos < σ.toks.length
      · rw [if_pos h, if_pos (this.2 h)]
        simp [mapOut, shiftSt, Nat.add_right_comm]
      · rw [if_neg h, if_neg (fun h' => h (this.1 h'))]
        rfl
    | err code arg =>
      simp [exec, mapOut, shiftSt, shiftErr]
    | «open» m => rfl
    | openBefore m' m =>
      simp only [exec, shiftSt_events, shiftSt_nextId]
      cases getMark fr m with
      | none => rfl
      | some mk =>
        simp only []
        cases σ.events[mk.idx]? with
        | none => rfl
        | some ev =>
          cases ev with
          | «open» k id d =>
            cases d
            · rfl
            · simp only []
              split <;> rfl
          | _ => rfl
    | close m k dst =>
      simp only [exec, shiftSt_events]
      cases getMark fr m with
      | none => rfl
      | some mk =>
        simp only []
        cases σ.events[mk.idx]? with
        | none => rfl
        | some ev =>
          cases ev with
          | «open» k id d =>
            cases d
            · simp only []
              split
              · cases dst <;> rfl
              · rfl
            · rfl
          | _ => rfl
    | assert c =>
      simp only [exec, evalIn_shift]
      cases evalIn P σ fr c with
      | none => rfl
      | some x =>
        simp only [Option.map_some]
        split <;> rfl
    | set x e =>
      simp only [exec, evalIn_shift]
      cases evalIn P σ fr e with
      | none => rfl
      | some x => rfl
    | seq a b =>
      simp only [exec, ih a]
      cases exec P n a σ fr with
      | norm σ' fr' => exact ih b σ' fr'
      | _ => rfl
    | ite c t e =>
      simp only [exec, evalIn_shift]
      cases evalIn P σ fr c with
      | none => rfl
      | some x =>
        simp only [Option.map_some]
        split
        · exact ih t _ _
        · exact ih e _ _
    | loop b =>
      simp only [exec, ih b]
      cases exec P n b σ fr with
      | norm σ' fr' => exact ih (.loop b) σ' fr'
      | _ => rfl
    | brk => rfl
    | ret r =>
      cases r with
      | unit => rfl
      | nat e =>
        simp only [exec, evalIn_shift]
        cases evalIn P σ fr e with
        | none => rfl
        | some x => rfl
      | mark m =>
        simp only [exec]
        cases getMark fr m <;> rfl
      | noMark => rfl
    | call f args margs dst =>
      simp only [exec, evalArgs_shift]
      cases P.procs[f]? with
      | none => rfl
      | some p =>
        simp only []
        cases evalArgs P σ fr args with
        | none => rfl
        | some x =>
          simp only [Option.map_some]
          have hσ : ∀ d md, ({ shiftSt pre x.2 with depth := d, maxDepth := md } : St) =
              shiftSt pre { x.2 with depth := d, maxDepth := md } := fun _ _ => rfl
          have hd : (shiftSt pre x.2).depth = x.2.depth := rfl
          have hmd : (shiftSt pre x.2).maxDepth = x.2.maxDepth := rfl
          rw [hd, hmd, hσ, ih]
          cases exec P n p.body _ _ with
          | norm σ' fr' => simp only [mapOut]; cases assignDst _ dst .unit <;> rfl
          | ret σ' v => simp only [mapOut]; cases assignDst _ dst v <;> rfl
          | _ => rfl

/-- an item parsed at token `p + pre.length` of `pre ++ suf` is the item parsed at token `p` of
`suf`, shifted -/
theorem runItem_shift (P : Prog) (f n : Nat) (pre suf : List Kind) (p : Nat) :
    runItem P f n (pre ++ suf) (p + pre.length) = (runItem P f n suf p).shift pre.length := by
  have h0 : ({ initSt (pre ++ suf) with pos := p + pre.length } : St) =
      shiftSt pre { initSt suf with pos := p } := by simp [shiftSt, initSt]
  simp only [runItem, h0, exec_shift]
  cases exec P n (.call f [] [] .none) { initSt suf with pos := p } _ <;> rfl

/-! ## prefix determinism -/

/-- the same state over another token list -/
def withToks (t : List Kind) (σ : St) : St := { σ with toks := t }

/-- the outcome is a state (not a panic, not out-of-fuel) at a position `≤ b` -/
def Within (b : Nat) : Out → Prop
  | .norm σ _ | .brk σ _ | .ret σ _ => σ.pos ≤ b
  | _ => False

theorem within_start {P : Prog} {n : Nat} {s : Stmt} {σ : St} {fr : Frame} {b : Nat}
    (h : Within b (exec P n s σ fr)) : σ.pos ≤ b := by
  have ha := exec_advOut P n s σ fr
  cases hx : exec P n s σ fr <;> rw [hx] at h ha <;> simp only [Within, AdvOut] at h ha <;>
    first | exact Nat.le_trans ha.2.1 h | exact h.elim

/-- two token lists agreeing on the first `m` tokens, both at least that long -/
structure Agree (m : Nat) (t t' : List Kind) : Prop where
  take : t.take m = t'.take m
  len : m ≤ t.length
  len' : m ≤ t'.length

theorem Agree.getElem? {m : Nat} {t t' : List Kind} (h : Agree m t t') {i : Nat} (hi : i < m) :
    t[i]? = t'[i]? := by
  have h1 : (t.take m)[i]? = t[i]? := by rw [List.getElem?_take]; simp [hi]
  have h2 : (t'.take m)[i]? = t'[i]? := by rw [List.getElem?_take]; simp [hi]
  rw [← h1, ← h2, h.take]

theorem evalE_agree (P : Prog) {m : Nat} {t t' : List Kind} (h : Agree m t t') (pos : Nat)
    (l : List Nat) (e : Expr) (hb : pos + exprMaxNth e < m) :
    evalE P t' pos l e = evalE P t pos l e := by
  induction e with
  | nth k =>
    simp only [exprMaxNth] at hb
    simp only [evalE, kindAt, h.getElem? hb]
  | eof =>
    have := h.len; have := h.len'
    have h1 : (pos == t.length) = false := by simp; omega
    have h2 : (pos == t'.length) = false := by simp; omega
    simp only [evalE, h1, h2]
  | lit _ => rfl
  | var _ => rfl
  | inSet _ e ih => simp only [exprMaxNth] at hb; simp only [evalE, ih hb]
  | not e ih => simp only [exprMaxNth] at hb; simp only [evalE, ih hb]
  | tbl _ e ih => simp only [exprMaxNth] at hb; simp only [evalE, ih hb]
  | eq a b iha ihb | lt a b iha ihb | and a b iha ihb | or a b iha ihb =>
    simp only [exprMaxNth] at hb
    simp only [evalE, iha (by omega), ihb (by omega)]

theorem evalIn_agree (P : Prog) {m : Nat} {T T' : List Kind} (h : Agree m T T') (σ : St)
    (fr : Frame) (e : Expr) (ht : σ.toks = T) (hb : σ.pos + exprMaxNth e < m) :
    evalIn P (withToks T' σ) fr e = (evalIn P σ fr e).map (fun x => (x.1, withToks T' x.2)) := by
  subst ht
  simp only [evalIn, withToks, evalE_agree P h σ.pos fr.locals e hb]
  split <;> rfl

theorem evalArgs_agree (P : Prog) {m : Nat} {T T' : List Kind} (h : Agree m T T') (fr : Frame)
    (es : List Expr) (σ : St) (ht : σ.toks = T) (hb : ∀ e ∈ es, σ.pos + exprMaxNth e < m) :
    evalArgs P (withToks T' σ) fr es =
      (evalArgs P σ fr es).map (fun x => (x.1, withToks T' x.2)) := by
  induction es generalizing σ with
  | nil => rfl
  | cons e es ih =>
    simp only [evalArgs, evalIn_agree P h σ fr e ht (hb e (by simp))]
    cases hx : evalIn P σ fr e with
    | none => rfl
    | some x =>
      obtain ⟨la, hla⟩ := evalIn_eq (v := x.1) (σ' := x.2) hx
      simp only [Option.map_some]
      rw [ih x.2 (by rw [hla]; exact ht)
        (fun e' he' => by rw [hla]; exact hb e' (by simp [he']))]
      cases evalArgs P x.2 fr es <;> rfl

theorem foldl_max_ge_init {α} (g : α → Nat) (l : List α) (a : Nat) :
    a ≤ l.foldl (fun m e => max m (g e)) a := by
  induction l generalizing a with
  | nil => exact Nat.le_refl _
  | cons x xs ih => exact Nat.le_trans (Nat.le_max_left _ _) (ih _)

theorem le_foldl_max {α} (g : α → Nat) (l : List α) (a : Nat) {x : α} (hx : x ∈ l) :
    g x ≤ l.foldl (fun m e => max m (g e)) a := by
  induction l generalizing a with
  | nil => cases hx
  | cons y ys ih =>
    rcases List.mem_cons.1 hx with rfl | h
    · exact Nat.le_trans (Nat.le_max_right _ _) (foldl_max_ge_init g ys _)
    · exact ih _ h

theorem body_le_progMaxNth {P : Prog} {p : Proc} (hp : p ∈ P.procs) :
    stmtMaxNth p.body ≤ progMaxNth P :=
  le_foldl_max (fun p => stmtMaxNth p.body) P.procs 0 hp

/-! the shape of a call -/

def enter (σ : St) : St :=
  { σ with depth := σ.depth + 1, maxDepth := max σ.maxDepth (σ.depth + 1) }

def calleeFrame (p : Proc) (vs : List Nat) (mvs : List (Option Mark)) : Frame :=
  { locals := vs ++ List.replicate (p.nLocals - vs.length) 0,
    marks := mvs ++ List.replicate (p.nMarks - mvs.length) none }

def callFin (fr1 : Frame) (dst : Dst) (σ' : St) (v : RetV) : Out :=
  match assignDst fr1 dst v with
  | some fr2 => .norm { σ' with depth := σ'.depth - 1 } fr2
  | none => .panic .badProg σ'

def callOut (fr1 : Frame) (dst : Dst) : Out → Out
  | .norm σ' _ => callFin fr1 dst σ' .unit
  | .ret σ' v => callFin fr1 dst σ' v
  | .brk σ' _ => .panic .badProg σ'
  | o => o

theorem exec_call (P : Prog) (n f : Nat) (args : List Expr) (margs : List Nat) (dst : Dst)
    (σ : St) (fr : Frame) :
    exec P (n + 1) (.call f args margs dst) σ fr =
      match P.procs[f]? with
      | none => .panic .badProg σ
      | some p =>
        match evalArgs P σ fr args with
        | none => .panic .stuck σ
        | some x => callOut (takeMarks fr margs).2 dst
            (exec P n p.body (enter x.2) (calleeFrame p x.1 (takeMarks fr margs).1)) := by
  simp only [exec]
  cases P.procs[f]? with
  | none => rfl
  | some p =>
    simp only []
    cases evalArgs P σ fr args with
    | none => rfl
    | some x =>
      simp only [enter, calleeFrame]
      cases exec P n p.body _ _ <;> rfl

theorem callOut_withToks (T' : List Kind) (fr1 : Frame) (dst : Dst) (o : Out) :
    callOut fr1 dst (mapOut (withToks T') o) = mapOut (withToks T') (callOut fr1 dst o) := by
  cases o with
  | norm σ' fr' => simp only [mapOut, callOut, callFin]; cases assignDst fr1 dst .unit <;> rfl
  | ret σ' v => simp only [mapOut, callOut, callFin]; cases assignDst fr1 dst v <;> rfl
  | _ => rfl

theorem within_callOut {b : Nat} {fr1 : Frame} {dst : Dst} {o : Out}
    (h : Within b (callOut fr1 dst o)) : Within b o := by
  cases o with
  | norm σ' fr' =>
    simp only [callOut, callFin] at h
    cases hx : assignDst fr1 dst .unit <;> rw [hx] at h
    · exact h.elim
    · exact h
  | ret σ' v =>
    simp only [callOut, callFin] at h
    cases hx : assignDst fr1 dst v <;> rw [hx] at h
    · exact h.elim
    · exact h
  | brk σ' fr' => exact h.elim
  | panic w σ' => exact h.elim
  | oof => exact h.elim

/-- a run that ends (normally, by `break` or by `return`) at a position `≤ b` sees only the first
`b + M + 1` tokens -/
theorem exec_prefix (P : Prog) {M m : Nat} {T T' : List Kind} (hag : Agree m T T')
    (hP : ∀ p ∈ P.procs, stmtMaxNth p.body ≤ M) (b : Nat) (hbm : b + M < m)
    (n : Nat) (s : Stmt) (σ : St) (fr : Frame) (ht : σ.toks = T) (hs : stmtMaxNth s ≤ M)
    (hw : Within b (exec P n s σ fr)) :
    exec P n s (withToks T' σ) fr = mapOut (withToks T') (exec P n s σ fr) := by
  induction n generalizing s σ fr with
  | zero => exact hw.elim
  | succ n ih =>
    cases s with
    | skip => rfl
    | bump =>
      simp only [exec] at hw ⊢
      by_cases h : σ.pos < σ.toks.length
      · rw [if_pos h] at hw
        simp only [Within] at hw
        have h' : (withToks T' σ).pos < (withToks T' σ).toks.length := by
          show σ.pos < T'.length
          have := hag.len'
          omega
        rw [if_pos h, if_pos h']
        rfl
      · rw [if_neg h] at hw
        exact hw.elim
    | err code arg => rfl
    | «open» m => rfl
    | openBefore m' m =>
      have he : (withToks T' σ).events = σ.events := rfl
      have hn : (withToks T' σ).nextId = σ.nextId := rfl
      simp only [exec, he, hn]
      cases getMark fr m with
      | none => rfl
      | some mk =>
        simp only []
        cases σ.events[mk.idx]? with
        | none => rfl
        | some ev =>
          cases ev with
          | «open» k id d =>
            cases d
            · rfl
            · simp only []
              split <;> rfl
          | _ => rfl
    | close m k dst =>
      have he : (withToks T' σ).events = σ.events := rfl
      simp only [exec, he]
      cases getMark fr m with
      | none => rfl
      | some mk =>
        simp only []
        cases σ.events[mk.idx]? with
        | none => rfl
        | some ev =>
          cases ev with
          | «open» k id d =>
            cases d
            · simp only []
              split
              · cases dst <;> rfl
              · rfl
            · rfl
          | _ => rfl
    | assert c =>
      simp only [stmtMaxNth] at hs
      have hpos := within_start hw
      simp only [exec]
      rw [evalIn_agree P hag σ fr c ht (by omega)]
      cases evalIn P σ fr c with
      | none => rfl
      | some x =>
        simp only [Option.map_some]
        split <;> rfl
    | set x e =>
      simp only [stmtMaxNth] at hs
      have hpos := within_start hw
      simp only [exec]
      rw [evalIn_agree P hag σ fr e ht (by omega)]
      cases evalIn P σ fr e with
      | none => rfl
      | some x => rfl
    | seq s1 s2 =>
      simp only [stmtMaxNth] at hs
      simp only [exec] at hw ⊢
      have ha := exec_advOut P n s1 σ fr
      cases hx : exec P n s1 σ fr with
      | norm σ' fr' =>
        rw [hx] at hw ha
        have hwa : Within b (exec P n s1 σ fr) := by rw [hx]; exact within_start hw
        rw [ih s1 σ fr ht (by omega) hwa, hx]
        exact ih s2 σ' fr' (ha.1.trans ht) (by omega) hw
      | brk σ' fr' =>
        rw [hx] at hw
        rw [ih s1 σ fr ht (by omega) (by rw [hx]; exact hw), hx]; rfl
      | ret σ' v =>
        rw [hx] at hw
        rw [ih s1 σ fr ht (by omega) (by rw [hx]; exact hw), hx]; rfl
      | panic w σ' => rw [hx] at hw; exact hw.elim
      | oof => rw [hx] at hw; exact hw.elim
    | ite c st se =>
      simp only [stmtMaxNth] at hs
      have hpos := within_start hw
      simp only [exec] at hw ⊢
      rw [evalIn_agree P hag σ fr c ht (by omega)]
      cases hx : evalIn P σ fr c with
      | none => rfl
      | some x =>
        rw [hx] at hw
        obtain ⟨la, hla⟩ := evalIn_eq (v := x.1) (σ' := x.2) hx
        have htx : x.2.toks = T := by rw [hla]; exact ht
        simp only [Option.map_some] at hw ⊢
        by_cases hv : (x.1 != 0) = true
        · rw [if_pos hv] at hw
          rw [if_pos hv, if_pos hv]
          exact ih st x.2 fr htx (by omega) hw
        · rw [if_neg hv] at hw
          rw [if_neg hv, if_neg hv]
          exact ih se x.2 fr htx (by omega) hw
    | loop body =>
      simp only [stmtMaxNth] at hs
      simp only [exec] at hw ⊢
      have ha := exec_advOut P n body σ fr
      cases hx : exec P n body σ fr with
      | norm σ' fr' =>
        rw [hx] at hw ha
        have hwa : Within b (exec P n body σ fr) := by rw [hx]; exact within_start hw
        rw [ih body σ fr ht hs hwa, hx]
        exact ih (.loop body) σ' fr' (ha.1.trans ht) hs hw
      | brk σ' fr' =>
        rw [hx] at hw
        rw [ih body σ fr ht hs (by rw [hx]; exact hw), hx]; rfl
      | ret σ' v =>
        rw [hx] at hw
        rw [ih body σ fr ht hs (by rw [hx]; exact hw), hx]; rfl
      | panic w σ' => rw [hx] at hw; exact hw.elim
      | oof => rw [hx] at hw; exact hw.elim
    | brk => rfl
    | ret r =>
      cases r with
      | unit => rfl
      | nat e =>
        simp only [stmtMaxNth, retMaxNth] at hs
        have hpos := within_start hw
        simp only [exec]
        rw [evalIn_agree P hag σ fr e ht (by omega)]
        cases evalIn P σ fr e with
        | none => rfl
        | some x => rfl
      | mark m =>
        simp only [exec]
        cases getMark fr m <;> rfl
      | noMark => rfl
    | call f args margs dst =>
      simp only [stmtMaxNth] at hs
      have hpos := within_start hw
      rw [exec_call] at hw
      rw [exec_call, exec_call]
      cases hp : P.procs[f]? with
      | none => rw [hp] at hw; exact hw.elim
      | some p =>
        rw [hp] at hw
        simp only [] at hw ⊢
        rw [evalArgs_agree P hag fr args σ ht (fun e he => by
          have := le_foldl_max exprMaxNth args 0 he
          omega)]
        cases hx : evalArgs P σ fr args with
        | none => rw [hx] at hw; exact hw.elim
        | some x =>
          rw [hx] at hw
          simp only [Option.map_some] at hw ⊢
          obtain ⟨la, hla⟩ := evalArgs_eq (vs := x.1) (σ' := x.2) hx
          have htx : (enter x.2).toks = T := by
            show x.2.toks = T
            rw [hla]; exact ht
          have hwb := within_callOut hw
          have he : enter (withToks T' x.2) = withToks T' (enter x.2) := rfl
          rw [he, ih p.body _ _ htx (hP p (List.mem_of_getElem? hp)) hwb, callOut_withToks]

/-- an item's parse is determined by the tokens up to `progMaxNth P` past its last token -/
theorem runItem_prefix (P : Prog) (f n : Nat) (T T' : List Kind) (pos : Nat) (o : ItemOut)
    (h : runItem P f n T pos = .ok o) (hag : Agree (o.stop + progMaxNth P + 1) T T') :
    runItem P f n T' pos = .ok o := by
  have h0 : ({ initSt T' with pos := pos } : St) = withToks T' { initSt T with pos := pos } := rfl
  simp only [runItem] at h ⊢
  cases hx : exec P n (.call f [] [] .none) { initSt T with pos := pos }
      { locals := [], marks := [] } with
  | norm σ fr =>
    rw [hx] at h
    simp only [ItemRes.ok.injEq] at h
    subst h
    have hw : Within σ.pos (exec P n (.call f [] [] .none) { initSt T with pos := pos }
        { locals := [], marks := [] }) := by rw [hx]; exact Nat.le_refl _
    rw [h0, exec_prefix P hag (fun p hp => body_le_progMaxNth hp) σ.pos (by simp only []; omega) n _ _ _
      rfl (by simp [stmtMaxNth]) hw, hx]
    rfl
  | brk σ fr => rw [hx] at h; simp at h
  | ret σ v => rw [hx] at h; simp at h
  | panic w σ => rw [hx] at h; simp at h
  | oof => rw [hx] at h; simp at h

end Glas.Lemmas.ItemsLocal
