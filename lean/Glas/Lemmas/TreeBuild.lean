import Glas.Lemmas.Tree
/-! Running the tree builder over a balanced event list. -/
namespace Glas.Lemmas.Tree
open Glas.Dsl Glas.Tree Glas.SyntaxSpec Glas.Lemmas.Dsl

theorem startCount_eq_one {π : Policy} {triv : Kind → Bool} (hπ : PolicyOK π triv) (k : Kind) :
    startCount (π.onOpen k) = 1 := hπ.oneStart k

/-- the events between the root's `Open` and its `Close` -/
theorem runEvs_mid (π : Policy) (triv : Kind → Bool) (hπ : PolicyOK π triv) :
    ∀ (mid : List Ev) (d : Nat) (b : B), Ok d mid → hasUndone mid = false → Sh d b →
      advCount mid ≤ ntc triv b.rest →
      ∃ b' d', runEvs π mid b = .ok b' ∧ Sh d' b' ∧ d' + closeCount mid = d + doneCount mid ∧
        flat b' ++ b'.rest = flat b ++ b.rest ∧ ntc triv b'.rest + advCount mid = ntc triv b.rest := by
  intro mid
  induction mid with
  | nil =>
    intro d b _ _ h _
    exact ⟨b, d, rfl, h, rfl, rfl, rfl⟩
  | cons e es ih =>
    intro d b hok hund h hadv
    cases e with
    | «open» k id dn =>
      cases dn with
      | false => simp [hasUndone] at hund
      | true =>
        simp only [Ok, hasUndone, advCount] at hok hund hadv
        obtain ⟨a1, a2, a3⟩ := runActs_spec triv k (π.onOpen k) d b h (hπ.opens k)
        rw [startCount_eq_one hπ] at a1
        obtain ⟨b', d', r1, r2, r3, r4, r5⟩ := ih (d + 1) _ hok hund a1 (by rw [a3]; exact hadv)
        refine ⟨b', d', ?_, r2, ?_, by rw [r4, a2], by simp only [advCount]; rw [r5, a3]⟩
        · simp only [runEvs, stepEv]; exact r1
        · simp only [closeCount, doneCount]; omega
    | close =>
      simp only [Ok, hasUndone, advCount] at hok hund hadv
      obtain ⟨hd, hok⟩ := hok
      obtain ⟨d0, rfl⟩ : ∃ d0, d = d0 + 1 := ⟨d - 1, by omega⟩
      obtain ⟨b1, f1, f2, f3, f4⟩ := finish_spec h
      obtain ⟨b', d', r1, r2, r3, r4, r5⟩ := ih d0 b1 hok hund f2 (by rw [f4]; exact hadv)
      refine ⟨b', d', ?_, r2, ?_, by rw [r4, f3, f4], by simp only [advCount]; rw [r5, f4]⟩
      · simp only [runEvs, stepEv, f1]; exact r1
      · simp only [closeCount, doneCount]; omega
    | adv =>
      simp only [Ok, hasUndone, advCount] at hok hund hadv
      obtain ⟨b1, s1, s2, s3, s4⟩ := adv_spec π.advPred triv hπ.adv d b h (by omega)
      obtain ⟨b', d', r1, r2, r3, r4, r5⟩ := ih d b1 hok hund s2 (by omega)
      refine ⟨b', d', ?_, r2, ?_, by rw [r4, s3], by simp only [advCount]; omega⟩
      · simp only [runEvs, stepEv, hπ.extra, s1]; exact r1
      · simp only [closeCount, doneCount]; omega

theorem dropLast_cons_concat {α} (a : α) (m : List α) (c : α) :
    (a :: (m ++ [c])).dropLast = a :: m := by
  have : a :: (m ++ [c]) = (a :: m) ++ [c] := rfl
  rw [this, List.dropLast_concat]

/-- the builder succeeds on the events of a well-shaped run and its tree is lossless -/
theorem buildTree_ok (π : Policy) (triv : Kind → Bool) (hπ : PolicyOK π triv) (k r : Nat)
    (acts : List Act) (hroot : π.onOpen k = .start :: acts) (mid : List Ev) (raw : List RawTok)
    (hok : Ok 0 mid) (hund : hasUndone mid = false) (hcnt : closeCount mid = doneCount mid)
    (hadv : advCount mid = ntc triv raw) :
    ∃ t, buildTree π (.open k r true :: (mid ++ [.close])) raw = .ok t ∧ t.leaves = raw := by
  obtain ⟨fl, hfl, hfl'⟩ := hπ.flush
  -- the root's `Open`
  have hsc : startCount acts = 0 := by
    have := startCount_eq_one hπ k
    rw [hroot] at this
    simp [startCount] at this ⊢
    exact this
  have h0 : Sh 0 (B.startNode { stack := [], top := [], rest := raw } k) := ⟨rfl, rfl⟩
  obtain ⟨a1, a2, a3⟩ := runActs_spec triv k acts 0 _ h0
    (fun p k' hm hk => hπ.opens k p k' (by rw [hroot]; simp [hm]) hk)
  rw [hsc] at a1
  -- the events in between
  obtain ⟨b1, d1, r1, r2, r3, r4, r5⟩ := runEvs_mid π triv hπ mid 0 _ hok hund a1
    (by rw [a3, hadv]; exact Nat.le_refl _)
  have hd1 : d1 = 0 := by omega
  subst hd1
  -- the final flush
  obtain ⟨e1, e2, e3, e4⟩ := eatRun_spec fl triv (fun k' hk => by rw [← hfl']; exact hk) 0 b1 r2
  have hrest : (b1.eatRun fl).rest = [] := by
    rcases e4 with e4 | ⟨k', t', r', e4, hk'⟩
    · exact e4
    · exfalso
      have hz : ntc triv (b1.eatRun fl).rest = 0 := by
        rw [e3]; rw [a3] at r5
        have : ntc triv (B.startNode { stack := [], top := [], rest := raw } k).rest = ntc triv raw := rfl
        omega
      rw [e4] at hz
      have : triv k' = false := by rw [← hfl']; exact hk'
      simp [ntc, this] at hz
  -- the root's `finish_node`
  obtain ⟨he1, he2⟩ := e1
  have hflat : flat (b1.eatRun fl) = raw := by
    have := e2
    rw [hrest, r4, a2] at this
    simpa [flat, B.startNode, stackLeaves, leavesList] using this
  cases hst : (b1.eatRun fl).stack with
  | nil => rw [hst] at he1; simp at he1
  | cons top st =>
    obtain ⟨k1, cs⟩ := top
    have hst' : st = [] := by
      rw [hst] at he1; simp at he1; exact he1
    subst hst'
    refine ⟨.node k1 cs.reverse, ?_, ?_⟩
    · unfold buildTree
      simp only [hπ.pop, if_true, dropLast_cons_concat, runEvs, stepEv, hroot, runActs, r1, hfl,
        hπ.fin, B.finishNode, hst, B.push, he2]
    · simp only [Tree.leaves]
      rw [← hflat]
      simp [flat, hst, he2, stackLeaves, leavesList]

end Glas.Lemmas.Tree
