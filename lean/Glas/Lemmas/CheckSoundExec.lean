import Glas.Lemmas.CheckSoundBase
/-!
# Soundness of the certificate checker, part 2: facts about the interpreter, the post-condition,
the fuel measure
-/
namespace Glas.Check
open Glas.Dsl

/-! ## unfolding `exec` -/

theorem exec_zero (P : Prog) (s : Stmt) (σ : St) (fr : Frame) : exec P 0 s σ fr = .oof := rfl

theorem exec_seq (P : Prog) (n : Nat) (a b : Stmt) (σ : St) (fr : Frame) :
    exec P (n + 1) (.seq a b) σ fr =
      match exec P n a σ fr with
      | .norm σ' fr' => exec P n b σ' fr'
      | o => o := rfl

theorem exec_ite (P : Prog) (n : Nat) (c : Expr) (t e : Stmt) (σ : St) (fr : Frame) :
    exec P (n + 1) (.ite c t e) σ fr =
      match evalIn P σ fr c with
      | none => .panic .stuck σ
      | some (v, σ') => if v != 0 then exec P n t σ' fr else exec P n e σ' fr := rfl

theorem exec_loop (P : Prog) (n : Nat) (b : Stmt) (σ : St) (fr : Frame) :
    exec P (n + 1) (.loop b) σ fr =
      match exec P n b σ fr with
      | .norm σ' fr' => exec P n (.loop b) σ' fr'
      | .brk σ' fr' => .norm σ' fr'
      | o => o := rfl

def calleeSt (σ1 : St) : St :=
  { σ1 with depth := σ1.depth + 1, maxDepth := max σ1.maxDepth (σ1.depth + 1) }

def calleeFr (p : Proc) (vs : List Nat) (mvs : List (Option Mark)) : Frame :=
  { locals := vs ++ List.replicate (p.nLocals - vs.length) 0,
    marks := mvs ++ List.replicate (p.nMarks - mvs.length) none }

def finCall (fr1 : Frame) (dst : Dst) (σ' : St) (v : RetV) : Out :=
  match assignDst fr1 dst v with
  | some fr2 => .norm { σ' with depth := σ'.depth - 1 } fr2
  | none => .panic .badProg σ'

theorem exec_call (P : Prog) (n : Nat) (f : Nat) (args : List Expr) (margs : List Nat) (dst : Dst)
    (σ : St) (fr : Frame) :
    exec P (n + 1) (.call f args margs dst) σ fr =
      match P.procs[f]? with
      | none => .panic .badProg σ
      | some p =>
        match evalArgs P σ fr args with
        | none => .panic .stuck σ
        | some (vs, σ1) =>
          match exec P n p.body (calleeSt σ1) (calleeFr p vs (takeMarks fr margs).1) with
          | .norm σ' _ => finCall (takeMarks fr margs).2 dst σ' .unit
          | .ret σ' v => finCall (takeMarks fr margs).2 dst σ' v
          | .brk σ' _ => .panic .badProg σ'
          | o => o := rfl

/-! ## expressions, frames -/

theorem evalIn_some {P : Prog} {σ σ' : St} {fr : Frame} {e : Expr} {v : Nat}
    (h : evalIn P σ fr e = some (v, σ')) :
    v = (evalE P σ.toks σ.pos fr.locals e).1 ∧ σ'.toks = σ.toks ∧ σ'.pos = σ.pos := by
  unfold evalIn at h
  simp only [] at h
  split at h
  · cases h
  · cases h; exact ⟨rfl, rfl, rfl⟩

theorem evalArgs_some {P : Prog} {fr : Frame} {es : List Expr} :
    ∀ {σ σ' : St} {vs : List Nat}, evalArgs P σ fr es = some (vs, σ') →
      σ'.toks = σ.toks ∧ σ'.pos = σ.pos := by
  induction es with
  | nil => intro σ σ' vs h; simp only [evalArgs] at h; cases h; exact ⟨rfl, rfl⟩
  | cons e es ih =>
    intro σ σ' vs h
    simp only [evalArgs] at h
    split at h
    · cases h
    · rename_i v σ1 h1
      split at h
      · cases h
      · rename_i vs' σ2 h2
        cases h
        have a := evalIn_some h1
        have b := ih h2
        exact ⟨b.1.trans a.2.1, b.2.trans a.2.2⟩

theorem setNth_eq_set {α} (l : List α) (n : Nat) (a : α) : setNth l n a = l.set n a := by
  induction l generalizing n with
  | nil => rfl
  | cons x xs ih =>
    cases n with
    | zero => rfl
    | succ n => simp [setNth, ih]

theorem setNth_length {α} (l : List α) (n : Nat) (a : α) : (setNth l n a).length = l.length := by
  rw [setNth_eq_set]; simp

theorem setNth_get_ne {α} (l : List α) (n k : Nat) (a : α) (h : k ≠ n) : (setNth l n a)[k]? = l[k]? := by
  rw [setNth_eq_set, List.getElem?_set]
  have : ¬ n = k := fun h' => h h'.symm
  simp [this]

theorem setNth_get_eq {α} (l : List α) (n : Nat) (a : α) (h : n < l.length) : (setNth l n a)[n]? = some a := by
  rw [setNth_eq_set, List.getElem?_set]
  simp [h]

theorem takeMarks_locals (ms : List Nat) : ∀ fr : Frame, (takeMarks fr ms).2.locals = fr.locals := by
  induction ms with
  | nil => intro fr; rfl
  | cons m ms ih =>
    intro fr
    simp only [takeMarks]
    exact ih (setMark fr m none)

theorem assignDst_locals {fr fr2 : Frame} {d : Dst} {v : RetV} (h : assignDst fr d v = some fr2) :
    fr2.locals.length = fr.locals.length ∧ ∀ y, dstLocal d ≠ some y → fr2.locals[y]? = fr.locals[y]? := by
  have key : ∀ (x v : Nat) (g : Frame), g.locals = fr.locals →
      (setLocal g x v).locals.length = fr.locals.length ∧
        ∀ y, some x ≠ some y → (setLocal g x v).locals[y]? = fr.locals[y]? := by
    intro x v g hg
    refine ⟨by simp [setLocal, setNth_length, hg], ?_⟩
    intro y hy
    simp only [setLocal, hg]
    exact setNth_get_ne _ _ _ _ (fun h' => hy (by rw [h']))
  cases d <;> cases v <;> simp only [assignDst] at h <;> try (cases h)
  · exact ⟨rfl, fun _ _ => rfl⟩
  · exact ⟨rfl, fun _ _ => rfl⟩
  · exact ⟨rfl, fun _ _ => rfl⟩
  · exact ⟨rfl, fun _ _ => rfl⟩
  · exact key _ _ fr rfl
  · exact ⟨rfl, fun _ _ => rfl⟩
  · exact key _ _ _ rfl
  · exact key _ _ _ rfl

/-! ## the fuel measure -/

theorem size_pos (s : Stmt) : 0 < size s := by
  cases s <;> simp [size] <;> omega

theorem le_maxL {x : Nat} {l : List Nat} (h : x ∈ l) : x ≤ maxL l := by
  induction l with
  | nil => cases h
  | cons y ys ih =>
    simp only [maxL]
    rcases List.mem_cons.mp h with rfl | h
    · exact Nat.le_max_left _ _
    · exact Nat.le_trans (ih h) (Nat.le_max_right _ _)

theorem rank_lt_bound {Γ : List Summ} {f : Nat} {s : Summ} (h : Γ[f]? = some s) : s.rank < rankBound Γ := by
  have : s.rank ∈ Γ.map (·.rank) := List.mem_map.mpr ⟨s, List.mem_of_getElem? h, rfl⟩
  have := le_maxL this
  unfold rankBound; omega

theorem size_lt_bound {P : Prog} {f : Nat} {p : Proc} (h : P.procs[f]? = some p) : size p.body < bodyBound P := by
  have : size p.body ∈ P.procs.map (fun p => size p.body) := List.mem_map.mpr ⟨p, List.mem_of_getElem? h, rfl⟩
  have := le_maxL this
  unfold bodyBound; omega

/-- fuel sufficient to run statement `st` of an activation of rank `self` entered at `lastRef refs`,
from position `pos` -/
def need (Γ : List Summ) (P : Prog) (self : Nat) (sz : Nat) (refs : List Nat) (len pos : Nat) : Nat :=
  sz + (len - pos) * tokCost Γ P + (if lastRef refs < pos then rankBound Γ else self) * bodyBound P

/-- moving on in the same activation to a (not larger) statement -/
theorem need_step {Γ : List Summ} {P : Prog} {self sz sz' : Nat} {refs : List Nat} {len pos pos' : Nat}
    (hself : self ≤ rankBound Γ) (hsz : sz' ≤ sz) (hpp : pos ≤ pos') (hle : pos' ≤ len) :
    need Γ P self sz' refs len pos' + (sz - sz') ≤ need Γ P self sz refs len pos := by
  unfold need
  rcases Nat.eq_or_lt_of_le hpp with rfl | hlt
  · omega
  · have h1 : (len - pos') * tokCost Γ P + tokCost Γ P ≤ (len - pos) * tokCost Γ P := by
      have : len - pos' + 1 ≤ len - pos := by omega
      calc (len - pos') * tokCost Γ P + tokCost Γ P = (len - pos' + 1) * tokCost Γ P := by
            rw [Nat.succ_mul]
        _ ≤ (len - pos) * tokCost Γ P := Nat.mul_le_mul_right _ this
    have h2 : (if lastRef refs < pos' then rankBound Γ else self) * bodyBound P ≤ rankBound Γ * bodyBound P := by
      apply Nat.mul_le_mul_right
      split <;> omega
    have h3 : tokCost Γ P = 1 + bodyBound P + rankBound Γ * bodyBound P := rfl
    omega

theorem lastRef_cons {refs : List Nat} (h : refs ≠ []) (p : Nat) : lastRef (p :: refs) = lastRef refs := by
  cases refs with
  | nil => exact absurd rfl h
  | cons r rs => rfl

/-- next loop iteration after a token has been consumed -/
theorem need_iter {Γ : List Summ} {P : Prog} {self sz : Nat} {refs : List Nat} {len pos pos' : Nat}
    (hself : self ≤ rankBound Γ) (hpp : pos < pos') (hle : pos' ≤ len) :
    need Γ P self sz refs len pos' + 1 < need Γ P self sz refs len pos := by
  unfold need
  have h1 : (len - pos') * tokCost Γ P + tokCost Γ P ≤ (len - pos) * tokCost Γ P := by
    have : len - pos' + 1 ≤ len - pos := by omega
    calc (len - pos') * tokCost Γ P + tokCost Γ P = (len - pos' + 1) * tokCost Γ P := by
          rw [Nat.succ_mul]
      _ ≤ (len - pos) * tokCost Γ P := Nat.mul_le_mul_right _ this
  have h2 : (if lastRef refs < pos' then rankBound Γ else self) * bodyBound P ≤ rankBound Γ * bodyBound P := by
    apply Nat.mul_le_mul_right
    split <;> omega
  have h3 : tokCost Γ P = 1 + bodyBound P + rankBound Γ * bodyBound P := rfl
  have h4 : 0 < bodyBound P := by unfold bodyBound; omega
  omega

/-- entering a callee of rank `rk` (body size `szb`) -/
theorem need_call {Γ : List Summ} {P : Prog} {self rk szb : Nat} {refs : List Nat} {len pos : Nat}
    (hrk : rk < rankBound Γ) (hszb : szb < bodyBound P)
    (hcall : lastRef refs < pos ∨ rk < self) :
    need Γ P rk szb [pos] len pos + 1 ≤ need Γ P self 1 refs len pos := by
  unfold need
  have h0 : ¬ lastRef [pos] < pos := by simp [lastRef]
  rw [if_neg h0]
  have h1 : rk * bodyBound P + bodyBound P ≤ (if lastRef refs < pos then rankBound Γ else self) * bodyBound P := by
    have : rk + 1 ≤ (if lastRef refs < pos then rankBound Γ else self) := by
      split
      · omega
      · rename_i hn; rcases hcall with h | h
        · exact absurd h hn
        · omega
    calc rk * bodyBound P + bodyBound P = (rk + 1) * bodyBound P := by rw [Nat.succ_mul]
      _ ≤ _ := Nat.mul_le_mul_right _ this
  omega

/-! ## post-conditions -/

/-- what the checker's result `r` promises about an outcome of running a statement (of size `sz`) with
fuel `m` from `σ`, `fr` in an activation of rank `self` -/
def Post (Γ : List Summ) (P : Prog) (self sz : Nat) (r : Res) (refs : List Nat) (σ : St) (fr : Frame)
    (m : Nat) : Out → Prop
  | .norm σ' fr' =>
    σ'.toks = σ.toks ∧ σ.pos ≤ σ'.pos ∧ fr'.locals.length = fr.locals.length ∧
      ∃ a' ∈ r.norm, G P.eofKind a' refs σ'.toks σ'.pos fr'.locals
  | .brk σ' fr' =>
    σ'.toks = σ.toks ∧ σ.pos ≤ σ'.pos ∧ fr'.locals.length = fr.locals.length ∧
      ∃ a' ∈ r.brk, G P.eofKind a' refs σ'.toks σ'.pos fr'.locals
  | .ret σ' _ =>
    σ'.toks = σ.toks ∧ σ.pos ≤ σ'.pos ∧ ∃ a' ∈ r.ret, G0 a' refs σ'.toks σ'.pos
  | .panic w _ => w ≠ .bumpAtEof ∧ w ≠ .assertFailed
  | .oof => m < need Γ P self sz refs σ.toks.length σ.pos

/-- statements that touch neither the tokens nor the locals -/
def Inert (σ : St) (fr : Frame) : Out → Prop
  | .norm σ' fr' => σ'.toks = σ.toks ∧ σ'.pos = σ.pos ∧ fr'.locals = fr.locals
  | .panic w _ => w = .markMisuse
  | _ => False

theorem Inert.post {Γ : List Summ} {P : Prog} {self sz : Nat} {as : List AState} {refs : List Nat}
    {σ : St} {fr : Frame} {m : Nat} {o : Out} {a : AState} (h : Inert σ fr o) (ha : a ∈ as)
    (hG : G P.eofKind a refs σ.toks σ.pos fr.locals) :
    Post Γ P self sz ⟨as, [], [], []⟩ refs σ fr m o := by
  cases o with
  | norm σ' fr' =>
    obtain ⟨h1, h2, h3⟩ := h
    refine ⟨h1, by omega, by rw [h3], a, ha, ?_⟩
    rw [h1, h2, h3]; exact hG
  | panic w _ => cases h; exact ⟨by simp, by simp⟩
  | brk => cases h
  | ret => cases h
  | oof => cases h

theorem inert_err (P : Prog) (n : Nat) (c x : Nat) (σ : St) (fr : Frame) :
    Inert σ fr (exec P (n + 1) (.err c x) σ fr) := ⟨rfl, rfl, rfl⟩

theorem inert_open (P : Prog) (n : Nat) (k : Nat) (σ : St) (fr : Frame) :
    Inert σ fr (exec P (n + 1) (.open k) σ fr) := ⟨rfl, rfl, rfl⟩

theorem inert_openBefore (P : Prog) (n : Nat) (k k' : Nat) (σ : St) (fr : Frame) :
    Inert σ fr (exec P (n + 1) (.openBefore k k') σ fr) := by
  simp only [exec]
  split
  · rfl
  · split
    · split
      · exact ⟨rfl, rfl, rfl⟩
      · rfl
    · rfl

theorem inert_close (P : Prog) (n : Nat) (k : Nat) (kd : Kind) (d : Option Nat) (σ : St) (fr : Frame) :
    Inert σ fr (exec P (n + 1) (.close k kd d) σ fr) := by
  simp only [exec]
  split
  · rfl
  · split
    · split
      · split
        · exact ⟨rfl, rfl, rfl⟩
        · exact ⟨rfl, rfl, rfl⟩
      · rfl
    · rfl

/-! ## assignments -/

theorem mem_dropF {x y : Nat} {l : List Nat} : y ∈ dropF x l ↔ y ∈ l ∧ y ≠ x := by
  simp [dropF]

theorem mem_dropB {x : Nat} {q : Nat × Nat} {l : List (Nat × Nat)} : q ∈ dropB x l ↔ q ∈ l ∧ q.1 ≠ x := by
  simp [dropB]

/-- forgetting everything about local `x` is sound for any new value of `x` -/
theorem G.forget {eofK a refs toks pos locals} (hG : G eofK a refs toks pos locals) (x : Nat)
    {locals' : List Nat} (hl : ∀ y, y ≠ x → locals'[y]? = locals[y]?) :
    G eofK { a with facts := dropF x a.facts, bfacts := dropB x a.bfacts } refs toks pos locals' := by
  refine ⟨hG.cur, ?_, ?_, hG.flags, hG.le⟩
  · intro y hy
    obtain ⟨hy1, hy2⟩ := mem_dropF.mp hy
    rw [hl y hy2]; exact hG.facts y hy1
  · intro y S hy
    obtain ⟨hy1, hy2⟩ := mem_dropB.mp hy
    rw [hl y hy2]; exact hG.bfacts y S hy1

theorem setFact_sound {P : Prog} {a refs toks pos locals} (hG : G P.eofKind a refs toks pos locals)
    (nl x : Nat) (e : Expr) (hnl : nl ≤ locals.length) :
    G P.eofKind (setFact nl x e a) refs toks pos
      (setNth locals x (evalE P toks pos locals e).1) := by
  have hne : ∀ y, y ≠ x → (setNth locals x (evalE P toks pos locals e).1)[y]? = locals[y]? :=
    fun y hy => setNth_get_ne _ _ _ _ hy
  unfold setFact
  split
  · rename_i hx
    simp only [decide_eq_true_eq] at hx
    have hxl : x < locals.length := by omega
    have heq := setNth_get_eq locals x (evalE P toks pos locals e).1 hxl
    split
    · rename_i hc
      have hv := isCurE_sound (P := P) hG hc
      refine ⟨hG.cur, ?_, ?_, hG.flags, hG.le⟩
      · intro y hy
        by_cases hyx : y = x
        · subst hyx; rw [heq]; exact hv
        · rw [hne y hyx]
          apply hG.facts
          simp only at hy
          split at hy
          · exact hy
          · rcases List.mem_cons.mp hy with h | h
            · exact absurd h hyx
            · exact h
      · intro y S hy
        obtain ⟨hy1, hy2⟩ := mem_dropB.mp hy
        rw [hne y hy2]; exact hG.bfacts y S hy1
    · split
      · rename_i S hS
        have hv := testOf_sound (P := P) hG hS
        refine ⟨hG.cur, ?_, ?_, hG.flags, hG.le⟩
        · intro y hy
          obtain ⟨hy1, hy2⟩ := mem_dropF.mp hy
          rw [hne y hy2]; exact hG.facts y hy1
        · intro y T hy
          rcases List.mem_cons.mp hy with h | h
          · cases h; rw [heq]; exact hv
          · obtain ⟨hy1, hy2⟩ := mem_dropB.mp h
            rw [hne y hy2]; exact hG.bfacts y T hy1
      · exact hG.forget x hne
  · exact hG.forget x hne

end Glas.Check
