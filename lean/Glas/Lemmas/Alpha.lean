import Glas.Model.ScopeSpec
/-!
Helper lemmas for C07 `alpha_fresh`: renaming the binders with id `pid` to a fresh name `y` in an
environment, and what `lookupEnv` answers afterwards.
-/
namespace Glas.Scope

/-- respell the binders with id `pid` as `y` -/
def renFrame (pid : Nat) (y : Name) (fr : Frame) : Frame :=
  fr.map (fun e => if e.2 = pid then (y, e.2) else e)

def renEnv (pid : Nat) (y : Name) (env : Env) : Env := env.map (renFrame pid y)

def FreshFrame (y : Name) (fr : Frame) : Prop := ∀ e ∈ fr, e.1 ≠ y

def FreshEnv (y : Name) (env : Env) : Prop := ∀ fr ∈ env, FreshFrame y fr

/-- the selected occurrences are exactly those bound to `pid` -/
def Sel (pid : Nat) (occs : List Nat) (l : List (Nat × Option Nat)) : Prop :=
  ∀ p ∈ l, (occs.contains p.1 = true ↔ p.2 = some pid)

theorem renFrame_nil (pid : Nat) (y : Name) : renFrame pid y [] = [] := rfl

theorem renFrame_cons (pid : Nat) (y : Name) (n : Name) (id : Nat) (fr : Frame) :
    renFrame pid y ((n, id) :: fr) = (if id = pid then (y, id) else (n, id)) :: renFrame pid y fr := rfl

theorem renFrame_append (pid : Nat) (y : Name) (a b : Frame) :
    renFrame pid y (a ++ b) = renFrame pid y a ++ renFrame pid y b := by
  simp [renFrame]

theorem renEnv_cons (pid : Nat) (y : Name) (fr : Frame) (env : Env) :
    renEnv pid y (fr :: env) = renFrame pid y fr :: renEnv pid y env := rfl

theorem FreshFrame.tail {y : Name} {e : Name × Nat} {fr : Frame} (h : FreshFrame y (e :: fr)) :
    FreshFrame y fr := fun e' he' => h e' (List.mem_cons_of_mem _ he')

theorem FreshEnv.cons {y : Name} {fr : Frame} {env : Env} (h1 : FreshFrame y fr) (h2 : FreshEnv y env) :
    FreshEnv y (fr :: env) := by
  intro fr' hfr'
  rcases List.mem_cons.mp hfr' with rfl | h
  · exact h1
  · exact h2 fr' h

theorem Sel.append_iff {pid : Nat} {occs : List Nat} {a b : List (Nat × Option Nat)} :
    Sel pid occs (a ++ b) ↔ Sel pid occs a ∧ Sel pid occs b := by
  unfold Sel
  constructor
  · intro h
    exact ⟨fun p hp => h p (List.mem_append_left _ hp), fun p hp => h p (List.mem_append_right _ hp)⟩
  · rintro ⟨h1, h2⟩ p hp
    rcases List.mem_append.mp hp with h | h
    · exact h1 p h
    · exact h2 p h

/-! ### one frame -/

/-- after the renaming, `y` is spelled only by binders with id `pid` -/
theorem findEntry_ren_y (pid : Nat) (y : Name) :
    ∀ (fr : Frame), FreshFrame y fr →
      findEntry (renFrame pid y fr) y = none ∨ findEntry (renFrame pid y fr) y = some pid := by
  intro fr
  induction fr with
  | nil => intro _; left; rfl
  | cons e fr ih =>
    intro hf
    obtain ⟨n, id⟩ := e
    rw [renFrame_cons]
    by_cases hid : id = pid
    · right; simp [hid, findEntry]
    · have hn : n ≠ y := hf (n, id) List.mem_cons_self
      simp only [hid, if_false, findEntry, hn]
      exact ih hf.tail

/-- a name that found `pid` is found again under the new spelling -/
theorem findEntry_ren_hit (pid : Nat) (y name : Name) :
    ∀ (fr : Frame), FreshFrame y fr → findEntry fr name = some pid →
      findEntry (renFrame pid y fr) y = some pid := by
  intro fr
  induction fr with
  | nil => intro _ h; simp [findEntry] at h
  | cons e fr ih =>
    intro hf h
    obtain ⟨n, id⟩ := e
    rw [renFrame_cons]
    by_cases hid : id = pid
    · simp [hid, findEntry]
    · have hn : n ≠ y := hf (n, id) List.mem_cons_self
      simp only [hid, if_false, findEntry, hn]
      simp only [findEntry] at h
      split at h
      · exact absurd (Option.some.inj h) hid
      · exact ih hf.tail h

/-- a name other than `y` that did not find `pid` finds what it found before -/
theorem findEntry_ren_other (pid : Nat) (y name : Name) (hne : name ≠ y) :
    ∀ (fr : Frame), findEntry fr name ≠ some pid →
      findEntry (renFrame pid y fr) name = findEntry fr name := by
  intro fr
  induction fr with
  | nil => intro _; rfl
  | cons e fr ih =>
    intro h
    obtain ⟨n, id⟩ := e
    rw [renFrame_cons]
    simp only [findEntry] at h ⊢
    by_cases hn : n = name
    · simp only [hn, if_true] at h ⊢
      have hid : id ≠ pid := fun e => h (by rw [e])
      simp [hid]
    · simp only [hn, if_false] at h ⊢
      by_cases hid : id = pid
      · simp only [hid, if_true, Ne.symm hne, if_false]
        exact ih h
      · simp only [hid, if_false, hn]
        exact ih h

/-! ### environments -/

theorem lookupEnv_cons (fr : Frame) (env : Env) (n : Name) :
    lookupEnv (fr :: env) n =
      match findEntry fr n with
      | some id => some id
      | none => lookupEnv env n := rfl

theorem lookupEnv_ren_hit (pid : Nat) (y name : Name) :
    ∀ (env : Env), FreshEnv y env → lookupEnv env name = some pid →
      lookupEnv (renEnv pid y env) y = some pid := by
  intro env
  induction env with
  | nil => intro _ h; simp [lookupEnv] at h
  | cons fr env ih =>
    intro hf h
    have hfr : FreshFrame y fr := hf fr List.mem_cons_self
    have henv : FreshEnv y env := fun fr' h' => hf fr' (List.mem_cons_of_mem _ h')
    rw [renEnv_cons, lookupEnv_cons]
    rcases findEntry_ren_y pid y fr hfr with h0 | h1
    · rw [h0]
      rw [lookupEnv_cons] at h
      cases hfe : findEntry fr name with
      | some id =>
        rw [hfe] at h
        have : id = pid := Option.some.inj h
        subst this
        have := findEntry_ren_hit id y name fr hfr hfe
        rw [h0] at this; cases this
      | none =>
        rw [hfe] at h
        exact ih henv h
    · rw [h1]

theorem lookupEnv_ren_other (pid : Nat) (y name : Name) (hne : name ≠ y) :
    ∀ (env : Env), lookupEnv env name ≠ some pid →
      lookupEnv (renEnv pid y env) name = lookupEnv env name := by
  intro env
  induction env with
  | nil => intro _; rfl
  | cons fr env ih =>
    intro h
    rw [renEnv_cons, lookupEnv_cons, lookupEnv_cons]
    rw [lookupEnv_cons] at h
    cases hfe : findEntry fr name with
    | some id =>
      rw [hfe] at h
      rw [findEntry_ren_other pid y name hne fr (by rw [hfe]; exact h), hfe]
    | none =>
      rw [hfe] at h
      rw [findEntry_ren_other pid y name hne fr (by rw [hfe]; simp), hfe]
      exact ih h

/-! ### `specExpr` lists exactly the occurrences of `occNames`, in the same order -/

mutual
  theorem specExpr_fst : ∀ (e : Expr) (env : Env),
      (specExpr e env).map (·.1) = (occNames e).map (·.1)
    | .var occ name, env => by simp [specExpr, occNames]
    | .hole _, env => by simp [specExpr, occNames]
    | .leaf, env => by simp [specExpr, occNames]
    | .block ss, env => by simp only [specExpr, occNames]; exact specStmts_fst ss env
    | .call f args, env => by
      simp only [specExpr, occNames, List.map_append]
      rw [specExprs_fst args env, specExpr_fst f env]
    | .node es, env => by simp only [specExpr, occNames]; exact specExprs_fst es env
    | .case_ subjects clauses, env => by
      simp only [specExpr, occNames, List.map_append]
      rw [specExprs_fst subjects env, specClauses_fst clauses env]
    | .lam params body, env => by simp only [specExpr, occNames]; exact specExpr_fst body _
  theorem specExprs_fst : ∀ (es : Exprs) (env : Env),
      (specExprs es env).map (·.1) = (occNamesExprs es).map (·.1)
    | .nil, env => by simp [specExprs, occNamesExprs]
    | .cons e es, env => by
      simp only [specExprs, occNamesExprs, List.map_append]
      rw [specExpr_fst e env, specExprs_fst es env]
  theorem specStmts_fst : ∀ (ss : Stmts) (env : Env),
      (specStmts ss env).map (·.1) = (occNamesStmts ss).map (·.1)
    | .nil, env => by simp [specStmts, occNamesStmts]
    | .cons (.let_ p e) ss, env => by
      simp only [specStmts, occNamesStmts, List.map_append]
      rw [specExpr_fst e env, specStmts_fst ss _]
    | .cons (.use_ ps e) ss, env => by
      simp only [specStmts, occNamesStmts, List.map_append]
      rw [specExpr_fst e env, specStmts_fst ss _]
    | .cons (.expr e) ss, env => by
      simp only [specStmts, occNamesStmts, List.map_append]
      rw [specExpr_fst e env, specStmts_fst ss _]
  theorem specClauses_fst : ∀ (cs : Clauses) (env : Env),
      (specClauses cs env).map (·.1) = (occNamesClauses cs).map (·.1)
    | .nil, env => by simp [specClauses, occNamesClauses]
    | .cons (.mk pats body) cs, env => by
      simp only [specClauses, occNamesClauses, List.map_append]
      rw [specExpr_fst body _, specClauses_fst cs env]
end

theorem eq_of_nodup_map_fst {α β : Type} :
    ∀ (l : List (α × β)), (l.map (·.1)).Nodup → ∀ p ∈ l, ∀ q ∈ l, p.1 = q.1 → p = q := by
  intro l
  induction l with
  | nil => intro _ p hp; cases hp
  | cons a l ih =>
    intro hnd p hp q hq hpq
    rw [List.map_cons, List.nodup_cons] at hnd
    rcases List.mem_cons.mp hp with rfl | hp' <;> rcases List.mem_cons.mp hq with rfl | hq'
    · rfl
    · exact absurd (hpq ▸ List.mem_map_of_mem (f := (·.1)) hq') hnd.1
    · exact absurd (hpq ▸ List.mem_map_of_mem (f := (·.1)) hp') hnd.1
    · exact ih hnd.2 p hp' q hq' hpq

/-- with distinct occurrence ids, selecting by id is selecting by what the occurrence is bound to -/
theorem sel_of_nodup (pid : Nat) (l : List (Nat × Option Nat)) (hnd : (l.map (·.1)).Nodup) :
    Sel pid ((l.filter (fun p => p.2 == some pid)).map (fun p => p.1)) l := by
  intro p hp
  simp only [List.contains_iff_mem, List.mem_map, List.mem_filter, beq_iff_eq]
  constructor
  · rintro ⟨q, ⟨hq, hq2⟩, hq1⟩
    rw [← eq_of_nodup_map_fst l hnd q hq p hp hq1]; exact hq2
  · intro h; exact ⟨p, ⟨hp, h⟩, rfl⟩

end Glas.Scope
