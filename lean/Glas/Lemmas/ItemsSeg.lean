import Glas.Lemmas.ItemsLocal
/-! Segments of the module loop: fuel, concatenation, suffix locality, prefix determinism (for C03). -/
namespace Glas.Lemmas.ItemsSeg
open Glas.Dsl Glas.Items Glas.Lemmas.ItemsLocal

/-- more item fuel does not change a finished segment -/
theorem parseSeg_mono (P : Prog) (f n : Nat) (T : List Kind) :
    ∀ (k : Nat) (a b : Nat) (x : List ItemOut), parseSeg P f n T k a b = some x →
      ∀ k', k ≤ k' → parseSeg P f n T k' a b = some x := by
  intro k
  induction k with
  | zero => intro a b x h; simp [parseSeg] at h
  | succ k ih =>
    intro a b x h k' hk
    obtain ⟨k'', rfl⟩ : ∃ k'', k' = k'' + 1 := ⟨k' - 1, by omega⟩
    simp only [parseSeg] at h ⊢
    split
    · rename_i hab; simp only [hab, if_true] at h; exact h
    · rename_i hab
      simp only [hab, if_false] at h
      split
      · rename_i hlt; simp [hlt] at h
      · rename_i hlt
        simp only [hlt, if_false] at h
        cases hr : runItem P f n T a with
        | ok o =>
          simp only [hr, Option.map_eq_some_iff] at h ⊢
          obtain ⟨r, hr', rfl⟩ := h
          exact ⟨r, ih _ _ _ hr' k'' (by omega), rfl⟩
        | panic w => simp [hr] at h
        | oof => simp [hr] at h

/-- two consecutive segments are one segment -/
theorem parseSeg_append (P : Prog) (f n : Nat) (T : List Kind) :
    ∀ (k1 : Nat) (a b c : Nat) (x y : List ItemOut) (k2 : Nat), a ≤ b → b ≤ c →
      parseSeg P f n T k1 a b = some x → parseSeg P f n T k2 b c = some y →
      parseSeg P f n T (k1 + k2) a c = some (x ++ y) := by
  intro k1
  induction k1 with
  | zero => intro a b c x y k2 _ _ h; simp [parseSeg] at h
  | succ k1 ih =>
    intro a b c x y k2 hab hbc h1 h2
    simp only [parseSeg] at h1
    by_cases heq : a = b
    · subst heq
      simp only [if_true, Option.some.injEq] at h1
      subst h1
      exact parseSeg_mono P f n T k2 a c y h2 _ (by omega)
    · simp only [heq, if_false] at h1
      have hlt : ¬ b < a := by omega
      simp only [hlt, if_false] at h1
      cases hr : runItem P f n T a with
      | ok o =>
        simp only [hr, Option.map_eq_some_iff] at h1
        obtain ⟨r, hr', rfl⟩ := h1
        -- the rest of the first segment starts at o.stop ≤ b (else it would have failed)
        have hob : o.stop ≤ b := by
          cases k1 with
          | zero => simp [parseSeg] at hr'
          | succ k1' =>
            simp only [parseSeg] at hr'
            by_cases h' : o.stop = b
            · omega
            · simp only [h', if_false] at hr'
              by_cases h'' : b < o.stop
              · simp [h''] at hr'
              · omega
        have hrec := ih o.stop b c r y k2 hob hbc hr' h2
        have hk : k1 + 1 + k2 = (k1 + k2) + 1 := by omega
        rw [hk]
        simp only [parseSeg]
        have hac : ¬ a = c := by omega
        have hca : ¬ c < a := by omega
        simp only [hac, hca, if_false, hr, hrec, Option.map_some, List.cons_append]
      | panic w => simp [hr] at h1
      | oof => simp [hr] at h1

/-- **suffix locality of segments**: the module loop over `pre ++ suf`, started at the token where `suf`
begins, is the module loop over `suf` alone, shifted -/
theorem parseSeg_shift (P : Prog) (f n : Nat) (pre suf : List Kind) :
    ∀ (k a b : Nat), parseSeg P f n (pre ++ suf) k (a + pre.length) (b + pre.length) =
      (parseSeg P f n suf k a b).map (fun r => r.map (fun o => o.shift pre.length)) := by
  intro k
  induction k with
  | zero => intro a b; simp [parseSeg]
  | succ k ih =>
    intro a b
    simp only [parseSeg]
    by_cases hab : a = b
    · subst hab; simp
    · have h1 : ¬ a + pre.length = b + pre.length := by omega
      simp only [hab, h1, if_false]
      by_cases hlt : b < a
      · have h2 : b + pre.length < a + pre.length := by omega
        simp [hlt, h2]
      · have h2 : ¬ b + pre.length < a + pre.length := by omega
        simp only [hlt, h2, if_false]
        rw [runItem_shift]
        cases hr : runItem P f n suf a with
        | ok o =>
          simp only [ItemRes.shift, ItemOut.shift]
          have := ih o.stop b
          simp only [this, Option.map_map]
          cases parseSeg P f n suf k o.stop b <;> simp [ItemOut.shift]
        | panic w => simp [ItemRes.shift]
        | oof => simp [ItemRes.shift]

/-- **prefix determinism of segments**: a segment that ends at token `b` is determined by the tokens up to
`progMaxNth P` past `b` -/
theorem parseSeg_prefix (P : Prog) (f n : Nat) (T T' : List Kind) (b : Nat) (hag : Agree (b + progMaxNth P + 1) T T') :
    ∀ (k a : Nat) (x : List ItemOut), parseSeg P f n T k a b = some x → parseSeg P f n T' k a b = some x := by
  intro k
  induction k with
  | zero => intro a x h; simp [parseSeg] at h
  | succ k ih =>
    intro a x h
    simp only [parseSeg] at h ⊢
    by_cases hab : a = b
    · simp only [hab, if_true] at h ⊢; exact h
    · simp only [hab, if_false] at h ⊢
      by_cases hlt : b < a
      · simp [hlt] at h
      · simp only [hlt, if_false] at h ⊢
        cases hr : runItem P f n T a with
        | ok o =>
          simp only [hr, Option.map_eq_some_iff] at h
          obtain ⟨r, hr', rfl⟩ := h
          have hob : o.stop ≤ b := by
            cases k with
            | zero => simp [parseSeg] at hr'
            | succ k' =>
              simp only [parseSeg] at hr'
              by_cases h' : o.stop = b
              · omega
              · simp only [h', if_false] at hr'
                by_cases h'' : b < o.stop
                · simp [h''] at hr'
                · omega
          have hag' : Agree (o.stop + progMaxNth P + 1) T T' :=
            ⟨by
              have := congrArg (List.take (o.stop + progMaxNth P + 1)) hag.take
              simpa [List.take_take, Nat.min_eq_left (show o.stop + progMaxNth P + 1 ≤ b + progMaxNth P + 1 by omega)] using this,
             by have := hag.len; omega, by have := hag.len'; omega⟩
          rw [runItem_prefix P f n T T' a o hr hag']
          simp only [ih o.stop r hr', Option.map_some]
        | panic w => simp [hr] at h
        | oof => simp [hr] at h

end Glas.Lemmas.ItemsSeg
