import Glas.Model.Fields
/-! Lemmas for M-fields. -/
namespace Glas.Lemmas.Fields
open Glas.Fields

theorem getField_mem_labels {l : String} {c : Ctor} {t : Ty} (h : getField l c = some t) : l ∈ labels c := by
  induction c generalizing t with
  | nil => simp [getField] at h
  | cons e r ih =>
    obtain ⟨k, t0⟩ := e
    simp only [labels, List.mem_cons]
    by_cases hk : l = k
    · exact Or.inl hk
    · right
      simp only [getField] at h
      split at h
      · rename_i t' ht'
        exact List.mem_filter.mpr ⟨ih ht', by simp [hk]⟩
      · split at h
        · rename_i hkl; exact absurd hkl.symm hk
        · cases h

theorem mem_toMap {l : String} {t : Ty} {c : Ctor} : (l, t) ∈ toMap c ↔ getField l c = some t := by
  unfold toMap
  simp only [List.mem_filterMap, Option.map_eq_some_iff, Prod.mk.injEq]
  constructor
  · rintro ⟨k, _, t', ht', rfl, rfl⟩
    exact ht'
  · intro h
    exact ⟨l, getField_mem_labels h, t, h, rfl, rfl⟩

theorem mem_foldl_retain {e : String × Ty} {cs : List Ctor} {acc : List (String × Ty)} :
    e ∈ cs.foldl retainStep acc ↔ e ∈ acc ∧ ∀ o ∈ cs, getField e.1 o = some e.2 := by
  induction cs generalizing acc with
  | nil => simp
  | cons o os ih =>
    simp only [List.foldl_cons, ih, retainStep, List.mem_filter, beq_iff_eq, List.mem_cons, forall_eq_or_imp]
    constructor
    · rintro ⟨⟨h1, h2⟩, h3⟩; exact ⟨h1, h2, h3⟩
    · rintro ⟨h1, h2, h3⟩; exact ⟨⟨h1, h2⟩, h3⟩

theorem labels_nodup (c : Ctor) : (labels c).Nodup := by
  induction c with
  | nil => simp [labels]
  | cons e r ih =>
    obtain ⟨k, t⟩ := e
    simp only [labels, List.nodup_cons, List.mem_filter, bne_self_eq_false, Bool.false_eq_true, and_false,
      not_false_eq_true, true_and]
    exact ih.sublist List.filter_sublist

theorem toMap_keys_sublist (c : Ctor) : ((toMap c).map (·.1)).Sublist (labels c) := by
  unfold toMap
  generalize labels c = ls
  induction ls with
  | nil => simp
  | cons k ks ih =>
    simp only [List.filterMap_cons]
    cases hg : getField k c with
    | none => simp only [Option.map_none]; exact ih.cons _
    | some t => simp only [Option.map_some, List.map_cons]; exact ih.cons_cons _

theorem foldl_retain_sublist (cs : List Ctor) (acc : List (String × Ty)) :
    (cs.foldl retainStep acc).Sublist acc := by
  induction cs generalizing acc with
  | nil => exact List.Sublist.refl _
  | cons o os ih =>
    simp only [List.foldl_cons]
    exact (ih _).trans List.filter_sublist

end Glas.Lemmas.Fields
