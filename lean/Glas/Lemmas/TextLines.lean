import Glas.Lemmas.Text
/-! Structural lemmas about `splitLines`, `startsFrom`, `diffsOf`. -/
namespace Glas.Text

theorem u8sum_nil : u8sum [] = 0 := rfl
theorem u16sum_nil : u16sum [] = 0 := rfl
theorem u8sum_cons (c : Char) (cs : List Char) : u8sum (c :: cs) = u8 c + u8sum cs := by
  simp [u8sum]
theorem u16sum_cons (c : Char) (cs : List Char) : u16sum (c :: cs) = u16 c + u16sum cs := by
  simp [u16sum]
theorem u8sum_append (a b : List Char) : u8sum (a ++ b) = u8sum a + u8sum b := by
  simp [u8sum]
theorem u16sum_append (a b : List Char) : u16sum (a ++ b) = u16sum a + u16sum b := by
  simp [u16sum]

theorem u16sum_le_u8sum (a : List Char) : u16sum a ≤ u8sum a := by
  induction a with
  | nil => simp [u8sum_nil, u16sum_nil]
  | cons c cs ih => rw [u8sum_cons, u16sum_cons]; have := u16_le_u8 c; omega

theorem length_le_u16sum (a : List Char) : a.length ≤ u16sum a := by
  induction a with
  | nil => simp
  | cons c cs ih => rw [u16sum_cons, List.length_cons]; have := u16_pos c; omega

theorem splitLines_ne_nil (t : List Char) : splitLines t ≠ [] := by
  cases t with
  | nil => simp [splitLines]
  | cons c cs =>
    unfold splitLines
    split
    · simp
    · split <;> simp

theorem splitLines_exists_cons (t : List Char) : ∃ l ls, splitLines t = l :: ls := by
  have := splitLines_ne_nil t
  cases h : splitLines t with
  | nil => exact absurd h this
  | cons l ls => exact ⟨l, ls, rfl⟩

theorem splitLines_cons_nl (cs : List Char) : splitLines ('\n' :: cs) = [] :: splitLines cs := by
  obtain ⟨l, ls, h⟩ := splitLines_exists_cons cs
  simp [splitLines, h]

theorem splitLines_cons_ne (c : Char) (cs : List Char) (l : List Char) (ls : List (List Char))
    (hc : c ≠ '\n') (h : splitLines cs = l :: ls) : splitLines (c :: cs) = (c :: l) :: ls := by
  simp [splitLines, h, hc]

theorem splitLines_exists_snoc (t : List Char) : ∃ la x, splitLines t = la ++ [x] := by
  have := splitLines_ne_nil t
  exact ⟨(splitLines t).dropLast, (splitLines t).getLast this, (List.dropLast_concat_getLast this).symm⟩

/-- the last line of `a` is glued to the first line of `b` -/
theorem splitLines_append : ∀ (a b : List Char) (la : List (List Char)) (x y : List Char)
    (lb : List (List Char)), splitLines a = la ++ [x] → splitLines b = y :: lb →
    splitLines (a ++ b) = la ++ (x ++ y) :: lb := by
  intro a
  induction a with
  | nil =>
    intro b la x y lb ha hb
    simp [splitLines] at ha
    cases la with
    | nil => simp at ha; subst ha; simpa using hb
    | cons l la' => simp at ha
  | cons c cs ih =>
    intro b la x y lb ha hb
    obtain ⟨la', x', hcs⟩ := splitLines_exists_snoc cs
    have hrec := ih b la' x' y lb hcs hb
    by_cases hc : c = '\n'
    · subst hc
      rw [splitLines_cons_nl, hcs] at ha
      rw [List.cons_append, splitLines_cons_nl, hrec]
      have : ([] :: la') ++ [x'] = la ++ [x] := by simpa using ha
      have h2 := List.append_inj' this rfl
      obtain ⟨h3, h4⟩ := h2
      simp at h4; subst h4; subst h3; simp
    · cases la' with
      | nil =>
        simp at hcs hrec
        rw [splitLines_cons_ne c cs x' [] hc hcs] at ha
        rw [List.cons_append, splitLines_cons_ne c (cs ++ b) (x' ++ y) lb hc hrec]
        have : [] ++ [c :: x'] = la ++ [x] := by simpa using ha
        obtain ⟨h3, h4⟩ := List.append_inj' this rfl
        simp at h4; subst h4; subst h3; simp
      | cons l la'' =>
        have hcs' : splitLines cs = l :: (la'' ++ [x']) := by simpa using hcs
        have hrec' : splitLines (cs ++ b) = l :: (la'' ++ (x' ++ y) :: lb) := by simpa using hrec
        rw [splitLines_cons_ne c cs _ _ hc hcs'] at ha
        rw [List.cons_append, splitLines_cons_ne c (cs ++ b) _ _ hc hrec']
        have : ((c :: l) :: la'') ++ [x'] = la ++ [x] := by simpa using ha
        obtain ⟨h3, h4⟩ := List.append_inj' this rfl
        simp at h4; subst h4; subst h3; simp

/-- a text without newline is a single line -/
theorem splitLines_no_nl : ∀ (d : List Char), (∀ c ∈ d, c ≠ '\n') → splitLines d = [d] := by
  intro d
  induction d with
  | nil => intro _; rfl
  | cons c cs ih =>
    intro h
    have hc : c ≠ '\n' := h c (by simp)
    have := ih (fun c' hc' => h c' (by simp [hc']))
    exact splitLines_cons_ne c cs cs [] hc this

end Glas.Text
